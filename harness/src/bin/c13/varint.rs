//! VarInt (LEB128), VarIntEncoder × 7 strategies, SimdVarintCodec.

use crate::{bad, ensure, fam, grid_i64, grid_u64, must, ref_leb, seqs_i64, seqs_u64, R, S12I, S12U};
use serde::{Deserialize, Serialize};
use zipora::io::simd_encoding::varint::{
    decode_varint, decode_varint_batch, encode_varint, encode_varint_batch, SimdVarintCodec,
};
use zipora::io::var_int::SignedVarInt;
use zipora::io::{VarInt, VarIntEncoder, VarIntStrategy};
use zverif::util::brief;
use zverif::{Outcome, Registry};

#[derive(Serialize, Deserialize, Hash, Clone, Debug)]
pub enum VC {
    U(u64),
    I(i64),
    UU(u64, u64),
    II(i64, i64),
    US(Vec<u64>),
    IS(Vec<i64>),
}

fn gen_vc(tier: zverif::Tier, f: &mut dyn FnMut(VC) -> bool) {
    let gu = grid_u64();
    let gi = grid_i64();
    for &v in &gu {
        if !f(VC::U(v)) {
            return;
        }
    }
    for &v in &gi {
        if !f(VC::I(v)) {
            return;
        }
    }
    for &a in &S12U {
        for &b in &gu {
            if !f(VC::UU(a, b)) {
                return;
            }
        }
    }
    for &a in &S12I {
        for &b in &gi {
            if !f(VC::II(a, b)) {
                return;
            }
        }
    }
    if !seqs_u64(tier, &mut |s| f(VC::US(s))) {
        return;
    }
    seqs_i64(tier, &mut |s| f(VC::IS(s)));
}

const VC_SPACE: &str = "singles: 47-value u64 grid {0,1,2^7k-1,2^7k,2^7k+1 (k=1..9),2^8k-1,2^8k (k=1..7),2^31,2^32,2^63-1,2^63,MAX-1,MAX} and its signed mirror (v,-v,-v-1,MIN); pairs (concatenation): 12-value subset x grid; sequences: all of length <=3 over the 12-value subset + 9 shapes (ascending, descending, huge first difference, alternating extremes, all-MAX, grid walk, 2^32 straddle) x lengths {0..9,15,16,17,31,32,33,64}; coverage audit: + 3 unsigned shapes (1/2/3/4-byte values in every group of four, unsorted with max exactly 2^32-1 / 2^32) and 2 signed shapes (alternating sign around +-64, sorted run through 0) and lengths {127,128,129,300} (2-byte element count) for every shape, {16383,16384} (3-byte count) for two shapes";

// ---------------------------------------------------------------------------------------------
// VarInt

fn run_varint(c: &VC) -> R {
    match c {
        VC::U(v) => {
            let v = *v;
            let enc = VarInt::encode(v);
            ensure!(enc == ref_leb(v), "bytes", "encode", "encode({v}) = {}, LEB128 is {}", brief(&enc), brief(&ref_leb(v)));
            ensure!(enc.len() <= VarInt::MAX_ENCODED_LEN, "bytes", "len>MAX_ENCODED_LEN", "{} bytes", enc.len());
            ensure!(VarInt::encoded_len(v) == enc.len(), "consumed", "encoded_len", "encoded_len({v}) = {}, encode produced {}", VarInt::encoded_len(v), enc.len());
            ensure!(VarInt::fits_in_one_byte(v) == (enc.len() == 1), "consumed", "fits_in_one_byte", "v={v}");
            ensure!(VarInt::fits_in_two_bytes(v) == (enc.len() <= 2), "consumed", "fits_in_two_bytes", "v={v}");
            let (d, n) = must(VarInt::decode(&enc), "decode_err", "decode")?;
            ensure!(d == v, "value", "decode", "decode(encode({v})) = {d}");
            ensure!(n == enc.len(), "consumed", "decode", "decode consumed {n} of {} bytes", enc.len());
            // trailing bytes of a following record are not consumed
            let mut more = enc.clone();
            more.extend_from_slice(&[0xFF, 0x80, 0x00]);
            let (d, n) = must(VarInt::decode(&more), "decode_err", "decode+trailing")?;
            ensure!(d == v && n == enc.len(), "consumed", "decode+trailing", "got ({d},{n}) want ({v},{})", enc.len());
            // (coverage audit) the streaming reader: same value, the input stays positioned right behind the encoding
            {
                use zipora::io::{DataInput, SliceDataInput};
                let mut inp = SliceDataInput::new(&more);
                let d = must(VarInt::read_from(&mut inp), "decode_err", "read_from")?;
                let next = must(inp.read_u8(), "decode_err", "read_from/next_byte")?;
                ensure!(d == v && next == 0xFF, "consumed", "read_from", "read_from gave {d} (want {v}) and left the input at byte {next:#x} (want the 0xFF right behind the encoding)");
            }
            // the three writers agree
            let mut w1 = Vec::new();
            let n1 = must(VarInt::write_to(&mut w1, v), "encode_err", "write_to")?;
            let mut w2 = Vec::new();
            let n2 = must(VarInt::write_to_vec(&mut w2, v), "encode_err", "write_to_vec")?;
            ensure!(w1 == enc && n1 == enc.len(), "bytes", "write_to", "write_to → {} ret {n1}", brief(&w1));
            ensure!(w2 == enc && n2 == enc.len(), "bytes", "write_to_vec", "write_to_vec → {} ret {n2}", brief(&w2));
            Ok(Outcome::pass(&format!("u64/len{}", enc.len())))
        }
        VC::I(v) => {
            let v = *v;
            let enc = <VarInt as SignedVarInt>::encode_signed(v);
            let (d, n) = must(<VarInt as SignedVarInt>::decode_signed(&enc), "decode_err", "decode_signed")?;
            ensure!(d == v, "value", "decode_signed", "decode_signed(encode_signed({v})) = {d}");
            ensure!(n == enc.len(), "consumed", "decode_signed", "consumed {n} of {}", enc.len());
            let mut more = enc.clone();
            more.push(0x81);
            let (d, n) = must(<VarInt as SignedVarInt>::decode_signed(&more), "decode_err", "decode_signed+trailing")?;
            ensure!(d == v && n == enc.len(), "consumed", "decode_signed+trailing", "got ({d},{n})");
            Ok(Outcome::pass(&format!("i64/len{}", enc.len())))
        }
        VC::UU(a, b) => {
            let (ea, eb) = (VarInt::encode(*a), VarInt::encode(*b));
            let cat = [ea.clone(), eb.clone()].concat();
            let (d1, n1) = must(VarInt::decode(&cat), "decode_err", "concat")?;
            ensure!(d1 == *a && n1 == ea.len(), "concat", "first", "first of ({a},{b}) decoded as ({d1},{n1})");
            let (d2, n2) = must(VarInt::decode(&cat[n1..]), "decode_err", "concat")?;
            ensure!(d2 == *b && n2 == eb.len(), "concat", "second", "second of ({a},{b}) decoded as ({d2},{n2})");
            let m = VarInt::encode_multiple([*a, *b]);
            ensure!(m == cat, "bytes", "encode_multiple", "encode_multiple = {}", brief(&m));
            let dm = must(VarInt::decode_multiple(&m), "decode_err", "decode_multiple")?;
            ensure!(dm == vec![*a, *b], "value", "decode_multiple", "{:?}", dm);
            // (coverage audit) the appending writers used on ONE destination for consecutive values
            let mut v = vec![0x5Au8];
            let n1 = must(VarInt::write_to_vec(&mut v, *a), "encode_err", "write_to_vec")?;
            let n2 = must(VarInt::write_to_vec(&mut v, *b), "encode_err", "write_to_vec")?;
            ensure!(v[0] == 0x5A && v[1..] == cat[..] && n1 == ea.len() && n2 == eb.len(), "bytes", "write_to_vec/appending", "write_to_vec({a}) then ({b}) into a vector that already held one byte: {} (returned {n1},{n2}), want 5a + {}", brief(&v), brief(&cat));
            let mut cur = std::io::Cursor::new(vec![0x5Au8]);
            cur.set_position(1);
            let n1 = must(VarInt::write_to(&mut cur, *a), "encode_err", "write_to")?;
            let n2 = must(VarInt::write_to(&mut cur, *b), "encode_err", "write_to")?;
            let v = cur.into_inner();
            ensure!(v[0] == 0x5A && v[1..] == cat[..] && n1 == ea.len() && n2 == eb.len(), "bytes", "write_to/appending", "write_to({a}) then ({b}) into one writer: {} (returned {n1},{n2})", brief(&v));
            Ok(Outcome::pass("u64-pair"))
        }
        VC::II(a, b) => {
            let (ea, eb) = (<VarInt as SignedVarInt>::encode_signed(*a), <VarInt as SignedVarInt>::encode_signed(*b));
            let cat = [ea.clone(), eb.clone()].concat();
            let (d1, n1) = must(<VarInt as SignedVarInt>::decode_signed(&cat), "decode_err", "concat")?;
            ensure!(d1 == *a && n1 == ea.len(), "concat", "first", "first of ({a},{b}) decoded as ({d1},{n1})");
            let (d2, n2) = must(<VarInt as SignedVarInt>::decode_signed(&cat[n1..]), "decode_err", "concat")?;
            ensure!(d2 == *b && n2 == eb.len(), "concat", "second", "second of ({a},{b}) decoded as ({d2},{n2})");
            Ok(Outcome::pass("i64-pair"))
        }
        VC::US(s) => {
            let m = VarInt::encode_multiple(s.iter().copied());
            let want: Vec<u8> = s.iter().flat_map(|&v| ref_leb(v)).collect();
            ensure!(m == want, "bytes", "encode_multiple", "encode_multiple({:?}) = {}", s, brief(&m));
            let d = must(VarInt::decode_multiple(&m), "decode_err", "decode_multiple")?;
            ensure!(&d == s, "value", "decode_multiple", "decode_multiple → {:?}, want {:?}", d, s);
            Ok(if s.is_empty() { Outcome::trivial("seq/empty") } else { Outcome::pass("seq") })
        }
        VC::IS(_) => Ok(Outcome::skip("VarInt offers no signed sequence API")),
    }
}

// ---------------------------------------------------------------------------------------------
// VarIntEncoder

fn strategy_name(s: VarIntStrategy) -> &'static str {
    match s {
        VarIntStrategy::Leb128 => "Leb128",
        VarIntStrategy::Zigzag => "Zigzag",
        VarIntStrategy::Delta => "Delta",
        VarIntStrategy::GroupVarint => "GroupVarint",
        VarIntStrategy::PrefixFree => "PrefixFree",
        VarIntStrategy::Compact => "Compact",
        VarIntStrategy::Simd => "Simd",
    }
}

/// Outcome class of a failing case: a documented function of the input only.
/// GroupVarint: does any value (as u64) need more than 4 bytes?  Delta: is any adjacent |difference| >= 2^63?
fn seq_class(s: VarIntStrategy, as_u64: &[u64], signed: Option<&[i64]>) -> String {
    match s {
        VarIntStrategy::GroupVarint => {
            if as_u64.iter().any(|&v| v >= 1 << 32) { "max>=2^32".into() } else { "max<2^32".into() }
        }
        VarIntStrategy::Delta => {
            let big = match signed {
                Some(v) => v.windows(2).any(|w| (w[1] as i128 - w[0] as i128).unsigned_abs() >= 1 << 63),
                None => as_u64.windows(2).any(|w| w[1].abs_diff(w[0]) >= 1 << 63),
            };
            if big { "absdiff>=2^63".into() } else { "absdiff<2^63".into() }
        }
        _ => "any".into(),
    }
}

fn run_encoder(strategy: VarIntStrategy, c: &VC) -> R {
    let e = VarIntEncoder::new(strategy);
    ensure!(e.strategy() == strategy, "value", "strategy", "strategy() differs");
    macro_rules! single {
        ($v:expr, $enc:ident, $dec:ident, $clause:expr) => {{
            let v = $v;
            let enc = match e.$enc(v) {
                Ok(b) => b,
                Err(_) => return Ok(Outcome::skip("encode refused (strategy does not offer this input kind)")),
            };
            let (d, n) = must(e.$dec(&enc), $clause, "decode_err")?;
            ensure!(d == v, $clause, "wrong_value", "decode(encode({v})) = {d}; bytes {}", brief(&enc));
            ensure!(n == enc.len(), $clause, "wrong_consumed", "consumed {n} of {} bytes for {v}", enc.len());
            let mut more = enc.clone();
            more.extend_from_slice(&[0x83, 0xFF]);
            let (d, n) = must(e.$dec(&more), $clause, "decode_err+trailing")?;
            ensure!(d == v && n == enc.len(), $clause, "wrong_consumed+trailing", "got ({d},{n}) want ({v},{})", enc.len());
            Ok(Outcome::pass(&format!("{}/len{}", $clause, enc.len())))
        }};
    }
    macro_rules! pair {
        ($a:expr, $b:expr, $enc:ident, $dec:ident, $clause:expr) => {{
            let (a, b) = ($a, $b);
            let (ea, eb) = match (e.$enc(a), e.$enc(b)) {
                (Ok(x), Ok(y)) => (x, y),
                _ => return Ok(Outcome::skip("encode refused (strategy does not offer this input kind)")),
            };
            let cat = [ea.clone(), eb.clone()].concat();
            let (d1, n1) = must(e.$dec(&cat), $clause, "decode_err")?;
            ensure!(d1 == a && n1 == ea.len(), $clause, "first", "first of ({a},{b}) → ({d1},{n1}), want ({a},{})", ea.len());
            let (d2, n2) = must(e.$dec(&cat[n1..]), $clause, "decode_err")?;
            ensure!(d2 == b && n2 == eb.len(), $clause, "second", "second of ({a},{b}) → ({d2},{n2}), want ({b},{})", eb.len());
            Ok(Outcome::pass($clause))
        }};
    }
    match c {
        VC::U(v) => single!(*v, encode_u64, decode_u64, "u64"),
        VC::I(v) => single!(*v, encode_i64, decode_i64, "i64"),
        VC::UU(a, b) => pair!(*a, *b, encode_u64, decode_u64, "u64_concat"),
        VC::II(a, b) => pair!(*a, *b, encode_i64, decode_i64, "i64_concat"),
        VC::US(s) => {
            let class = seq_class(strategy, s, None);
            seq_roundtrip(&class, s, || e.encode_u64_sequence(s), |b| e.decode_u64_sequence(b), "u64")
        }
        VC::IS(s) => {
            let as_u: Vec<u64> = s.iter().map(|&v| v as u64).collect();
            let class = seq_class(strategy, &as_u, Some(s));
            seq_roundtrip(&class, s, || e.encode_i64_sequence(s), |b| e.decode_i64_sequence(b), "i64")
        }
    }
}

/// Sequence round trip.  Clause `seq_roundtrip`; class = `<symptom>/<input feature>` where the symptom is
/// `encode_panic` or `roundtrip_failed` (decode Err, decode panic or different values: all "the bytes the
/// encoder produced do not decode to the input") and the feature is `seq_class`.
fn seq_roundtrip<T: PartialEq + std::fmt::Debug + Clone>(
    class: &str,
    s: &[T],
    enc: impl FnOnce() -> zipora::Result<Vec<u8>>,
    dec: impl FnOnce(&[u8]) -> zipora::Result<Vec<T>>,
    kind: &str,
) -> R {
    let enc = match zverif::util::catch(enc) {
        Ok(Ok(b)) => b,
        Ok(Err(_)) => return Ok(Outcome::skip("encode refused (strategy does not offer this input kind)")),
        Err(p) => return Err(bad("seq_roundtrip", format!("encode_panic/{class}"), format!("{kind} sequence {:?}: {}", s, p.detail))),
    };
    match zverif::util::catch(|| dec(&enc)) {
        Ok(Ok(d)) => {
            ensure!(d == s, "seq_roundtrip", format!("roundtrip_failed/{class}"), "{kind}: decode(encode({:?})) = {:?}; bytes {}", s, d, brief(&enc));
        }
        Ok(Err(err)) => return Err(bad("seq_roundtrip", format!("roundtrip_failed/{class}"), format!("{kind}: decode of its own bytes {} failed: {err}; input {:?}", brief(&enc), s))),
        Err(p) => return Err(bad("seq_roundtrip", format!("roundtrip_failed/{class}"), format!("{kind}: decode of its own bytes {} panicked: {}; input {:?}", brief(&enc), p.detail, s))),
    }
    Ok(if s.is_empty() { Outcome::trivial(&format!("{kind}_seq/empty")) } else { Outcome::pass(&format!("{kind}_seq/{class}")) })
}

// ---------------------------------------------------------------------------------------------
// SimdVarintCodec

fn run_simd(c: &VC) -> R {
    let codec = SimdVarintCodec::new();
    match c {
        VC::U(v) => {
            let v = *v;
            let enc = must(codec.encode_single(v), "encode_err", "encode_single")?;
            ensure!(enc == VarInt::encode(v), "simd_eq_scalar", "encode_single", "encode_single({v}) = {}, scalar {}", brief(&enc), brief(&VarInt::encode(v)));
            let (d, n) = must(codec.decode_single(&enc), "decode_err", "decode_single")?;
            ensure!(d == v && n == enc.len(), "value", "decode_single", "got ({d},{n}) want ({v},{})", enc.len());
            let g = must(encode_varint(v), "encode_err", "encode_varint")?;
            ensure!(g == enc, "simd_eq_scalar", "encode_varint", "global encode_varint differs");
            let (d, n) = must(decode_varint(&g), "decode_err", "decode_varint")?;
            ensure!(d == v && n == g.len(), "value", "decode_varint", "got ({d},{n})");
            Ok(Outcome::pass(&format!("single/len{}", enc.len())))
        }
        VC::UU(a, b) => {
            let cat = [VarInt::encode(*a), VarInt::encode(*b)].concat();
            let (d1, n1) = must(codec.decode_single(&cat), "decode_err", "concat")?;
            ensure!(d1 == *a && n1 == VarInt::encode(*a).len(), "concat", "first", "({d1},{n1})");
            let (d2, n2) = must(codec.decode_single(&cat[n1..]), "decode_err", "concat")?;
            ensure!(d2 == *b && n1 + n2 == cat.len(), "concat", "second", "({d2},{n2})");
            Ok(Outcome::pass("pair"))
        }
        VC::US(s) => {
            let scalar = VarInt::encode_multiple(s.iter().copied());
            let enc = must(codec.encode_batch(s), "encode_err", "encode_batch")?;
            let path = if s.len() >= 4 { if scalar.len() >= 32 { "simd-enc+avx2-dec" } else { "simd-enc" } } else { "scalar" };
            ensure!(enc == scalar, "simd_eq_scalar", format!("encode_batch/{path}"), "encode_batch({:?}) = {}, scalar codec {}", s, brief(&enc), brief(&scalar));
            if !s.is_empty() {
                let d = must(codec.decode_batch(&enc, s.len()), "decode_err", "decode_batch")?;
                ensure!(&d == s, "value", format!("decode_batch/{path}"), "decode_batch → {:?} want {:?}", d, s);
                // a batch followed by another record: the first count values are unaffected
                let mut more = enc.clone();
                more.extend_from_slice(&VarInt::encode(u64::MAX));
                let d = must(codec.decode_batch(&more, s.len()), "decode_err", "decode_batch+trailing")?;
                ensure!(&d == s, "concat", format!("decode_batch/{path}"), "with a trailing record: {:?} want {:?}", d, s);
            } else {
                let d = must(codec.decode_batch(&enc, 0), "decode_err", "decode_batch")?;
                ensure!(d.is_empty(), "value", "decode_batch/empty", "{:?}", d);
            }
            let g = must(encode_varint_batch(s), "encode_err", "encode_varint_batch")?;
            ensure!(g == scalar, "simd_eq_scalar", "encode_varint_batch", "global batch differs");
            let gd = must(decode_varint_batch(&g, s.len()), "decode_err", "decode_varint_batch")?;
            ensure!(&gd == s, "value", "decode_varint_batch", "{:?}", gd);
            Ok(if s.is_empty() { Outcome::trivial("batch/empty") } else { Outcome::pass(&format!("batch/{path}/{:?}", codec.tier())) })
        }
        _ => Ok(Outcome::skip("codec is unsigned-only")),
    }
}

/// (coverage audit) the strategy the library itself picks for a sequence must round-trip that sequence.
/// `choose_optimal_strategy(_signed)` branches on length (>= 16, > 6, > 5), sortedness, max < 2^32 and |v| < 256.
fn run_chosen(c: &VC) -> R {
    use zipora::io::var_int_variants::{choose_optimal_strategy, choose_optimal_strategy_signed};
    match c {
        VC::US(s) => {
            let strategy = match zverif::util::catch(|| choose_optimal_strategy(s)) {
                Ok(st) => st,
                Err(_) => return Ok(Outcome::skip("the chooser panicked: no encoder was selected")),
            };
            let e = VarIntEncoder::new(strategy);
            let class = format!("chosen={}/{}", strategy_name(strategy), seq_class(strategy, s, None));
            seq_roundtrip(&class, s, || e.encode_u64_sequence(s), |b| e.decode_u64_sequence(b), "u64")
        }
        VC::IS(s) => {
            let strategy = match zverif::util::catch(|| choose_optimal_strategy_signed(s)) {
                Ok(st) => st,
                Err(_) => return Ok(Outcome::skip("the chooser panicked: no encoder was selected")),
            };
            let e = VarIntEncoder::new(strategy);
            let as_u: Vec<u64> = s.iter().map(|&v| v as u64).collect();
            let class = format!("chosen={}/{}", strategy_name(strategy), seq_class(strategy, &as_u, Some(s)));
            seq_roundtrip(&class, s, || e.encode_i64_sequence(s), |b| e.decode_i64_sequence(b), "i64")
        }
        _ => Ok(Outcome::skip("the chooser works on sequences")),
    }
}

pub fn register(reg: &mut Registry) {
    reg.add(fam("VarInt", VC_SPACE, gen_vc, run_varint));
    reg.add(fam("VarIntEncoder[choose_optimal_strategy]", VC_SPACE, gen_vc, run_chosen));
    for s in [
        VarIntStrategy::Leb128,
        VarIntStrategy::Zigzag,
        VarIntStrategy::Delta,
        VarIntStrategy::GroupVarint,
        VarIntStrategy::PrefixFree,
        VarIntStrategy::Compact,
        VarIntStrategy::Simd,
    ] {
        reg.add(fam(&format!("VarIntEncoder[{}]", strategy_name(s)), VC_SPACE, gen_vc, move |c| run_encoder(s, c)));
    }
    reg.add(fam("SimdVarintCodec", VC_SPACE, gen_vc, run_simd));
}
