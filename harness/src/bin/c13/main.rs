//! C13 — serialised values decode to themselves and consume exactly their own bytes (engine E2).
//!
//! Every family below is an `EnumSpec` over a stated finite space; the oracle is always the
//! property's sentence: `decode(encode(v)) == (v, encode(v).len())`, concatenated encodings decode
//! in order, SIMD batch bytes == scalar bytes, and a wrapped/buffered/ranged reader (writer) yields
//! (stores) exactly the inner bytes of its range.
//!
//! Layout: `main.rs` (plumbing, value grids, registration), `varint.rs` (VarInt, VarIntEncoder,
//! SimdVarintCodec), `dataio.rs` (DataInput/DataOutput back ends incl. file + mmap),
//! `ser.rs` (endian, ComplexSerialize, smart_ptr, versioning), `streams.rs` (RangeReader/Writer,
//! StreamBuffered*, zero_copy, VectoredIO).

use serde::{de::DeserializeOwned, Serialize};
use std::hash::Hash;
use std::path::PathBuf;
use std::sync::atomic::{AtomicU64, Ordering};
use std::sync::OnceLock;
use zverif::enumr::{Enum, EnumSpec};
use zverif::{Fail, Outcome, Tier};

mod dataio;
mod ser;
mod streams;
mod varint;

// ---------------------------------------------------------------------------------------------
// plumbing

pub type R = Result<Outcome, Fail>;

pub struct Fam<C> {
    pub name: String,
    pub space: String,
    pub gen: Box<dyn Fn(Tier, &mut dyn FnMut(C) -> bool)>,
    pub run: Box<dyn Fn(&C) -> R>,
}

impl<C: Serialize + DeserializeOwned + Hash + Clone> EnumSpec for Fam<C> {
    type Case = C;
    fn name(&self) -> String {
        self.name.clone()
    }
    fn space(&self, _tier: Tier) -> String {
        self.space.clone()
    }
    fn cases(&self, tier: Tier, f: &mut dyn FnMut(C) -> bool) {
        (self.gen)(tier, f)
    }
    fn run(&self, case: &C) -> Outcome {
        match (self.run)(case) {
            Ok(o) => o,
            Err(f) => Outcome::Fail(f),
        }
    }
}

pub fn fam<C: Serialize + DeserializeOwned + Hash + Clone + 'static>(
    name: &str,
    space: &str,
    gen: impl Fn(Tier, &mut dyn FnMut(C) -> bool) + 'static,
    run: impl Fn(&C) -> R + 'static,
) -> Enum<Fam<C>> {
    Enum(Fam { name: name.to_string(), space: space.to_string(), gen: Box::new(gen), run: Box::new(run) })
}

pub fn bad(clause: &str, class: impl Into<String>, detail: impl Into<String>) -> Fail {
    Fail::new(clause, detail).with_class(class)
}

/// `ensure!(cond, clause, class, fmt..)` → `return Err(Fail)`
#[macro_export]
macro_rules! ensure {
    ($cond:expr, $clause:expr, $class:expr, $($fmt:tt)+) => {
        if !($cond) {
            return Err($crate::bad($clause, $class, format!($($fmt)+)));
        }
    };
}

/// unwrap a library `Result`, turning `Err` into a failure of `clause`
pub fn must<T, E: std::fmt::Display>(r: Result<T, E>, clause: &str, class: &str) -> Result<T, Fail> {
    r.map_err(|e| bad(clause, class, format!("unexpected Err: {e}")))
}

// ---------------------------------------------------------------------------------------------
// scratch directory (file / mmap back ends): /dev/shm/zverif/a7-c13-<pid>, removed at exit

static SCRATCH: OnceLock<PathBuf> = OnceLock::new();
static FILE_NO: AtomicU64 = AtomicU64::new(0);

extern "C" fn remove_scratch() {
    if let Some(p) = SCRATCH.get() {
        let _ = std::fs::remove_dir_all(p);
    }
}

pub fn scratch_file(tag: &str) -> PathBuf {
    let dir = SCRATCH.get_or_init(|| {
        let p = zverif::util::scratch_root().join(format!("a7-c13-{}", std::process::id()));
        let _ = std::fs::remove_dir_all(&p);
        std::fs::create_dir_all(&p).expect("create scratch");
        unsafe {
            libc::atexit(remove_scratch);
        }
        p
    });
    dir.join(format!("{}-{}", tag, FILE_NO.fetch_add(1, Ordering::Relaxed)))
}

/// RAII: remove the file when the case is done
pub struct TmpFile(pub PathBuf);
impl TmpFile {
    pub fn new(tag: &str) -> TmpFile {
        TmpFile(scratch_file(tag))
    }
    pub fn with_bytes(tag: &str, bytes: &[u8]) -> TmpFile {
        let t = TmpFile::new(tag);
        std::fs::write(&t.0, bytes).expect("write scratch file");
        t
    }
}
impl Drop for TmpFile {
    fn drop(&mut self) {
        let _ = std::fs::remove_file(&self.0);
    }
}

// ---------------------------------------------------------------------------------------------
// value grids (DESIGN §7 C13 "A")

/// {0, 1, 2^7k-1, 2^7k, 2^7k+1 (k=1..9), 2^31, 2^32, 2^63-1, 2^63, MAX} ∪ byte-width boundaries
/// 2^8k-1, 2^8k (k=1..7: group-varint / prefix-free width selectors) ∪ {MAX-1}
pub fn grid_u64() -> Vec<u64> {
    let mut v = vec![0u64, 1];
    for k in 1..=9u32 {
        let p = 1u64 << (7 * k);
        v.extend([p - 1, p, p + 1]);
    }
    for k in 1..=7u32 {
        let p = 1u64 << (8 * k);
        v.extend([p - 1, p]);
    }
    v.extend([1 << 31, 1 << 32, (1u64 << 63) - 1, 1 << 63, u64::MAX - 1, u64::MAX]);
    v.sort_unstable();
    v.dedup();
    v
}

/// the signed mirror: v, -v, -v-1 for every grid value that fits, plus MIN
pub fn grid_i64() -> Vec<i64> {
    let mut v = vec![i64::MIN, i64::MIN + 1];
    for u in grid_u64() {
        if u <= i64::MAX as u64 {
            let s = u as i64;
            v.extend([s, -s, (-s).wrapping_sub(1)]);
        }
    }
    v.sort_unstable();
    v.dedup();
    v
}

pub const S12U: [u64; 12] =
    [0, 1, 127, 128, 16383, 16384, (1 << 32) - 1, 1 << 32, (1 << 63) - 1, 1 << 63, u64::MAX - 1, u64::MAX];
pub const S12I: [i64; 12] = [0, 1, -1, 63, 64, -64, -65, 1 << 31, -(1 << 31) - 1, i64::MAX, i64::MIN, i64::MIN + 1];

pub const SHAPED_LENS_QUICK: &[usize] = &[0, 1, 2, 3, 4, 5, 6, 7, 8, 9];
pub const SHAPED_LENS_MORE: &[usize] = &[15, 16, 17, 31, 32, 33, 64];
/// (coverage audit) lengths whose LEB128 element count needs 2 and 3 bytes (every sequence format starts with the count)
pub const SHAPED_LENS_COUNT: &[usize] = &[127, 128, 129, 300, 16383, 16384];

/// shaped u64 sequences: ascending / descending / huge-first-difference / alternating / all-MAX / grid walk
pub fn shaped_u64(shape: usize, n: usize) -> Vec<u64> {
    let g = grid_u64();
    (0..n as u64)
        .map(|i| match shape {
            0 => i,                                             // ascending, step 1
            1 => i.wrapping_mul(1 << 40),                       // ascending, big step
            2 => u64::MAX - i,                                  // descending from MAX
            3 => 1000 - 100 * i.min(10),                        // descending small
            4 => if i == 0 { 0 } else { u64::MAX - (i - 1) },   // huge first difference
            5 => if i % 2 == 0 { 0 } else { u64::MAX },         // alternating extremes
            6 => u64::MAX,                                      // all ten-byte varints
            7 => g[(i as usize * 5) % g.len()],                 // grid walk
            8 => (1u64 << 32) - 2 + i,                          // straddles 2^32
            // (coverage audit, appended)
            9 => [0xABu64, 0xABCD, 0xAB_CDEF, 0xABCD_EF01][(i % 4) as usize] + (i / 4) % 2, // 1,2,3,4-byte values in every group of four, all < 2^32
            10 => (1u64 << 32) - 1 - (i % 1000),                // unsorted, max exactly 2^32-1 (the largest value group varint can hold)
            _ => (1u64 << 32) - (i % 1000),                     // unsorted, max exactly 2^32
        })
        .collect()
}
pub const N_SHAPES_U: usize = 12;

pub fn shaped_i64(shape: usize, n: usize) -> Vec<i64> {
    let g = grid_i64();
    (0..n as i64)
        .map(|i| match shape {
            0 => i - 4,                                         // ascending through 0
            1 => i64::MIN.wrapping_add(i.wrapping_mul(1 << 60)), // ascending big step from MIN
            2 => i64::MAX - i,                                  // descending from MAX
            3 => -i * 100,                                      // descending negative
            4 => if i == 0 { i64::MIN } else { i64::MAX - (i - 1) }, // huge first difference (overflows i64)
            5 => if i % 2 == 0 { i64::MIN } else { i64::MAX },  // alternating extremes
            6 => i64::MIN,                                      // all MIN
            7 => g[(i as usize * 7) % g.len()],                 // grid walk
            8 => (1i64 << 31) - 2 + i,                          // straddles 2^31
            // (coverage audit, appended) small magnitudes of alternating sign around the 1/2-byte zigzag boundary (+-64)
            9 => if i % 2 == 0 { 60 + (i % 9) } else { -(60 + (i % 9)) },
            _ => -5 + (i % 300),                                // sorted runs through 0 (|v| < 256 and >= 256)
        })
        .collect()
}
pub const N_SHAPES_I: usize = 11;

/// all sequences of length ≤ 3 over the 12-value subset, then the shaped ones
pub fn seqs_u64(tier: Tier, f: &mut dyn FnMut(Vec<u64>) -> bool) -> bool {
    if !zverif::util::all_strings(&S12U, 3, &mut |s| f(s.to_vec())) {
        return false;
    }
    for shape in 0..N_SHAPES_U {
        for &n in SHAPED_LENS_QUICK.iter().chain(SHAPED_LENS_MORE.iter()).chain(SHAPED_LENS_COUNT.iter()) {
            if n < 4 && shape == 6 {
                continue; // already in the small scope
            }
            if n > 1000 && shape != 0 && shape != 9 {
                continue; // the 3-byte element count: two shapes of small values are enough
            }
            if !f(shaped_u64(shape, n)) {
                return false;
            }
        }
    }
    let _ = tier;
    true
}

pub fn seqs_i64(tier: Tier, f: &mut dyn FnMut(Vec<i64>) -> bool) -> bool {
    if !zverif::util::all_strings(&S12I, 3, &mut |s| f(s.to_vec())) {
        return false;
    }
    for shape in 0..N_SHAPES_I {
        for &n in SHAPED_LENS_QUICK.iter().chain(SHAPED_LENS_MORE.iter()).chain(SHAPED_LENS_COUNT.iter()) {
            if n > 1000 && shape != 0 && shape != 9 {
                continue;
            }
            if !f(shaped_i64(shape, n)) {
                return false;
            }
        }
    }
    let _ = tier;
    true
}

/// reference LEB128
pub fn ref_leb(mut v: u64) -> Vec<u8> {
    let mut out = Vec::new();
    loop {
        let b = (v & 0x7f) as u8;
        v >>= 7;
        if v == 0 {
            out.push(b);
            return out;
        }
        out.push(b | 0x80);
    }
}

/// string/byte-array lengths of DESIGN §7 C13
pub const BLOB_LENS: [usize; 6] = [0, 1, 127, 128, 16383, 16384];
/// lengths around the 64 KiB chunk of `DataInput::read_vec` (a threshold visible in the code) and the next LEB128 boundary;
/// kept apart from BLOB_LENS so that indices recorded in witnesses stay stable
pub const BIG_BLOB_LENS_QUICK: [usize; 4] = [65535, 65536, 65537, 131073];
pub const BIG_BLOB_LENS_THOROUGH: [usize; 8] = [65535, 65536, 65537, 131071, 131072, 131073, 2097151, 2097153];

pub fn blob(len: usize, kind: u8) -> Vec<u8> {
    match kind {
        0 => vec![0u8; len],
        1 => vec![0xFFu8; len],
        _ => (0..len).map(|i| (i % 251) as u8).collect(),
    }
}

/// a valid UTF-8 string of exactly `len` bytes; kind 0 = ASCII, kind 1 = two-byte chars (+ one ASCII if odd)
pub fn text(len: usize, kind: u8) -> String {
    match kind {
        0 => (0..len).map(|i| (b'a' + (i % 26) as u8) as char).collect(),
        _ => {
            let mut s = String::with_capacity(len);
            if len % 2 == 1 {
                s.push('x');
            }
            for _ in 0..len / 2 {
                s.push('é');
            }
            debug_assert_eq!(s.len(), len);
            s
        }
    }
}

fn main() {
    zverif::main_with("C13", |reg, _tier| {
        varint::register(reg);
        dataio::register(reg);
        ser::register(reg);
        streams::register(reg);
    });
}
