//! C11 — sorts, merges and set operations produce the mathematically defined result (engine E2).
//!
//! Every subject is an `EnumSpec` built from two closures (`gen` enumerates the stated space in a fixed
//! order, `run` executes the real zipora code on one case and judges it with a reference function):
//! `slice::sort` on a copy for sorts, the sorted concatenation for merges, and definitional
//! (non two-pointer) set-operation references for `set_ops` / `SetOperations`.
//!
//! Two case families used to kill the process (see notes/C11.md); both defects are repaired in zipora (ae3b25e, e193009):
//!  * `RadixSort::sort_u32` counting-sort path with huge keys (allocated `max_key+1` counters = up to 32 GiB): the
//!    counting threshold is still only combined with keys <= 2^24, a regression would be too expensive to run;
//!  * `CacheObliviousSort` funnel recursion reaching width 1 above `small_threshold` (unbounded recursion, stack overflow):
//!    these cases are explored since the coverage audit (class `funnel-width1-node`); a regression shows up as a worker crash.
//!    `c11 --crash-witness funnel|funnel-default|counting` runs the former witnesses outside the explorer.

use serde::{de::DeserializeOwned, Deserialize, Serialize};
use std::cmp::Ordering;
use std::fmt::Debug;
use std::hash::Hash;
use zverif::enumr::{self, Enum, EnumSpec};
use zverif::util::{all_strings, hex, unhex};
use zverif::{Outcome, Registry, Tier};

use zipora::algorithms::cache_oblivious::{CacheObliviousConfig, CacheObliviousSort};
use zipora::algorithms::external_sort::{ExternalSort, ReplaceSelectSort, ReplaceSelectSortConfig};
use zipora::algorithms::multiway_merge::{MergeOperations, MultiWayMerge, MultiWayMergeConfig, VectorSource};
use zipora::algorithms::radix_sort::{
    AdvancedRadixSort, AdvancedRadixSortConfig, CpuFeatures as RadixCpu, KeyValueRadixSort, RadixSort, RadixSortConfig, RadixSortable,
    RadixString, SortingStrategy,
};
use zipora::algorithms::set_operations::{SetOperations, SetOperationsConfig};
use zipora::algorithms::set_ops;
use zipora::algorithms::simd_merge::{SimdComparator, SimdConfig, SimdOperations};
use zipora::algorithms::tournament_tree::{EnhancedLoserTree, LoserTreeConfig};
use zipora::memory::cache_layout::CacheHierarchy;

// ------------------------------------------------------------------------------------------------
// generic closure-based spec

type Gen<C> = Box<dyn Fn(Tier, &mut dyn FnMut(C) -> bool) -> bool>;

struct Spec<C> {
    name: String,
    space: String,
    gen: Gen<C>,
    run: Box<dyn Fn(&C) -> Outcome>,
}

impl<C: Serialize + DeserializeOwned + Hash + Clone> EnumSpec for Spec<C> {
    type Case = C;
    fn name(&self) -> String {
        self.name.clone()
    }
    fn space(&self, tier: Tier) -> String {
        format!("[{}] {}", tier.name(), self.space)
    }
    fn cases(&self, tier: Tier, f: &mut dyn FnMut(C) -> bool) {
        (self.gen)(tier, f);
    }
    fn run(&self, c: &C) -> Outcome {
        (self.run)(c)
    }
}

fn add<C: Serialize + DeserializeOwned + Hash + Clone + 'static>(
    reg: &mut Registry,
    name: &str,
    space: &str,
    gen: impl Fn(Tier, &mut dyn FnMut(C) -> bool) -> bool + 'static,
    run: impl Fn(&C) -> Outcome + 'static,
) {
    reg.add(Enum(Spec { name: name.to_string(), space: space.to_string(), gen: Box::new(gen), run: Box::new(run) }));
}

// ------------------------------------------------------------------------------------------------
// integer inputs

#[derive(Clone, Copy, Debug, PartialEq, Eq, Hash, Serialize, Deserialize)]
enum KShape {
    /// 3*i
    Sorted,
    /// 3*(n-i)
    Reversed,
    /// 7 everywhere
    AllEqual,
    /// ((37 i + 11) mod 256) << (bits-8): keys that differ only in the highest byte
    HighByteOnly,
    /// 0,1,..,n/2,..,1,0
    OrganPipe,
    /// i * floor((2^bits-1)/n): sorted, every digit position in use
    WideSorted,
    /// the reverse of WideSorted
    WideReversed,
    /// (i+1) * 0x9E3779B97F4A7C15 truncated to the key width: every digit of every key scrambled, (almost) no duplicates
    Scrambled,
    /// the same multiplicative hash of i mod 7: seven distinct wide keys, many duplicates, scrambled order
    ScrambledFew,
    /// (7919 i) mod 100003: scrambled keys below 2^17 -- too wide for the counting path of any n <= 1000, narrow enough to
    /// be harmless if a regression took that path anyway (not part of the general grid)
    ScrambledMid,
}

const NARROW_SHAPES: &[KShape] = &[KShape::Sorted, KShape::Reversed, KShape::AllEqual, KShape::OrganPipe];
const ALL_KSHAPES: &[KShape] =
    &[KShape::Sorted, KShape::Reversed, KShape::AllEqual, KShape::HighByteOnly, KShape::OrganPipe, KShape::WideSorted, KShape::WideReversed, KShape::Scrambled, KShape::ScrambledFew];

#[derive(Clone, Debug, PartialEq, Eq, Hash, Serialize, Deserialize)]
enum Keys {
    Seq(Vec<u64>),
    Grid { shape: KShape, n: u32 },
}

fn trunc(v: u64, bits: u32) -> u64 {
    if bits >= 64 {
        v
    } else {
        v & ((1u64 << bits) - 1)
    }
}

impl Keys {
    fn expand(&self, bits: u32) -> Vec<u64> {
        match self {
            Keys::Seq(v) => v.iter().map(|&x| trunc(x, bits)).collect(),
            Keys::Grid { shape, n } => {
                let n = *n as usize;
                let maxv = trunc(u64::MAX, bits);
                let step = maxv / (n.max(1) as u64);
                (0..n)
                    .map(|i| match shape {
                        KShape::Sorted => 3 * i as u64,
                        KShape::Reversed => 3 * (n - i) as u64,
                        KShape::AllEqual => 7,
                        KShape::HighByteOnly => (((i * 37 + 11) % 256) as u64) << (bits - 8),
                        KShape::OrganPipe => (if i < n / 2 { i } else { n - 1 - i }) as u64,
                        KShape::WideSorted => step * i as u64,
                        KShape::WideReversed => step * (n - 1 - i) as u64,
                        KShape::Scrambled => trunc((i as u64 + 1).wrapping_mul(0x9E37_79B9_7F4A_7C15), bits),
                        KShape::ScrambledFew => trunc(((i % 7) as u64 + 1).wrapping_mul(0x9E37_79B9_7F4A_7C15), bits),
                        KShape::ScrambledMid => (i as u64 * 7919) % 100_003,
                    })
                    .collect()
            }
        }
    }
}

const HIGH64: &[u64] = &[0, 1, 255, 256, 65535, 65536, 1 << 24, 1 << 31, (1 << 32) - 1, 1 << 32, 1 << 56, 1 << 63, u64::MAX];

fn high_alphabet(bits: u32, cap: u64) -> Vec<u64> {
    let mut v: Vec<u64> = Vec::new();
    for &x in HIGH64 {
        let t = trunc(x, bits);
        if t <= cap && !v.contains(&t) {
            v.push(t);
        }
    }
    v
}

/// lengths straddling: insertion/counting thresholds 2,4,100,256; parallel thresholds 1,4,16 (x2: 2,8,32);
/// SIMD block sizes 8/16; rayon chunking with 3/4 workers
const GLEN: &[usize] = &[0, 1, 2, 3, 4, 5, 7, 8, 9, 15, 16, 17, 31, 32, 33, 63, 64, 65, 99, 100, 101, 255, 256, 257, 1000];

/// S ∪ G for integer sorts.  `cap` bounds the key values (u64::MAX = no cap), `max_n` bounds grid lengths.
fn int_inputs(tier: Tier, bits: u32, cap: u64, max_n: usize, f: &mut dyn FnMut(Keys) -> bool) -> bool {
    let small_len = tier.pick(7, 9);
    if !all_strings(&[0u64, 1, 2], small_len, &mut |s| f(Keys::Seq(s.to_vec()))) {
        return false;
    }
    let high = high_alphabet(bits, cap);
    // length-0 and the pure {0,1} sequences were already produced above: skip exact repeats
    if !all_strings(&high, 3, &mut |s| if s.iter().all(|&x| x <= 2) { true } else { f(Keys::Seq(s.to_vec())) }) {
        return false;
    }
    for &n in GLEN {
        if n > max_n {
            continue;
        }
        for &shape in ALL_KSHAPES {
            let k = Keys::Grid { shape, n: n as u32 };
            if cap != u64::MAX && k.expand(bits).iter().any(|&x| x > cap) {
                continue;
            }
            if !f(k) {
                return false;
            }
        }
    }
    true
}

const INT_SPACE: &str = "S = all sequences over {0,1,2} of length <= 7 (quick) / <= 9 (thorough) ∪ all sequences of length <= 3 over \
{0,1,255,256,65535,65536,2^24,2^31,2^32-1,2^32,2^56,2^63,MAX} truncated to the key type; G = lengths \
{0,1,2,3,4,5,7,8,9,15,16,17,31,32,33,63,64,65,99,100,101,255,256,257,1000} x {sorted, reversed, all equal, high-byte-only, organ pipe, wide sorted, wide reversed, scrambled (multiplicative hash of i), scrambled with 7 distinct keys}";

fn brief_vec<T: Debug>(v: &[T]) -> String {
    if v.len() <= 20 {
        format!("{:?}", v)
    } else {
        format!("[len {}] {:?}..{:?}", v.len(), &v[..10], &v[v.len() - 4..])
    }
}

/// The sort oracle: `out` must equal `input` sorted.  Returns (symptom, detail).
fn judge_sorted<T: Ord + Clone + Debug>(input: &[T], out: &[T]) -> Option<(&'static str, String)> {
    let mut exp = input.to_vec();
    exp.sort();
    if out == &exp[..] {
        return None;
    }
    let sym = if out.len() != exp.len() {
        "len_changed"
    } else {
        let mut o = out.to_vec();
        o.sort();
        if o != exp {
            "not_permutation"
        } else {
            "not_sorted"
        }
    };
    Some((sym, format!("input {} -> got {}, expected {}", brief_vec(input), brief_vec(out), brief_vec(&exp))))
}

fn key_class(keys: &[u64]) -> &'static str {
    match keys.iter().copied().max().unwrap_or(0) {
        0..=0xFF => "k8",
        0x100..=0xFFFF => "k16",
        0x1_0000..=0xFFFF_FFFF => "k32",
        _ => "k64",
    }
}

fn len_class(n: usize) -> &'static str {
    if n < 16 {
        "n<16"
    } else {
        "n>=16"
    }
}

// ------------------------------------------------------------------------------------------------
// RadixSort::{sort_u32, sort_u64}

#[derive(Clone, Debug, Hash, Serialize, Deserialize)]
struct RadixCase {
    keys: Keys,
    /// radix_bits
    bits: u8,
    /// 0 = use_parallel false; otherwise parallel_threshold
    par: u32,
    /// use_counting_sort_threshold (u32 only)
    count_thr: u32,
}

/// above this key the counting-sort path (one counter per key value) is left out: it allocates 8*(max+1) bytes
const COUNTING_KEY_CAP: u64 = 1 << 16;

fn radix_cfg(c: &RadixCase) -> RadixSortConfig {
    RadixSortConfig {
        use_parallel: c.par > 0,
        parallel_threshold: if c.par > 0 { c.par as usize } else { 10_000 },
        radix_bits: c.bits as usize,
        use_counting_sort_threshold: c.count_thr as usize,
        use_simd: true,
    }
}

fn radix_path(c: &RadixCase, n: usize, maxk: u64, with_counting: bool) -> String {
    if n == 0 {
        return "empty".into();
    }
    let thr = c.par as usize;
    let base = if c.par > 0 && n >= thr {
        if n < 2 * thr {
            "par-fallback-seq"
        } else {
            "par-merge"
        }
    } else {
        "seq"
    };
    // sort_u32_sequential: counting sort iff len <= threshold AND max key <= 4 * max(len, 256) (otherwise the LSD passes);
    // in "par-merge" the same decision is taken per chunk of ceil(n / workers) items ("+counting" = enabled at all)
    let counting = with_counting
        && c.count_thr > 0
        && (base == "par-merge" || (n <= c.count_thr as usize && maxk <= 4 * (n.max(256) as u64)));
    let refused = with_counting && c.count_thr > 0 && base != "par-merge" && n <= c.count_thr as usize && !counting;
    format!("{}{}/bits{}", base, if counting { "+counting" } else if refused { "+counting-range-too-wide" } else { "" }, c.bits)
}

fn radix_gen(wide: bool) -> impl Fn(Tier, &mut dyn FnMut(RadixCase) -> bool) -> bool {
    move |tier, f| {
        let bits_grid: &[u8] = &[1, 4, 8, 11, 16];
        let par_grid: &[u32] = &[0, 1, 4, 16];
        let count_grid: &[u32] = if wide { &[0] } else { &[0, 4, 256] };
        for &bits in bits_grid {
            for &par in par_grid {
                for &count_thr in count_grid {
                    let cap = if count_thr > 0 { COUNTING_KEY_CAP } else { u64::MAX };
                    let kb = if wide { 64 } else { 32 };
                    // 16-bit radix: 65536 counters are refilled per pass and per chunk; keep those grids shorter
                    let max_n = if bits == 16 && par > 0 { 257 } else { 1000 };
                    if !int_inputs(tier, kb, cap, max_n, &mut |keys| f(RadixCase { keys, bits, par, count_thr })) {
                        return false;
                    }
                }
            }
        }
        // radix widths that divide neither 32 nor 64 and are no multiple of a byte: 3 (22 passes for u64, the last one over a
        // single bit) and 13 (5 passes for u64, 3 for u32)
        for bits in [3u8, 13] {
            for par in [0u32, 4] {
                let kb = if wide { 64 } else { 32 };
                if !int_inputs(tier, kb, u64::MAX, 1000, &mut |keys| f(RadixCase { keys, bits, par, count_thr: 0 })) {
                    return false;
                }
            }
        }
        // three explicit counting-sort cases with a 2^24 key (128 MiB of counters each)
        if !wide {
            for seq in [vec![1u64 << 24], vec![1 << 24, 0], vec![1, 1 << 24, 1 << 24]] {
                if !f(RadixCase { keys: Keys::Seq(seq), bits: 8, par: 0, count_thr: 256 }) {
                    return false;
                }
            }
            // the counting path is taken only while max key <= 4 * max(len, 256): keys just below / at / above that bound
            // (1024 for short inputs) and far above it, with the counting threshold below / at / above the length;
            // and a counting threshold of 1000 so that the long grid inputs take (narrow keys) or refuse (wide keys) it
            for par in [0u32, 16] {
                for count_thr in [1u32, 2, 4, 256, 1000] {
                    for m in [1023u64, 1024, 1025, 4000, 65_537, 1 << 20] {
                        for seq in [vec![m, 0], vec![3, m, m, 1], vec![m]] {
                            if !f(RadixCase { keys: Keys::Seq(seq), bits: 8, par, count_thr }) {
                                return false;
                            }
                        }
                    }
                }
                for (shape, n) in [
                    (KShape::Sorted, 256u32),
                    (KShape::Sorted, 257),
                    (KShape::Sorted, 342),
                    (KShape::Sorted, 343),
                    (KShape::Sorted, 1000),
                    (KShape::Reversed, 1000),
                    (KShape::OrganPipe, 1000),
                    (KShape::ScrambledMid, 1000),
                    (KShape::ScrambledMid, 999),
                    (KShape::ScrambledMid, 1001),
                    (KShape::ScrambledMid, 300),
                ] {
                    for bits in [8u8, 11] {
                        if !f(RadixCase { keys: Keys::Grid { shape, n }, bits, par, count_thr: 1000 }) {
                            return false;
                        }
                    }
                }
            }
        }
        true
    }
}

fn run_radix_u32(c: &RadixCase) -> Outcome {
    let keys = c.keys.expand(32);
    let maxk = keys.iter().copied().max().unwrap_or(0);
    if c.count_thr > 0 && maxk > (1 << 24) {
        return Outcome::skip("left out: counting-sort path with key > 2^24 (allocates 8*(max+1) bytes)");
    }
    let input: Vec<u32> = keys.iter().map(|&k| k as u32).collect();
    let mut data = input.clone();
    let mut sorter = RadixSort::with_config(radix_cfg(c));
    let path = radix_path(c, input.len(), maxk, true);
    match sorter.sort_u32(&mut data) {
        Err(e) => enumr::fail("sort_err", path, format!("sort_u32 returned Err({e}) on {}", brief_vec(&input))),
        Ok(()) => match judge_sorted(&input, &data) {
            Some((sym, d)) => enumr::fail("sorted_permutation", format!("{sym}/{path}/{}", key_class(&keys)), d),
            None if input.len() < 2 => Outcome::trivial(&path),
            None => Outcome::pass(&path),
        },
    }
}

fn run_radix_u64(c: &RadixCase) -> Outcome {
    let input = c.keys.expand(64);
    let mut data = input.clone();
    let mut sorter = RadixSort::with_config(radix_cfg(c));
    let path = radix_path(c, input.len(), 0, false);
    match sorter.sort_u64(&mut data) {
        Err(e) => enumr::fail("sort_err", path, format!("sort_u64 returned Err({e}) on {}", brief_vec(&input))),
        Ok(()) => match judge_sorted(&input, &data) {
            Some((sym, d)) => enumr::fail("sorted_permutation", format!("{sym}/{path}/{}", key_class(&input)), d),
            None if input.len() < 2 => Outcome::trivial(&path),
            None => Outcome::pass(&path),
        },
    }
}

// ------------------------------------------------------------------------------------------------
// byte-string inputs

#[derive(Clone, Copy, Debug, PartialEq, Eq, Hash, Serialize, Deserialize)]
enum SShape {
    /// "k" + 3 decimal digits of i (sorted)
    Sorted,
    Reversed,
    /// "abc" n times
    AllEqual,
    /// 12 equal bytes, then the scrambled counter: strings that differ only after the 8th byte
    LongCommonPrefix,
    OrganPipe,
    /// "", "a", "aa", ... presented longest first: every string is a prefix of the previous one
    PrefixChain,
    /// one byte (37 i + 11) mod 256 followed by 0xFF: differs in the first byte only, includes 0x00 and 0xFF
    FirstByte,
    /// 70 equal bytes, then the scrambled counter: the MSD recursion passes depth 64 (AdvancedRadixSort switches to
    /// insertion sort at depth > 64) before the strings differ
    Prefix70,
    /// 62 + (i mod 5) equal bytes 'p', then the scrambled counter: groups whose common prefix ends at 62..66 bytes
    DeepPrefix,
}

const ALL_SSHAPES: &[SShape] =
    &[SShape::Sorted, SShape::Reversed, SShape::AllEqual, SShape::LongCommonPrefix, SShape::OrganPipe, SShape::PrefixChain, SShape::FirstByte, SShape::Prefix70, SShape::DeepPrefix];

#[derive(Clone, Debug, PartialEq, Eq, Hash, Serialize, Deserialize)]
enum Strs {
    /// hex strings
    List(Vec<String>),
    Grid { shape: SShape, n: u32 },
}

impl Strs {
    fn expand(&self) -> Vec<Vec<u8>> {
        match self {
            Strs::List(v) => v.iter().map(|h| unhex(h).unwrap_or_default()).collect(),
            Strs::Grid { shape, n } => {
                let n = *n as usize;
                let num = |i: usize| format!("k{:03}", i).into_bytes();
                (0..n)
                    .map(|i| match shape {
                        SShape::Sorted => num(i),
                        SShape::Reversed => num(n - i),
                        SShape::AllEqual => b"abc".to_vec(),
                        SShape::LongCommonPrefix => {
                            let mut s = b"commonprefix".to_vec();
                            s.extend_from_slice(&num((i * 37 + 11) % 1000));
                            s
                        }
                        SShape::OrganPipe => num(if i < n / 2 { i } else { n - 1 - i }),
                        SShape::PrefixChain => vec![b'a'; (n - 1 - i).min(40)],
                        SShape::FirstByte => vec![((i * 37 + 11) % 256) as u8, 0xFF],
                        SShape::Prefix70 => {
                            let mut s = vec![b'p'; 70];
                            s.extend_from_slice(&num((i * 37 + 11) % 1000));
                            s
                        }
                        SShape::DeepPrefix => {
                            let mut s = vec![b'p'; 62 + i % 5];
                            s.extend_from_slice(&num((i * 37 + 11) % 1000));
                            s
                        }
                    })
                    .collect()
            }
        }
    }
}

const STR_ALPHABET: &[&[u8]] = &[b"", b"a", b"ab", b"b", b"a\0", b"\xff", b"a\0b", b"\0"];
const SLEN: &[usize] = &[0, 1, 2, 3, 4, 5, 8, 9, 16, 17, 33, 100, 101, 257];

fn str_inputs(tier: Tier, f: &mut dyn FnMut(Strs) -> bool) -> bool {
    let alpha: Vec<String> = STR_ALPHABET.iter().map(|s| hex(s)).collect();
    if !all_strings(&alpha, tier.pick(4, 5), &mut |s| f(Strs::List(s.to_vec()))) {
        return false;
    }
    for &n in SLEN {
        for &shape in ALL_SSHAPES {
            if !f(Strs::Grid { shape, n: n as u32 }) {
                return false;
            }
        }
    }
    true
}

/// sort_bytes only: additionally every list of <= 2 (quick) / <= 3 (thorough) strings drawn from ALL 40 byte strings of
/// length <= 3 over {00, 61, ff} (two strings that agree up to and including a 0x00 / 0xff byte and differ after it)
fn str_inputs_dense(tier: Tier, f: &mut dyn FnMut(Strs) -> bool) -> bool {
    if !str_inputs(tier, f) {
        return false;
    }
    let mut alpha: Vec<Vec<u8>> = vec![vec![]];
    let mut level: Vec<Vec<u8>> = vec![vec![]];
    for _ in 0..3 {
        let mut next = Vec::new();
        for s in &level {
            for b in [0x00u8, 0x61, 0xff] {
                let mut t = s.clone();
                t.push(b);
                next.push(t);
            }
        }
        alpha.extend(next.iter().cloned());
        level = next;
    }
    let alpha: Vec<String> = alpha.iter().map(|s| hex(s)).collect();
    all_strings(&alpha, tier.pick(2, 3), &mut |s| f(Strs::List(s.to_vec())))
}
const STR_SPACE_DENSE: &str = "as S/G below, plus every list of <= 2 (quick) / <= 3 (thorough) strings from all 40 byte strings of length <= 3 over {00,61,ff}; ";

const STR_SPACE: &str = "S = all lists of <= 4 (quick) / <= 5 (thorough) strings over {\"\", a, ab, b, a\\0, \\xff, a\\0b, \\0}; G = list lengths \
{0,1,2,3,4,5,8,9,16,17,33,100,101,257} x {sorted, reversed, all equal, common 12-byte prefix, organ pipe, prefix chain, first-byte-only, common 70-byte prefix, common prefixes of 62..66 bytes}";

fn brief_strs(v: &[Vec<u8>]) -> String {
    let show: Vec<String> = v.iter().take(8).map(|s| hex(s)).collect();
    format!("[{}]{:?}{}", v.len(), show, if v.len() > 8 { ".." } else { "" })
}

fn run_sort_bytes(c: &Strs) -> Outcome {
    let input = c.expand();
    let mut data = input.clone();
    let mut sorter = RadixSort::new();
    match sorter.sort_bytes(&mut data) {
        Err(e) => enumr::fail("sort_err", "sort_bytes", format!("sort_bytes returned Err({e}) on {}", brief_strs(&input))),
        Ok(()) => match judge_sorted(&input, &data) {
            Some((sym, _)) => {
                let mut exp = input.clone();
                exp.sort();
                enumr::fail(
                    "sorted_permutation",
                    format!("{sym}/msd"),
                    format!("input {} -> got {}, expected {}", brief_strs(&input), brief_strs(&data), brief_strs(&exp)),
                )
            }
            None if input.len() < 2 => Outcome::trivial("msd/short"),
            None => Outcome::pass(if input.iter().any(|s| s.is_empty()) { "msd/with-empty-string" } else { "msd" }),
        },
    }
}

// ------------------------------------------------------------------------------------------------
// KeyValueRadixSort::sort_by_key

/// Oracle: the output is sorted by key and is a permutation of the input *pairs* (value = original index,
/// so every pair is unique and "each key keeps its value" is exactly multiset equality of pairs).
fn run_kv<K>(keys: &Keys, bits: u32, conv: impl Fn(u64) -> K) -> Outcome
where
    K: Copy + Into<u64> + Debug,
{
    let ks = keys.expand(bits);
    let input: Vec<(K, u32)> = ks.iter().enumerate().map(|(i, &k)| (conv(k), i as u32)).collect();
    let mut data = input.clone();
    let sorter = KeyValueRadixSort::<K, u32>::new();
    let mut distinct = ks.clone();
    distinct.sort();
    distinct.dedup();
    let dup = if distinct.len() < ks.len() { "dup_keys" } else { "unique_keys" };
    let show = |v: &[(K, u32)]| brief_vec(&v.iter().map(|(k, x)| ((*k).into(), *x)).collect::<Vec<(u64, u32)>>());
    match sorter.sort_by_key(&mut data) {
        Err(e) => enumr::fail("sort_err", dup, format!("sort_by_key returned Err({e}) on {}", show(&input))),
        Ok(()) => {
            let out: Vec<(u64, u32)> = data.iter().map(|(k, v)| ((*k).into(), *v)).collect();
            let inp: Vec<(u64, u32)> = input.iter().map(|(k, v)| ((*k).into(), *v)).collect();
            let mut so = out.clone();
            so.sort();
            let mut si = inp.clone();
            si.sort();
            let sorted_by_key = out.windows(2).all(|w| w[0].0 <= w[1].0);
            if so != si {
                let mut ko: Vec<u64> = out.iter().map(|p| p.0).collect();
                ko.sort();
                let mut ki: Vec<u64> = inp.iter().map(|p| p.0).collect();
                ki.sort();
                let sym = if ko == ki { "value_lost" } else { "keys_changed" };
                return enumr::fail(
                    "kv_pairing",
                    format!("{sym}/{dup}"),
                    format!("pairs (key, original index): input {} -> got {}", show(&input), show(&data)),
                );
            }
            if !sorted_by_key {
                return enumr::fail("sorted_permutation", format!("not_sorted/{dup}"), format!("input {} -> got {}", show(&input), show(&data)));
            }
            if input.len() < 2 {
                Outcome::trivial("kv/short")
            } else {
                Outcome::pass(&format!("kv/{dup}"))
            }
        }
    }
}

#[derive(Clone, Debug, Hash, Serialize, Deserialize)]
struct KvCase {
    /// key type: 32 = u32, 64 = u64
    key_bits: u8,
    keys: Keys,
}

fn kv_gen(tier: Tier, f: &mut dyn FnMut(KvCase) -> bool) -> bool {
    for key_bits in [32u8, 64] {
        if !int_inputs(tier, key_bits as u32, u64::MAX, 1000, &mut |keys| f(KvCase { key_bits, keys })) {
            return false;
        }
        // default config: sort_u64 becomes parallel at 10_000 and really splits at 20_000 (O(n^2) rearrangement: thorough only)
        if tier == Tier::Thorough {
            for shape in [KShape::WideReversed, KShape::HighByteOnly] {
                if !f(KvCase { key_bits, keys: Keys::Grid { shape, n: 20_001 } }) {
                    return false;
                }
            }
        }
    }
    true
}

fn run_kv_case(c: &KvCase) -> Outcome {
    if c.key_bits == 32 {
        run_kv(&c.keys, 32, |v| v as u32)
    } else {
        run_kv(&c.keys, 64, |v| v)
    }
}

// ------------------------------------------------------------------------------------------------
// AdvancedRadixSort<u32|u64|RadixString> with every forced strategy

#[derive(Clone, Copy, Debug, PartialEq, Eq)]
enum Strat {
    Forced(SortingStrategy),
    /// force_strategy None, adaptive_strategy true
    Auto,
    /// force_strategy None, adaptive_strategy false
    NonAdaptive,
}

impl Strat {
    fn label(self) -> &'static str {
        match self {
            Strat::Forced(SortingStrategy::Insertion) => "Insertion",
            Strat::Forced(SortingStrategy::TimSort) => "TimSort",
            Strat::Forced(SortingStrategy::LsdRadix) => "LsdRadix",
            Strat::Forced(SortingStrategy::MsdRadix) => "MsdRadix",
            Strat::Forced(SortingStrategy::Adaptive) => "Adaptive",
            Strat::Auto => "auto",
            Strat::NonAdaptive => "non-adaptive",
        }
    }
}

const ALL_STRATS: &[Strat] = &[
    Strat::Forced(SortingStrategy::Insertion),
    Strat::Forced(SortingStrategy::TimSort),
    Strat::Forced(SortingStrategy::LsdRadix),
    Strat::Forced(SortingStrategy::MsdRadix),
    Strat::Forced(SortingStrategy::Adaptive),
    Strat::Auto,
    Strat::NonAdaptive,
];

/// configuration grid point of AdvancedRadixSortConfig (the strategy is part of the subject)
#[derive(Clone, Copy, Debug, Hash, Serialize, Deserialize)]
struct AdvCfg {
    bits: u8,
    /// 0 = use_parallel false; otherwise parallel_threshold
    par: u32,
    /// insertion_sort_threshold
    ins_thr: u32,
    simd: bool,
    /// num_threads (0 = rayon's)
    threads: u8,
    secure: bool,
}

#[derive(Clone, Debug, Hash, Serialize, Deserialize)]
enum AdvInput {
    U32(Keys),
    U64(Keys),
    Str(Strs),
}

#[derive(Clone, Debug, Hash, Serialize, Deserialize)]
struct AdvCase {
    input: AdvInput,
    cfg: AdvCfg,
}

fn adv_config(strat: Strat, c: &AdvCfg) -> AdvancedRadixSortConfig {
    AdvancedRadixSortConfig {
        use_secure_memory: c.secure,
        adaptive_strategy: strat != Strat::NonAdaptive,
        force_strategy: match strat {
            Strat::Forced(s) => Some(s),
            _ => None,
        },
        use_parallel: c.par > 0,
        parallel_threshold: if c.par > 0 { c.par as usize } else { 10_000 },
        num_threads: c.threads as usize,
        radix_bits: c.bits as usize,
        insertion_sort_threshold: c.ins_thr as usize,
        use_simd: c.simd,
        ..AdvancedRadixSortConfig::default()
    }
}

/// the configuration dimensions that matter for a strategy (others stay at one value)
fn adv_cfgs(strat: Strat) -> Vec<AdvCfg> {
    let base = AdvCfg { bits: 8, par: 0, ins_thr: 100, simd: true, threads: 0, secure: false };
    let mut v = Vec::new();
    match strat {
        Strat::Forced(SortingStrategy::LsdRadix) => {
            for bits in [1u8, 4, 8, 11, 16] {
                for par in [0u32, 1, 4, 16] {
                    for simd in [true, false] {
                        v.push(AdvCfg { bits, par, simd, ..base });
                    }
                }
            }
            v.push(AdvCfg { par: 4, threads: 3, ..base });
            v.push(AdvCfg { par: 4, secure: true, ..base });
            // num_threads 1 (one chunk), 7 (chunks of ceil(n/7)), 64 (more threads than items: chunks of one item)
            v.push(AdvCfg { par: 1, threads: 1, ..base });
            v.push(AdvCfg { par: 1, threads: 7, ..base });
            v.push(AdvCfg { par: 4, threads: 64, ..base });
        }
        // same code path as forced LsdRadix: a few configurations only
        Strat::NonAdaptive => {
            v.push(base);
            v.push(AdvCfg { par: 4, ..base });
            v.push(AdvCfg { simd: false, bits: 11, ..base });
        }
        Strat::Forced(SortingStrategy::MsdRadix) => {
            for ins_thr in [0u32, 2, 100] {
                v.push(AdvCfg { ins_thr, ..base });
            }
        }
        Strat::Auto => {
            for ins_thr in [0u32, 2, 100] {
                for par in [0u32, 4] {
                    for simd in [true, false] {
                        v.push(AdvCfg { ins_thr, par, simd, ..base });
                    }
                }
            }
        }
        _ => {
            v.push(base);
            v.push(AdvCfg { secure: true, ..base });
        }
    }
    v
}

/// Which code path a case takes: (coarse path used in failure classes, detailed path used as pass class).
/// `keys` are the `extract_key` values of the input in input order (needed to replicate `is_nearly_sorted`).
fn adv_path(strat: Strat, c: &AdvCfg, keys: &[u64]) -> (String, String) {
    let n = keys.len();
    let simd_count = c.simd && RadixCpu::detect().has_advanced_simd() && n >= 16;
    let lsd = || {
        let thr = c.par as usize;
        let base = if c.par > 0 && n >= thr {
            if n < 2 * thr {
                "par-fallback-seq"
            } else {
                "par"
            }
        } else {
            "seq"
        };
        // in "par" the chunks (ceil(n/workers) items) are what is counted with SIMD; "+simdcount" means n >= 16 overall
        let coarse = if simd_count { "lsd+simdcount" } else { "lsd" };
        (coarse.to_string(), format!("{coarse}/{base}/bits{}", c.bits))
    };
    let same = |s: &str| (s.to_string(), s.to_string());
    match strat {
        Strat::Forced(SortingStrategy::Insertion) => same("insertion"),
        Strat::Forced(SortingStrategy::TimSort) => same("timsort"),
        Strat::Forced(SortingStrategy::LsdRadix) | Strat::NonAdaptive => lsd(),
        Strat::Forced(SortingStrategy::MsdRadix) => ("msd".to_string(), format!("msd/ins{}", c.ins_thr)),
        Strat::Forced(SortingStrategy::Adaptive) => same("forced-adaptive"),
        Strat::Auto => {
            if n <= c.ins_thr as usize {
                same("insertion")
            } else {
                // AdvancedRadixSort::is_nearly_sorted: inversions among the first min(1000, n) keys < sample/10
                let sample = n.min(1000);
                let inv = (1..sample).filter(|&i| keys[i] < keys[i - 1]).count();
                if n < 2 || inv < sample / 10 {
                    same("timsort")
                } else {
                    lsd()
                }
            }
        }
    }
}

fn key8(s: &[u8]) -> u64 {
    let mut k = 0u64;
    for (i, &b) in s.iter().take(8).enumerate() {
        k |= (b as u64) << (8 * (7 - i));
    }
    k
}

/// Run one AdvancedRadixSort and judge it.  `tie` = two *different* input items have the same `extract_key`
/// (only possible for strings); `show` renders items for the detail text.
fn adv_sort_and_judge<T: RadixSortable + Debug>(strat: Strat, cfg: &AdvCfg, input: Vec<T>, tie: bool, show: &dyn Fn(&[T]) -> String) -> Outcome {
    let keys: Vec<u64> = input.iter().map(|x| x.extract_key()).collect();
    let (coarse, path) = adv_path(strat, cfg, &keys);
    let kc = key_class(&keys);
    let mut data = input.clone();
    let mut sorter = match AdvancedRadixSort::<T>::with_config(adv_config(strat, cfg)) {
        Ok(s) => s,
        Err(e) => return Outcome::skip(&format!("with_config Err: {}", zverif::core::truncate(&e.to_string(), 60))),
    };
    // panics are caught here (not by the engine) so that the class can carry the path and key class: a panic in a
    // rayon worker has no recorded location on this thread
    let res = match zverif::util::catch(|| sorter.sort(&mut data)) {
        Ok(r) => r,
        Err(p) => {
            return enumr::fail(
                "sorted_permutation",
                format!("{coarse}/{kc}"),
                format!("path {path}: PANIC ({}) on input {}", if p.class.is_empty() { "in a rayon worker".to_string() } else { p.detail.clone() }, show(&input)),
            )
        }
    };
    match res {
        Err(e) => {
            let modified = data.iter().map(|x| x.extract_key()).collect::<Vec<u64>>() != keys;
            enumr::fail(
                "sort_err",
                format!("{coarse}{}", if modified { "/data_modified" } else { "" }),
                format!("sort returned Err({e}) on valid input {}", show(&input)),
            )
        }
        Ok(()) => match judge_sorted(&input, &data) {
            Some((sym, _)) => {
                let mut exp = input.clone();
                exp.sort();
                // observable facts for the class: the output is ordered by `extract_key` and only items with equal keys
                // are out of order ("key_tie": the sort compares 8-byte zero-padded prefixes, not the items) -- or not
                let by_key = data.windows(2).all(|w| w[0].extract_key() <= w[1].extract_key());
                let class = if tie && by_key && sym == "not_sorted" { "key8_tie_misordered".to_string() } else { format!("{coarse}/{kc}") };
                enumr::fail("sorted_permutation", class, format!("path {path}: {sym}: input {} -> got {}, expected {}", show(&input), show(&data), show(&exp)))
            }
            None if input.len() < 2 => Outcome::trivial(&path),
            None => Outcome::pass(&path),
        },
    }
}

fn run_adv(strat: Strat, c: &AdvCase) -> Outcome {
    match &c.input {
        AdvInput::U32(k) => {
            let input: Vec<u32> = k.expand(32).iter().map(|&v| v as u32).collect();
            adv_sort_and_judge(strat, &c.cfg, input, false, &|v| brief_vec(v))
        }
        AdvInput::U64(k) => adv_sort_and_judge(strat, &c.cfg, k.expand(64), false, &|v| brief_vec(v)),
        AdvInput::Str(s) => {
            let owned = s.expand();
            let input: Vec<RadixString> = owned.iter().map(|s| RadixString::new(s)).collect();
            let mut d = owned.clone();
            d.sort();
            d.dedup();
            let tie = d.windows(2).any(|w| key8(&w[0]) == key8(&w[1]));
            adv_sort_and_judge(strat, &c.cfg, input, tie, &|v| brief_strs(&v.iter().map(|s| s.as_slice().to_vec()).collect::<Vec<_>>()))
        }
    }
}

fn adv_gen(strat: Strat) -> impl Fn(Tier, &mut dyn FnMut(AdvCase) -> bool) -> bool {
    move |tier, f| {
        for cfg in adv_cfgs(strat) {
            let max_n = if cfg.bits == 16 && cfg.par > 0 { 257 } else { 1000 };
            if !int_inputs(tier, 32, u64::MAX, max_n, &mut |k| f(AdvCase { input: AdvInput::U32(k), cfg })) {
                return false;
            }
            if !int_inputs(tier, 64, u64::MAX, max_n, &mut |k| f(AdvCase { input: AdvInput::U64(k), cfg })) {
                return false;
            }
            // the LSD grid is about integer digits; for strings keep radix_bits 8 and 16 only
            if matches!(strat, Strat::Forced(SortingStrategy::LsdRadix)) && !(cfg.bits == 8 || cfg.bits == 16) {
                continue;
            }
            // the MSD string sort is a separate copy of the one behind RadixSort::sort_bytes: it gets the same dense family
            // (two strings that agree up to and including a 0x00 / 0xff byte and differ after it)
            let strs = if matches!(strat, Strat::Forced(SortingStrategy::MsdRadix)) { str_inputs_dense } else { str_inputs };
            if !strs(tier, &mut |s| f(AdvCase { input: AdvInput::Str(s), cfg })) {
                return false;
            }
        }
        true
    }
}

// ------------------------------------------------------------------------------------------------
// CacheObliviousSort: every strategy / cache path, selected through the cache hierarchy in the config

#[derive(Clone, Copy, Debug, PartialEq, Eq, Hash, Serialize, Deserialize)]
enum CoPath {
    /// strategy CacheAware, l1_optimized_sort (insertion / "simd" insertion)
    L1,
    /// strategy CacheAware with 16-byte items: l2_optimized_sort (quicksort above 16 items)
    L2,
    /// strategy CacheAware with 16-byte items: l3_optimized_sort (merge sort above 32 items)
    L3,
    /// strategy CacheOblivious: funnel sort of width k above small_threshold
    Funnel,
    /// strategy Hybrid with a large L2: cache_aware_sort -> l2_optimized_sort
    HybridAware,
    /// strategy Hybrid with a 64-byte L2: cache_oblivious_sort
    HybridFunnel,
    /// `cache_oblivious_sort` called directly (it is `pub`)
    DirectFunnel,
    /// CacheObliviousConfig::default() (detected hierarchy)
    Default,
    /// as Funnel, with `cpu_features.has_avx2 = has_sse42 = false` in the config (the scalar branches of the merge / copy-back)
    FunnelNoAvx2,
    /// as L1, with `cpu_features.has_avx2 = has_sse42 = false` (plain insertion sort although use_simd is set)
    L1NoAvx2,
}

#[derive(Clone, Debug, Hash, Serialize, Deserialize)]
struct CoCase {
    keys: Keys,
    path: CoPath,
    /// funnel width: l2_size = 64*k*k, l2_line_size = 64
    k: u8,
    small_thr: u32,
    simd: bool,
}

/// Replica of the recursion *shape* of `funnel_sort_recursive` as it was before the width clamp (sizes and widths only):
/// true iff some node is handed width 1 together with more than `thr` items -- the nodes that exercise the clamp
/// `k.max(2).min(n)` (without it the real code recursed on the same slice forever).  Used for outcome classes only.
fn funnel_overflows(n: usize, k: usize, thr: usize) -> bool {
    if n <= thr {
        return false;
    }
    if k <= 1 {
        return true;
    }
    let sq = (k as f64).sqrt() as usize;
    let chunk = n / k;
    let last = n - (k - 1) * chunk;
    (chunk > 0 && funnel_overflows(chunk, sq, thr)) || funnel_overflows(last, sq, thr)
}

fn funnel_width(l2_size: usize, line: usize, n: usize) -> usize {
    let k = ((l2_size / line) as f64).sqrt() as usize;
    k.max(2).min(n.min(64))
}

fn co_config(c: &CoCase, n: usize, item: usize) -> CacheObliviousConfig {
    let big = usize::MAX / 4;
    let kk = 64 * (c.k as usize) * (c.k as usize);
    let mut h = CacheHierarchy::default();
    h.l1_line_size = 64;
    h.l2_line_size = 64;
    h.l3_line_size = 64;
    let (l1, l2, l3) = match c.path {
        CoPath::L1 | CoPath::L1NoAvx2 => (big, big, big),
        CoPath::L2 => (8 * n, big, big),
        CoPath::L3 => (8 * n, 0, big),
        CoPath::Funnel | CoPath::DirectFunnel | CoPath::FunnelNoAvx2 => (0, kk, big),
        CoPath::HybridAware => (0, big, 0),
        CoPath::HybridFunnel => (0, 64, 0),
        CoPath::Default => (0, 0, 0),
    };
    let _ = item;
    h.l1_size = l1;
    h.l2_size = l2;
    h.l3_size = l3;
    let mut cfg = CacheObliviousConfig::default();
    if c.path != CoPath::Default {
        cfg.cache_hierarchy = h;
        cfg.small_threshold = c.small_thr as usize;
    }
    cfg.use_simd = c.simd;
    cfg.memory_pool = None;
    if matches!(c.path, CoPath::FunnelNoAvx2 | CoPath::L1NoAvx2) {
        cfg.cpu_features.has_avx2 = false;
        cfg.cpu_features.has_sse42 = false;
    }
    cfg
}

fn run_co_typed<T: Ord + Clone + Debug>(c: &CoCase, input: Vec<T>, keys: &[u64]) -> Outcome {
    let n = input.len();
    let cfg = co_config(c, n, std::mem::size_of::<T>());
    // does this case enter the funnel recursion, and would it recurse forever?
    let h = &cfg.cache_hierarchy;
    let bytes8 = n * 8;
    let item_bytes = n * std::mem::size_of::<T>();
    let funnel = match c.path {
        CoPath::DirectFunnel => true,
        _ => {
            if n == 0 || bytes8 <= h.l1_size {
                false
            } else if bytes8 <= h.l3_size {
                true
            } else {
                item_bytes > h.l2_size
            }
        }
    };
    let thr = cfg.small_threshold;
    // Cases whose recursion reaches a node of width 1 (sqrt of widths 2 and 3) with more than small_threshold items used to
    // be left out: before zipora commit e193009 such a node recursed on itself forever (stack overflow).  The node now
    // clamps its width to 2..=n, so these cases are explored like all others and get their own outcome class.
    let width1 = funnel && n > thr && funnel_overflows(n, funnel_width(h.l2_size, h.l2_line_size, n), thr);
    let label = format!(
        "{:?}{}",
        c.path,
        if width1 {
            "/funnel-width1-node"
        } else if funnel && n > thr {
            "/funnel"
        } else if funnel {
            "/funnel-small"
        } else {
            ""
        }
    );
    let mut data = input.clone();
    let mut sorter = CacheObliviousSort::with_config(cfg);
    let r = if c.path == CoPath::DirectFunnel { sorter.cache_oblivious_sort(&mut data) } else { sorter.sort(&mut data) };
    match r {
        Err(e) => enumr::fail("sort_err", label, format!("sort returned Err({e}) on {}", brief_vec(&input))),
        Ok(()) => match judge_sorted(&input, &data) {
            Some((sym, d)) => enumr::fail("sorted_permutation", format!("{sym}/{label}/{}", len_class(keys.len())), d),
            None if n < 2 => Outcome::trivial(&label),
            None => Outcome::pass(&label),
        },
    }
}

fn run_co(c: &CoCase) -> Outcome {
    let keys = c.keys.expand(64);
    match c.path {
        CoPath::L2 | CoPath::L3 => run_co_typed::<u128>(c, keys.iter().map(|&k| k as u128).collect(), &keys),
        _ => run_co_typed::<u64>(c, keys.clone(), &keys),
    }
}

fn co_gen(path: CoPath) -> impl Fn(Tier, &mut dyn FnMut(CoCase) -> bool) -> bool {
    move |tier, f| {
        let mut cfgs: Vec<(u8, u32, bool)> = Vec::new();
        match path {
            CoPath::Funnel | CoPath::DirectFunnel => {
                for k in [2u8, 3, 4, 9, 16, 64] {
                    for thr in [1u32, 2, 4, 16, 1024] {
                        cfgs.push((k, thr, true));
                    }
                }
            }
            CoPath::HybridFunnel => {
                for thr in [1u32, 2, 4, 16] {
                    cfgs.push((2, thr, true));
                }
            }
            CoPath::FunnelNoAvx2 => {
                for k in [2u8, 9] {
                    for thr in [1u32, 16] {
                        cfgs.push((k, thr, true));
                    }
                }
            }
            CoPath::L1 => {
                cfgs.push((2, 1024, true));
                cfgs.push((2, 1024, false));
            }
            _ => cfgs.push((2, 1024, true)),
        }
        for (k, small_thr, simd) in cfgs {
            if !int_inputs(tier, 64, u64::MAX, 1000, &mut |keys| f(CoCase { keys, path, k, small_thr, simd })) {
                return false;
            }
            // the default configuration switches strategy at the real L1 size: add lengths beyond it
            if path == CoPath::Default {
                for n in [4095u32, 4096, 4097, 8193] {
                    for &shape in ALL_KSHAPES {
                        if !f(CoCase { keys: Keys::Grid { shape, n }, path, k, small_thr, simd }) {
                            return false;
                        }
                    }
                }
                // thorough: the default configuration at a size whose funnel recursion (widths 64 -> 8 -> 2 -> 1) hands a
                // width-1 node more than the default small_threshold of 1024 items
                if tier == Tier::Thorough && !f(CoCase { keys: Keys::Grid { shape: KShape::Scrambled, n: 1 << 21 }, path, k, small_thr, simd }) {
                    return false;
                }
            }
        }
        true
    }
}

// ------------------------------------------------------------------------------------------------
// ReplaceSelectSort / ExternalSort for Vec<T>

#[derive(Clone, Debug, Hash, Serialize, Deserialize)]
struct ExtCase {
    keys: Keys,
    /// 32 = u32 items, 64 = u64 items
    item_bits: u8,
    /// memory_buffer_size = mem_items * size_of::<T>()  (0 => size_of::<T>() - 1 bytes: less than one item)
    mem_items: u8,
    /// merge_ways
    ways: u8,
    secure: bool,
    /// false: ReplaceSelectSort::sort; true: <Vec<T> as ExternalSort>::external_sort_with_config
    via_trait: bool,
}

fn ext_tmp_dir() -> std::path::PathBuf {
    let base = zverif::util::scratch_root();
    base.join(format!("c11-ext-{}", std::process::id()))
}

fn run_ext_typed<T>(c: &ExtCase, input: Vec<T>) -> Outcome
where
    T: Ord + Clone + Debug + serde::Serialize + DeserializeOwned + 'static,
{
    let dir = ext_tmp_dir();
    if std::fs::create_dir_all(&dir).is_err() {
        return Outcome::skip("cannot create temp dir");
    }
    let sz = std::mem::size_of::<T>();
    let cfg = ReplaceSelectSortConfig {
        memory_buffer_size: if c.mem_items == 0 { sz - 1 } else { c.mem_items as usize * sz },
        temp_dir: dir.clone(),
        use_secure_memory: c.secure,
        compress_temp_files: false,
        merge_ways: c.ways as usize,
        cleanup_temp_files: true,
    };
    let label = format!("mem{}", c.mem_items);
    let res: Result<Vec<T>, String> = if c.via_trait {
        let mut v = input.clone();
        v.external_sort_with_config(cfg).map(|_| v).map_err(|e| e.to_string())
    } else {
        let mut sorter = ReplaceSelectSort::<T>::new(cfg);
        let r = sorter.sort(input.clone()).map_err(|e| e.to_string());
        drop(sorter);
        r
    };
    let _ = std::fs::remove_dir_all(&dir);
    match res {
        Err(e) => enumr::fail("sort_err", label, format!("external sort returned Err({e}) on {}", brief_vec(&input))),
        Ok(out) => match judge_sorted(&input, &out) {
            Some((sym, d)) => enumr::fail("sorted_permutation", format!("{sym}/{label}"), d),
            None if input.len() < 2 => Outcome::trivial(&label),
            None => Outcome::pass(&format!("{label}/{}", if input.len() > c.mem_items as usize { "spilled" } else { "in-memory" })),
        },
    }
}

fn run_ext(c: &ExtCase) -> Outcome {
    if c.item_bits == 32 {
        run_ext_typed::<u32>(c, c.keys.expand(32).iter().map(|&k| k as u32).collect())
    } else {
        run_ext_typed::<u64>(c, c.keys.expand(64))
    }
}

fn ext_gen(tier: Tier, f: &mut dyn FnMut(ExtCase) -> bool) -> bool {
    for via_trait in [false, true] {
        for item_bits in [64u8, 32] {
            for mem_items in [0u8, 1, 2, 3] {
                for ways in [2u8, 3, 16] {
                    for secure in [false, true] {
                        // the secure pool only changes the loser tree's allocation: one fan-in is enough for it
                        if secure && !(ways == 2 && mem_items == 2) {
                            continue;
                        }
                        if via_trait && (ways != 2 || item_bits != 64) {
                            continue;
                        }
                        if !int_inputs(tier, item_bits as u32, u64::MAX, 257, &mut |keys| f(ExtCase { keys, item_bits, mem_items, ways, secure, via_trait })) {
                            return false;
                        }
                    }
                }
            }
        }
    }
    true
}

// ------------------------------------------------------------------------------------------------
// merges of sorted runs

/// all sorted runs (multisets) of length <= max_len over {0..alpha-1}, shortest first
fn sorted_runs(alpha: u8, max_len: usize) -> Vec<Vec<u8>> {
    let a: Vec<u8> = (0..alpha).collect();
    let mut v = Vec::new();
    all_strings(&a, max_len, &mut |s| {
        if s.windows(2).all(|w| w[0] <= w[1]) {
            v.push(s.to_vec());
        }
        true
    });
    v
}

/// all tuples of <= max_runs runs drawn from `runs`
fn run_tuples(runs: &[Vec<u8>], max_runs: usize, f: &mut dyn FnMut(Vec<Vec<u8>>) -> bool) -> bool {
    all_strings(runs, max_runs, &mut |t| f(t.to_vec()))
}

#[derive(Clone, Debug, Hash, Serialize, Deserialize)]
struct MergeCase {
    runs: Vec<Vec<u8>>,
    /// subject-specific configuration code (documented per subject)
    cfg: u8,
}

fn merge_expected(runs: &[Vec<u8>]) -> Vec<i32> {
    let mut v: Vec<i32> = runs.iter().flatten().map(|&x| x as i32).collect();
    v.sort();
    v
}

fn merge_class(runs: &[Vec<u8>]) -> String {
    let empty = runs.iter().filter(|r| r.is_empty()).count();
    format!("ways{}{}", runs.len().min(9), if empty > 0 { "+empty-run" } else { "" })
}

fn judge_merge(runs: &[Vec<u8>], got: &[i32], extra: &str) -> Outcome {
    let exp = merge_expected(runs);
    let cls = merge_class(runs);
    if got == &exp[..] {
        if exp.is_empty() {
            Outcome::trivial(&format!("{cls}{extra}"))
        } else {
            Outcome::pass(&format!("{cls}{extra}"))
        }
    } else {
        let mut g = got.to_vec();
        g.sort();
        let sym = if g != exp { "elements_lost_or_added" } else { "not_sorted" };
        enumr::fail("merge_union", format!("{sym}/{cls}{extra}"), format!("runs {:?} -> got {}, expected {}", runs, brief_vec(got), brief_vec(&exp)))
    }
}

const MERGE_SPACE: &str = "all tuples of <= 4 sorted runs of length <= 3 over {0,1,2} (20 runs incl. the empty one: 168421 tuples)";

fn merge_gen(cfgs: &'static [u8], max_runs_q: usize, max_runs_t: usize) -> impl Fn(Tier, &mut dyn FnMut(MergeCase) -> bool) -> bool {
    move |tier, f| {
        let runs = sorted_runs(3, 3);
        for &cfg in cfgs {
            if !run_tuples(&runs, tier.pick(max_runs_q, max_runs_t), &mut |t| f(MergeCase { runs: t, cfg })) {
                return false;
            }
        }
        true
    }
}

/// padding runs that lift a tuple of <= 4 runs above MultiWayMerge's "more than 8 sources" tournament condition
const PAD_RUNS: &[&[u8]] = &[&[], &[0], &[1, 1], &[2], &[0, 1, 2]];

/// cfg: bit0 = use_tournament_tree, bit1 = max_merge_ways 2 (hierarchical path), bit2 = append the 5 PAD_RUNS
fn run_multiway(c: &MergeCase) -> Outcome {
    let mut runs = c.runs.clone();
    if c.cfg & 4 != 0 {
        runs.extend(PAD_RUNS.iter().map(|r| r.to_vec()));
    }
    let cfg = MultiWayMergeConfig {
        use_tournament_tree: c.cfg & 1 != 0,
        max_merge_ways: if c.cfg & 2 != 0 { 2 } else { 1024 },
        ..MultiWayMergeConfig::default()
    };
    let sources: Vec<VectorSource<i32>> = runs.iter().map(|r| VectorSource::new(r.iter().map(|&x| x as i32).collect())).collect();
    let mode = if runs.len() <= 1 {
        "/direct"
    } else if runs.len() > cfg.max_merge_ways {
        "/hierarchical"
    } else if cfg.use_tournament_tree && runs.len() > 8 {
        "/tournament"
    } else {
        "/heap"
    };
    let mut m = MultiWayMerge::with_config(cfg);
    match m.merge(sources) {
        Err(e) => enumr::fail("merge_err", format!("{}{mode}", merge_class(&runs)), format!("merge returned Err({e}) on {:?}", runs)),
        Ok(out) => judge_merge(&runs, &out, mode),
    }
}

/// nine runs of length <= 1 over {0,1,2}: 4^9 tuples, all in tournament mode
fn nine_gen(tier: Tier, f: &mut dyn FnMut(MergeCase) -> bool) -> bool {
    let runs = sorted_runs(3, 1);
    let n = tier.pick(0, 9);
    if n == 0 {
        return true;
    }
    let mut idx = vec![0usize; n];
    loop {
        let t: Vec<Vec<u8>> = idx.iter().map(|&i| runs[i].clone()).collect();
        if !f(MergeCase { runs: t, cfg: 1 }) {
            return false;
        }
        let mut p = n;
        loop {
            if p == 0 {
                return true;
            }
            p -= 1;
            idx[p] += 1;
            if idx[p] < runs.len() {
                break;
            }
            idx[p] = 0;
        }
    }
}

/// cfg: 0 = MergeOperations::merge_two, 1 = MergeOperations::merge_in_place(a ++ b, mid = |a|)
fn run_merge_ops(c: &MergeCase) -> Outcome {
    if c.runs.len() != 2 {
        return Outcome::skip("two runs only");
    }
    let a: Vec<i32> = c.runs[0].iter().map(|&x| x as i32).collect();
    let b: Vec<i32> = c.runs[1].iter().map(|&x| x as i32).collect();
    let out = if c.cfg == 0 {
        MergeOperations::merge_two(a, b)
    } else {
        let mid = a.len();
        let mut d = a;
        d.extend(b);
        MergeOperations::merge_in_place(&mut d, mid);
        d
    };
    judge_merge(&c.runs, &out, if c.cfg == 0 { "/merge_two" } else { "/merge_in_place" })
}

fn pair_gen(cfgs: &'static [u8]) -> impl Fn(Tier, &mut dyn FnMut(MergeCase) -> bool) -> bool {
    move |tier, f| {
        let runs = sorted_runs(3, tier.pick(4, 6));
        for &cfg in cfgs {
            for a in &runs {
                for b in &runs {
                    if !f(MergeCase { runs: vec![a.clone(), b.clone()], cfg }) {
                        return false;
                    }
                }
            }
        }
        true
    }
}

/// cfg: bit0 = stable_sort, bit1 = cache_optimized, bit2 = use_secure_memory, bit3 = drive through initialize()+peek()/pop()
/// (Iterator interface) instead of merge_to_vec()
fn run_loser_tree(c: &MergeCase) -> Outcome {
    let cfg = LoserTreeConfig {
        stable_sort: c.cfg & 1 != 0,
        cache_optimized: c.cfg & 2 != 0,
        use_secure_memory: c.cfg & 4 != 0,
        initial_capacity: 2,
        ..LoserTreeConfig::default()
    };
    let mut tree = EnhancedLoserTree::<i32>::new(cfg);
    for r in &c.runs {
        let v: Vec<i32> = r.iter().map(|&x| x as i32).collect();
        if let Err(e) = tree.add_way(v.into_iter()) {
            return enumr::fail("merge_err", "add_way", format!("add_way Err({e})"));
        }
    }
    let iter_mode = c.cfg & 8 != 0;
    if tree.num_ways() != c.runs.len() {
        return enumr::fail("merge_union", "num_ways", format!("num_ways() = {} after adding {} ways", tree.num_ways(), c.runs.len()));
    }
    let total: usize = c.runs.iter().map(|r| r.len()).sum();
    let out: Result<Vec<i32>, String> = if iter_mode {
        match tree.initialize() {
            Err(e) => Err(e.to_string()),
            Ok(()) => {
                let mut v: Vec<i32> = Vec::new();
                loop {
                    // observer: is_empty() <=> every item has been handed out
                    let empty = tree.is_empty();
                    if empty != (v.len() == total) {
                        return enumr::fail("merge_union", "is_empty", format!("runs {:?}: is_empty() = {empty} after {} of {total} items", c.runs, v.len()));
                    }
                    let p = tree.peek().copied();
                    let x = tree.next();
                    if p != x {
                        return enumr::fail("merge_union", "peek_ne_pop", format!("runs {:?}: peek() = {:?} but pop() = {:?} after {:?}", c.runs, p, x, v));
                    }
                    match x {
                        Some(x) => v.push(x),
                        None => break,
                    }
                }
                Ok(v)
            }
        }
    } else {
        tree.merge_to_vec().map_err(|e| e.to_string())
    };
    match out {
        Err(e) => {
            if c.runs.is_empty() {
                // `initialize` refuses an empty set of ways with an explicit error: a refusal, not a wrong merge
                Outcome::skip("zero ways refused (explicit Err)")
            } else {
                enumr::fail("merge_err", merge_class(&c.runs), format!("merge returned Err({e}) on {:?}", c.runs))
            }
        }
        Ok(v) => judge_merge(&c.runs, &v, if iter_mode { "/iter" } else { "/merge_to_vec" }),
    }
}

fn loser_gen(tier: Tier, f: &mut dyn FnMut(MergeCase) -> bool) -> bool {
    let runs = sorted_runs(3, 3);
    for cfg in [3u8, 0, 1, 2, 11, 8] {
        if !run_tuples(&runs, 4, &mut |t| f(MergeCase { runs: t, cfg })) {
            return false;
        }
    }
    // five ways: runs of length <= 1 (quick) / <= 2 (thorough)
    let short = sorted_runs(3, tier.pick(1, 2));
    for cfg in [3u8, 11] {
        if !all_strings(&short, 5, &mut |t| if t.len() == 5 { f(MergeCase { runs: t.to_vec(), cfg }) } else { true }) {
            return false;
        }
    }
    // secure memory pool (one pool per tree): up to two ways
    if !run_tuples(&runs, 2, &mut |t| f(MergeCase { runs: t, cfg: 7 })) {
        return false;
    }
    // G: 6..33 ways (round-robin, with empty ways, blocks)
    for cfg in [3u8, 11, 0] {
        for runs in wide_merge_runs() {
            if !f(MergeCase { runs, cfg }) {
                return false;
            }
        }
    }
    true
}

// ------------------------------------------------------------------------------------------------
// SIMD merge

#[derive(Clone, Debug, Hash, Serialize, Deserialize)]
enum I32Run {
    /// explicit sorted values
    Seq(Vec<i32>),
    /// n values start, start+step, ...
    Arith { start: i32, step: i32, n: u32 },
}

impl I32Run {
    fn expand(&self) -> Vec<i32> {
        match self {
            I32Run::Seq(v) => v.clone(),
            I32Run::Arith { start, step, n } => (0..*n as i32).map(|i| start + step * i).collect(),
        }
    }
}

#[derive(Clone, Debug, Hash, Serialize, Deserialize)]
struct SimdCase {
    left: I32Run,
    right: I32Run,
    /// SimdConfig::min_vector_size (SIMD path when |l|+|r| >= 2*min_vec)
    min_vec: u8,
    avx2: bool,
}

fn simd_gen(tier: Tier, f: &mut dyn FnMut(SimdCase) -> bool) -> bool {
    let alpha = [i32::MIN, -1, 0, 2, i32::MAX];
    let mut runs: Vec<Vec<i32>> = Vec::new();
    all_strings(&alpha, tier.pick(3, 4), &mut |s| {
        if s.windows(2).all(|w| w[0] <= w[1]) {
            runs.push(s.to_vec());
        }
        true
    });
    for (min_vec, avx2) in [(1u8, true), (8, true), (1, false)] {
        for a in &runs {
            for b in &runs {
                if !f(SimdCase { left: I32Run::Seq(a.clone()), right: I32Run::Seq(b.clone()), min_vec, avx2 }) {
                    return false;
                }
            }
        }
        // G: lengths around the 8-lane copy loop x {interleaved, left entirely smaller, right entirely smaller, all equal}
        let lens = [0u32, 1, 7, 8, 9, 15, 16, 17, 33, 100];
        for &ln in &lens {
            for &rn in &lens {
                for (ls, lstep, rs, rstep) in [(0, 2, 1, 2), (-1000, 1, 1000, 1), (1000, 1, -1000, 1), (5, 0, 5, 0)] {
                    let c = SimdCase {
                        left: I32Run::Arith { start: ls, step: lstep, n: ln },
                        right: I32Run::Arith { start: rs, step: rstep, n: rn },
                        min_vec,
                        avx2,
                    };
                    if !f(c) {
                        return false;
                    }
                }
            }
        }
    }
    true
}

fn run_simd(c: &SimdCase) -> Outcome {
    let l = c.left.expand();
    let r = c.right.expand();
    let cfg = SimdConfig { use_avx2: c.avx2, min_vector_size: c.min_vec as usize, ..SimdConfig::default() };
    let cmp = SimdComparator::with_config(cfg);
    let simd_path = c.avx2 && l.len() + r.len() >= 2 * c.min_vec as usize;
    let got = cmp.merge_sorted_i32(&l, &r);
    let mut exp = l.clone();
    exp.extend(&r);
    exp.sort();
    let tail = l.len().max(r.len()) >= 8;
    let cls = format!("{}{}", if simd_path { "simd" } else { "scalar" }, if tail { "/tail>=8" } else { "" });
    // (coverage audit) the helper entry points of the same comparator: element-wise comparison and minimum search,
    // on the runs themselves and on unsorted arrangements of them (reversed; right ++ reversed left)
    {
        let n = l.len().min(r.len());
        let want: Vec<std::cmp::Ordering> = l[..n].iter().zip(&r[..n]).map(|(a, b)| a.cmp(b)).collect();
        match cmp.compare_i32_slices(&l[..n], &r[..n]) {
            Ok(g) if g == want => {}
            other => return enumr::fail("variants_agree", format!("compare_i32_slices/{cls}"), format!("compare_i32_slices({}, {}) = {:?}, element-wise cmp gives {:?}", brief_vec(&l[..n]), brief_vec(&r[..n]), other, want)),
        }
        if l.len() != r.len() && cmp.compare_i32_slices(&l, &r).is_ok() {
            return enumr::fail("variants_agree", format!("compare_i32_slices/unequal_lengths_accepted/{cls}"), format!("compare_i32_slices accepted slices of {} and {} elements", l.len(), r.len()));
        }
        let pairs: Vec<(i32, i32)> = l[..n].iter().copied().zip(r[..n].iter().copied()).collect();
        let g = SimdOperations::parallel_compare_i32(&pairs);
        if g != want {
            return enumr::fail("variants_agree", format!("parallel_compare_i32/{cls}"), format!("parallel_compare_i32({pairs:?}) = {g:?}, want {want:?}"));
        }
        let mut rev = l.clone();
        rev.reverse();
        let mut mixed = r.clone();
        mixed.extend(&rev);
        let first_min = |v: &[i32]| v.iter().enumerate().min_by_key(|(_, x)| **x).map(|(i, x)| (i, *x));
        for v in [&l, &rev, &mixed] {
            let g = cmp.find_min_i32(v);
            if g != first_min(v) {
                return enumr::fail("variants_agree", format!("find_min_i32/{cls}"), format!("find_min_i32({}) = {g:?}, the first minimum is {:?}", brief_vec(v), first_min(v)));
            }
        }
        let g = SimdOperations::find_multiple_mins(&[&rev, &mixed, &[]]);
        if g != vec![first_min(&rev), first_min(&mixed), None] {
            return enumr::fail("variants_agree", format!("find_multiple_mins/{cls}"), format!("find_multiple_mins([{}, {}, []]) = {g:?}", brief_vec(&rev), brief_vec(&mixed)));
        }
    }
    if got == exp {
        if exp.is_empty() {
            Outcome::trivial(&cls)
        } else {
            Outcome::pass(&cls)
        }
    } else {
        enumr::fail("merge_union", cls, format!("merge_sorted_i32({}, {}) = {}, expected {}", brief_vec(&l), brief_vec(&r), brief_vec(&got), brief_vec(&exp)))
    }
}

fn run_simd_multi(c: &MergeCase) -> Outcome {
    let arrays: Vec<Vec<i32>> = c.runs.iter().map(|r| r.iter().map(|&x| x as i32).collect()).collect();
    let out = SimdOperations::merge_multiple_sorted(arrays);
    judge_merge(&c.runs, &out, "/binary-tree")
}

// ------------------------------------------------------------------------------------------------
// set_ops::* — two sorted sequences

#[derive(Clone, Debug, Hash, Serialize, Deserialize)]
struct PairCase {
    a: Vec<u8>,
    b: Vec<u8>,
    /// size-ratio threshold of the `*_fast_*` variants (ignored by the others)
    thr: u8,
}

#[derive(Clone, Copy, Debug, PartialEq, Eq)]
enum SetFn {
    Inter,
    Inter1Small,
    InterFast,
    Inter2,
    Inter2_1Small,
    Inter2Fast,
    Union,
    Difference,
    SetInter,
    SetUnion,
    SetDifference,
    Unique,
}

const ALL_SETFNS: &[(SetFn, &str)] = &[
    (SetFn::Inter, "multiset_intersection"),
    (SetFn::Inter1Small, "multiset_1small_intersection"),
    (SetFn::InterFast, "multiset_fast_intersection"),
    (SetFn::Inter2, "multiset_intersection2"),
    (SetFn::Inter2_1Small, "multiset_1small_intersection2"),
    (SetFn::Inter2Fast, "multiset_fast_intersection2"),
    (SetFn::Union, "multiset_union"),
    (SetFn::Difference, "multiset_difference"),
    (SetFn::SetInter, "set_intersection"),
    (SetFn::SetUnion, "set_union"),
    (SetFn::SetDifference, "set_difference"),
    (SetFn::Unique, "set_unique"),
];

fn dedup(mut v: Vec<u8>) -> Vec<u8> {
    v.dedup();
    v
}

/// Definitional references (no two-pointer walk): the *documented* semantics of each function.
///  * intersection  = the elements of `a` (with a's multiplicities) whose value occurs in `b`   ("copied from first sequence")
///  * intersection2 = the elements of `b` (with b's multiplicities) whose value occurs in `a`   ("copied from second sequence")
///  * union         = sorted concatenation ("including all duplicates from both")
///  * difference    = for each value max(count_a - count_b, 0) copies (the std::set_difference multiset rule)
///  * set_*         = the above with consecutive duplicates removed; set_unique = distinct values
fn set_reference(fun: SetFn, a: &[u8], b: &[u8]) -> Vec<u8> {
    let inter1 = || a.iter().copied().filter(|x| b.contains(x)).collect::<Vec<u8>>();
    let inter2 = || b.iter().copied().filter(|y| a.contains(y)).collect::<Vec<u8>>();
    let union = || {
        let mut v = a.to_vec();
        v.extend_from_slice(b);
        v.sort();
        v
    };
    let diff = || {
        let mut out = Vec::new();
        let mut vals = a.to_vec();
        vals.dedup();
        for v in vals {
            let ca = a.iter().filter(|&&x| x == v).count();
            let cb = b.iter().filter(|&&x| x == v).count();
            for _ in cb..ca {
                out.push(v);
            }
        }
        out
    };
    match fun {
        SetFn::Inter | SetFn::Inter1Small | SetFn::InterFast => inter1(),
        SetFn::Inter2 | SetFn::Inter2_1Small | SetFn::Inter2Fast => inter2(),
        SetFn::Union => union(),
        SetFn::Difference => diff(),
        SetFn::SetInter => dedup(inter1()),
        SetFn::SetUnion => dedup(union()),
        SetFn::SetDifference => dedup(diff()),
        SetFn::Unique => dedup(a.to_vec()),
    }
}

/// The textbook (std::set_*) multiset results, used only to label pass classes where zipora's documented
/// semantics differ from them.
fn textbook(fun: SetFn, a: &[u8], b: &[u8]) -> Vec<u8> {
    let (mut i, mut j, mut out) = (0, 0, Vec::new());
    match fun {
        SetFn::Inter | SetFn::Inter1Small | SetFn::InterFast | SetFn::Inter2 | SetFn::Inter2_1Small | SetFn::Inter2Fast | SetFn::SetInter => {
            while i < a.len() && j < b.len() {
                match a[i].cmp(&b[j]) {
                    Ordering::Less => i += 1,
                    Ordering::Greater => j += 1,
                    Ordering::Equal => {
                        out.push(a[i]);
                        i += 1;
                        j += 1;
                    }
                }
            }
        }
        SetFn::Union | SetFn::SetUnion => {
            while i < a.len() && j < b.len() {
                match a[i].cmp(&b[j]) {
                    Ordering::Less => {
                        out.push(a[i]);
                        i += 1
                    }
                    Ordering::Greater => {
                        out.push(b[j]);
                        j += 1
                    }
                    Ordering::Equal => {
                        out.push(a[i]);
                        i += 1;
                        j += 1;
                    }
                }
            }
            out.extend_from_slice(&a[i..]);
            out.extend_from_slice(&b[j..]);
        }
        SetFn::Difference | SetFn::SetDifference => {
            while i < a.len() && j < b.len() {
                match a[i].cmp(&b[j]) {
                    Ordering::Less => {
                        out.push(a[i]);
                        i += 1
                    }
                    Ordering::Greater => j += 1,
                    Ordering::Equal => {
                        i += 1;
                        j += 1;
                    }
                }
            }
            out.extend_from_slice(&a[i..]);
        }
        SetFn::Unique => out = dedup(a.to_vec()),
    }
    if matches!(fun, SetFn::SetInter | SetFn::SetUnion | SetFn::SetDifference) {
        out = dedup(out);
    }
    out
}

fn run_setfn(fun: SetFn, c: &PairCase) -> Outcome {
    let cmp = |x: &u8, y: &u8| x.cmp(y);
    let (a, b) = (&c.a[..], &c.b[..]);
    let got: Vec<u8> = match fun {
        SetFn::Inter => set_ops::multiset_intersection(a, b, cmp),
        SetFn::Inter1Small => set_ops::multiset_1small_intersection(a, b, cmp),
        SetFn::InterFast => set_ops::multiset_fast_intersection(a, b, cmp, c.thr as usize),
        SetFn::Inter2 => set_ops::multiset_intersection2(a, b, cmp),
        SetFn::Inter2_1Small => set_ops::multiset_1small_intersection2(a, b, cmp),
        SetFn::Inter2Fast => set_ops::multiset_fast_intersection2(a, b, cmp, c.thr as usize),
        SetFn::Union => set_ops::multiset_union(a, b, cmp),
        SetFn::Difference => set_ops::multiset_difference(a, b, cmp),
        SetFn::SetInter => set_ops::set_intersection(a, b, cmp),
        SetFn::SetUnion => set_ops::set_union(a, b, cmp),
        SetFn::SetDifference => set_ops::set_difference(a, b, cmp),
        SetFn::Unique => {
            let mut d = a.to_vec();
            let n = if c.thr == 0 { set_ops::set_unique(&mut d, |x, y| x == y) } else { set_ops::set_unique_default(&mut d) };
            if n > d.len() {
                return enumr::fail("set_op_result", "unique_len_out_of_range", format!("set_unique({:?}) returned {n} > len {}", a, d.len()));
            }
            d.truncate(n);
            d
        }
    };
    let exp = set_reference(fun, a, b);
    let has_dup = |v: &[u8]| v.windows(2).any(|w| w[0] == w[1]);
    let dupc = if has_dup(a) || has_dup(b) { "dup_inputs" } else { "unique_inputs" };
    if got != exp {
        return enumr::fail("set_op_result", format!("wrong/{dupc}"), format!("a={:?} b={:?} thr={} -> got {:?}, expected {:?}", a, b, c.thr, got, exp));
    }
    let tb = textbook(fun, a, b);
    let cls = format!("{dupc}/{}", if tb == exp { "equals_textbook" } else { "documented_semantics_differs_from_textbook" });
    if a.is_empty() && b.is_empty() {
        Outcome::trivial(&cls)
    } else {
        Outcome::pass(&cls)
    }
}

fn setfn_gen(fun: SetFn) -> impl Fn(Tier, &mut dyn FnMut(PairCase) -> bool) -> bool {
    move |tier, f| {
        let runs = match (tier, fun) {
            // one argument only: longer runs of equal values (up to 9 in a row)
            (Tier::Quick, SetFn::Unique) => sorted_runs(3, 9),
            (Tier::Thorough, SetFn::Unique) => sorted_runs(4, 9),
            (Tier::Quick, _) => sorted_runs(3, 4),
            (Tier::Thorough, _) => sorted_runs(4, 5),
        };
        let thrs: &[u8] = match fun {
            SetFn::InterFast | SetFn::Inter2Fast => &[0, 1, 2, 32],
            SetFn::Unique => &[0, 1],
            _ => &[0],
        };
        for &thr in thrs {
            for a in &runs {
                if fun == SetFn::Unique {
                    if !f(PairCase { a: a.clone(), b: vec![], thr }) {
                        return false;
                    }
                    continue;
                }
                for b in &runs {
                    if !f(PairCase { a: a.clone(), b: b.clone(), thr }) {
                        return false;
                    }
                }
            }
        }
        // G: one long second sequence so that the *_fast_* variants switch to binary search at the default ratio 32
        if matches!(fun, SetFn::InterFast | SetFn::Inter2Fast | SetFn::Inter1Small | SetFn::Inter2_1Small) {
            let long: Vec<u8> = (0..100u32).map(|i| (i / 3) as u8).collect();
            for a in &runs {
                let a2: Vec<u8> = a.iter().map(|&x| x * 7).collect();
                if a2.len() <= 3 && !f(PairCase { a: a2, b: long.clone(), thr: 32 }) {
                    return false;
                }
            }
        }
        // G2 (all variants of every two-sequence operation, so that linear / binary-search / adaptive see the same inputs):
        // short sequences (length <= 3, with repeated keys) whose values lie below the minimum, inside (present and
        // absent), and above the maximum of a 100-element sequence that has triples / gaps / long runs of equal values;
        // in both argument orders
        if fun != SetFn::Unique {
            let short = sorted_runs(3, 3);
            let longs: [Vec<u8>; 3] = [
                (0..100u32).map(|i| (i / 3) as u8).collect(),
                (0..100u32).map(|i| (2 * i + 1) as u8).collect(),
                (0..100u32).map(|i| if i < 40 { 1 } else if i < 80 { 5 } else { 250 }).collect(),
            ];
            let maps: [[u8; 3]; 3] = [[0, 7, 14], [0, 7, 255], [5, 6, 250]];
            for long in &longs {
                for map in &maps {
                    for a in &short {
                        let a2: Vec<u8> = a.iter().map(|&x| map[x as usize]).collect();
                        if !f(PairCase { a: a2.clone(), b: long.clone(), thr: 32 }) || !f(PairCase { a: long.clone(), b: a2, thr: 32 }) {
                            return false;
                        }
                    }
                }
            }
        }
        true
    }
}

// ------------------------------------------------------------------------------------------------
// SetOperations — k sorted sequences

#[derive(Clone, Copy, Debug, PartialEq, Eq)]
enum KOp {
    /// cfg 0 = bit-mask path (default config), 1 = use_bit_mask_optimization false (general path),
    /// 2 = bit_mask_threshold 1 (more than one way takes the general path)
    Inter,
    Union,
    Frequencies,
    FilterMerge,
}

fn run_kop(op: KOp, c: &MergeCase) -> Outcome {
    let runs = &c.runs;
    let its = || -> Vec<std::vec::IntoIter<u8>> { runs.iter().map(|r| r.clone().into_iter()).collect() };
    let cfg = match (op, c.cfg) {
        (KOp::Inter, 1) => SetOperationsConfig { use_bit_mask_optimization: false, ..SetOperationsConfig::default() },
        (KOp::Inter, 2) => SetOperationsConfig { bit_mask_threshold: 1, ..SetOperationsConfig::default() },
        (KOp::Inter, 3) => SetOperationsConfig { bit_mask_threshold: 64, ..SetOperationsConfig::default() },
        _ => SetOperationsConfig::default(),
    };
    let general = op == KOp::Inter
        && match c.cfg {
            1 => true,
            2 => runs.len() > 1,
            3 => runs.len() > 64,
            _ => runs.len() > 32,
        };
    let variant = if op != KOp::Inter {
        ""
    } else if general {
        "/general-path"
    } else {
        "/bit-mask-path"
    };
    let mut so = SetOperations::with_config(cfg);
    let has_dup = runs.iter().any(|r| r.windows(2).any(|w| w[0] == w[1]));
    let dupc = if has_dup { "dup_inputs" } else { "unique_inputs" };
    let cls = format!("{}/{dupc}{variant}", if runs.len() > 9 { format!("ways{}", runs.len()) } else { merge_class(runs) });
    let all: Vec<u8> = {
        let mut v: Vec<u8> = runs.iter().flatten().copied().collect();
        v.sort();
        v
    };
    let refused = |e: String| {
        if runs.is_empty() {
            Outcome::skip("zero ways refused (explicit Err)")
        } else {
            enumr::fail("set_op_err", cls.clone(), format!("returned Err({e}) on {:?}", runs))
        }
    };
    match op {
        KOp::Inter => {
            // a panic is caught here so that its class can name the variant and the number of ways
            let got = match zverif::util::catch(|| so.intersection(its())) {
                Ok(Ok(v)) => v,
                Ok(Err(e)) => return refused(e.to_string()),
                Err(p) => {
                    return enumr::fail(
                        "set_op_result",
                        if runs.len() > 32 && !general { "bit-mask-path-with-more-than-32-ways".to_string() } else { format!("panic/{dupc}{variant}") },
                        format!("intersection of {} ways panicked ({}): bit_mask_threshold {}", runs.len(), p.detail, if c.cfg == 3 { 64 } else { 32 }),
                    )
                }
            };
            // k-way two-pointer definition: value v appears min_i count_i(v) times
            let mut exp = Vec::new();
            if !runs.is_empty() {
                for v in dedup(all.clone()) {
                    let m = runs.iter().map(|r| r.iter().filter(|&&x| x == v).count()).min().unwrap_or(0);
                    for _ in 0..m {
                        exp.push(v);
                    }
                }
            }
            if got == exp {
                return if all.is_empty() { Outcome::trivial(&cls) } else { Outcome::pass(&cls) };
            }
            // "wrong_values": wrong under any reading of the multiplicity (the set of distinct values differs)
            let sym = if dedup(got.clone()) != dedup(exp.clone()) || got.windows(2).any(|w| w[0] > w[1]) { "wrong_values" } else { "multiplicity_only" };
            if runs.len() > 32 && !general {
                // a 32-bit mask cannot tell more than 32 ways apart: one situation, whether it panics or answers wrongly
                return enumr::fail("set_op_result", "bit-mask-path-with-more-than-32-ways", format!("intersection of {} ways (bit_mask_threshold 64) -> got {:?}, expected {:?}; ways: {:?}", runs.len(), got, exp, runs));
            }
            enumr::fail("set_op_result", format!("{sym}/{dupc}{variant}"), format!("intersection of {:?} -> got {:?}, expected {:?}", runs, got, exp))
        }
        KOp::Union => match so.union(its()) {
            Err(e) => refused(e.to_string()),
            Ok(got) => {
                let exp = dedup(all.clone());
                if got == exp {
                    if all.is_empty() {
                        Outcome::trivial(&cls)
                    } else {
                        Outcome::pass(&cls)
                    }
                } else {
                    enumr::fail("set_op_result", format!("wrong/{dupc}"), format!("union of {:?} -> got {:?}, expected {:?}", runs, got, exp))
                }
            }
        },
        KOp::Frequencies => match so.count_frequencies(its()) {
            Err(e) => refused(e.to_string()),
            Ok(got) => {
                let mut g: Vec<(u8, usize)> = got.into_iter().collect();
                g.sort();
                let exp: Vec<(u8, usize)> = dedup(all.clone()).into_iter().map(|v| (v, all.iter().filter(|&&x| x == v).count())).collect();
                if g == exp {
                    if all.is_empty() {
                        Outcome::trivial(&cls)
                    } else {
                        Outcome::pass(&cls)
                    }
                } else {
                    enumr::fail("set_op_result", format!("wrong/{dupc}"), format!("count_frequencies of {:?} -> got {:?}, expected {:?}", runs, g, exp))
                }
            }
        },
        KOp::FilterMerge => match so.filter_merge(its(), |x| *x != 1) {
            Err(e) => refused(e.to_string()),
            Ok(got) => {
                let exp: Vec<u8> = all.iter().copied().filter(|&x| x != 1).collect();
                if got == exp {
                    if all.is_empty() {
                        Outcome::trivial(&cls)
                    } else {
                        Outcome::pass(&cls)
                    }
                } else {
                    enumr::fail("merge_union", format!("wrong/{dupc}"), format!("filter_merge(x != 1) of {:?} -> got {:?}, expected {:?}", runs, got, exp))
                }
            }
        },
    }
}


// ------------------------------------------------------------------------------------------------
// coverage audit (au6): many ways, tagged elements, custom comparators, reused objects, Algorithm::execute

/// k-way inputs around the default bit-mask limit of 32 ways (31, 32, 33; thorough: + 64, 65): every way [0,1,2]; one way
/// (first / last / way 31) lacking the 1; every way [0,1,1,2] except one with a single 1; one empty way among [1]s;
/// way i = [i mod 3]
fn many_ways_runs(tier: Tier) -> Vec<Vec<Vec<u8>>> {
    let mut out = Vec::new();
    let ks: &[usize] = tier.pick(&[31, 32, 33][..], &[31, 32, 33, 64, 65][..]);
    for &k in ks {
        out.push(vec![vec![0u8, 1, 2]; k]);
        let mut special = vec![0usize, k - 1];
        if k > 32 {
            special.push(31);
            special.push(32);
        }
        for &m in &special {
            let mut r = vec![vec![0u8, 1, 2]; k];
            r[m] = vec![0, 2];
            out.push(r);
            let mut r = vec![vec![0u8, 1, 1, 2]; k];
            r[m] = vec![0, 1, 2];
            out.push(r);
            let mut r = vec![vec![1u8]; k];
            r[m] = vec![];
            out.push(r);
        }
        out.push((0..k).map(|i| vec![(i % 3) as u8]).collect());
    }
    out
}

fn many_ways_gen(cfgs: &'static [u8]) -> impl Fn(Tier, &mut dyn FnMut(MergeCase) -> bool) -> bool {
    move |tier, f| {
        for &cfg in cfgs {
            for runs in many_ways_runs(tier) {
                if !f(MergeCase { runs, cfg }) {
                    return false;
                }
            }
        }
        true
    }
}

/// loser tree / binary merge tree with more ways than the exhaustive tuples reach: k in {6,7,8,9,16,17,33} ways fed
/// round-robin from the sorted sequence (i / 3) for i < n, n in {k-1, 2k+1, 5k}; variant with every 4th way empty;
/// and "blocks" (way j entirely below way j+1) in ascending and descending way order
fn wide_merge_runs() -> Vec<Vec<Vec<u8>>> {
    let mut out = Vec::new();
    for k in [6usize, 7, 8, 9, 16, 17, 33] {
        for n in [k - 1, 2 * k + 1, 5 * k] {
            for holes in [false, true] {
                let mut runs = vec![Vec::new(); k];
                let live: Vec<usize> = (0..k).filter(|w| !(holes && w % 4 == 1)).collect();
                for i in 0..n {
                    runs[live[i % live.len()]].push((i / 3) as u8);
                }
                out.push(runs);
            }
        }
        let blocks: Vec<Vec<u8>> = (0..k).map(|w| (0..5).map(|j| (w * 5 + j) as u8).collect()).collect();
        out.push(blocks.clone());
        out.push(blocks.into_iter().rev().collect());
    }
    out
}

/// SimdOperations::merge_multiple_sorted with arrays long enough for the AVX2 bulk copy (>= 8 remaining items) inside the
/// binary merge tree: k in {2,3,5,8,9} arrays of 8, 9 and 17 items, interleaved and in blocks
fn long_multi_runs() -> Vec<Vec<Vec<u8>>> {
    let mut out = Vec::new();
    for k in [2usize, 3, 5, 8, 9] {
        for len in [8usize, 9, 17] {
            let inter: Vec<Vec<u8>> = (0..k).map(|w| (0..len).map(|j| ((j * k + w) / 2) as u8).collect()).collect();
            out.push(inter);
            let blocks: Vec<Vec<u8>> = (0..k).map(|w| (0..len).map(|j| (w * len + j) as u8).collect()).collect();
            out.push(blocks.clone());
            out.push(blocks.into_iter().rev().collect());
            // unequal lengths: way w has len + w items
            out.push((0..k).map(|w| (0..len + w).map(|j| (j * 3 + w) as u8).collect()).collect());
        }
    }
    out
}

fn explicit_runs_gen(make: fn() -> Vec<Vec<Vec<u8>>>, cfgs: &'static [u8]) -> impl Fn(Tier, &mut dyn FnMut(MergeCase) -> bool) -> bool {
    move |_tier, f| {
        for &cfg in cfgs {
            for runs in make() {
                if !f(MergeCase { runs, cfg }) {
                    return false;
                }
            }
        }
        true
    }
}

/// EnhancedLoserTree::with_comparator(reverse order) on descending runs (the runs of the case, reversed), driven
/// through merge_to_vec (cfg bit 3 clear) or initialize()+peek()/next() with the observers num_ways()/is_empty()
fn run_loser_tree_cmp(c: &MergeCase) -> Outcome {
    let cfg = LoserTreeConfig {
        stable_sort: c.cfg & 1 != 0,
        cache_optimized: c.cfg & 2 != 0,
        use_secure_memory: false,
        initial_capacity: 2,
        ..LoserTreeConfig::default()
    };
    let mut tree = EnhancedLoserTree::with_comparator(cfg, |a: &i32, b: &i32| b.cmp(a));
    for r in &c.runs {
        let v: Vec<i32> = r.iter().rev().map(|&x| x as i32).collect();
        if let Err(e) = tree.add_way(v.into_iter()) {
            return enumr::fail("merge_err", "add_way", format!("add_way Err({e})"));
        }
    }
    if tree.num_ways() != c.runs.len() {
        return enumr::fail("merge_union", "num_ways", format!("num_ways() = {} after adding {} ways", tree.num_ways(), c.runs.len()));
    }
    let total: usize = c.runs.iter().map(|r| r.len()).sum();
    let iter_mode = c.cfg & 8 != 0;
    let out: Result<Vec<i32>, String> = if iter_mode {
        match tree.initialize() {
            Err(e) => Err(e.to_string()),
            Ok(()) => {
                let mut v: Vec<i32> = Vec::new();
                loop {
                    let empty = tree.is_empty();
                    if empty != (v.len() == total) {
                        return enumr::fail("merge_union", "is_empty", format!("runs {:?} (reversed): is_empty() = {empty} after {} of {total} items", c.runs, v.len()));
                    }
                    let p = tree.peek().copied();
                    let x = tree.next();
                    if p != x {
                        return enumr::fail("merge_union", "peek_ne_pop", format!("runs {:?} (reversed): peek() = {:?} but pop() = {:?} after {:?}", c.runs, p, x, v));
                    }
                    match x {
                        Some(x) => v.push(x),
                        None => break,
                    }
                }
                Ok(v)
            }
        }
    } else {
        tree.merge_to_vec().map_err(|e| e.to_string())
    };
    match out {
        Err(e) => {
            if c.runs.is_empty() {
                Outcome::skip("zero ways refused (explicit Err)")
            } else {
                enumr::fail("merge_err", merge_class(&c.runs), format!("merge returned Err({e}) on {:?} (reversed)", c.runs))
            }
        }
        Ok(mut v) => {
            // judge in ascending terms: the descending merge, reversed, must be the ascending sorted union
            let desc = v.windows(2).all(|w| w[0] >= w[1]);
            v.reverse();
            if !desc {
                v.push(i32::MIN); // make the comparison below fail with a visible marker
            }
            judge_merge(&c.runs, &v, if iter_mode { "/reverse-cmp/iter" } else { "/reverse-cmp/merge_to_vec" })
        }
    }
}

fn loser_cmp_gen(tier: Tier, f: &mut dyn FnMut(MergeCase) -> bool) -> bool {
    let runs = sorted_runs(3, 3);
    for cfg in [3u8, 11, 0] {
        if !run_tuples(&runs, tier.pick(3, 4), &mut |t| f(MergeCase { runs: t, cfg })) {
            return false;
        }
    }
    for cfg in [3u8, 11] {
        for runs in wide_merge_runs() {
            if !f(MergeCase { runs, cfg }) {
                return false;
            }
        }
    }
    true
}

// ---- set_ops on tagged elements: which sequence an output element was copied from is observable

#[derive(Clone, Copy, Debug, PartialEq, Eq, PartialOrd, Ord)]
struct Tagged {
    key: u8,
    /// 0 = first sequence, 1 = second sequence
    side: u8,
    idx: u8,
}

const TAGGED_SETFNS: &[(SetFn, &str)] = &[
    (SetFn::Inter, "multiset_intersection"),
    (SetFn::Inter1Small, "multiset_1small_intersection"),
    (SetFn::InterFast, "multiset_fast_intersection"),
    (SetFn::Inter2, "multiset_intersection2"),
    (SetFn::Inter2_1Small, "multiset_1small_intersection2"),
    (SetFn::Inter2Fast, "multiset_fast_intersection2"),
    (SetFn::Union, "multiset_union"),
    (SetFn::Difference, "multiset_difference"),
];

/// The comparator sees the key only.  Oracle (documented semantics, as for the untagged subjects):
///  * the keys of the output are the reference result;
///  * no input element is emitted twice;
///  * intersection: exactly the elements of the FIRST sequence whose key occurs in the second ("copied from first");
///    intersection2: exactly the elements of the SECOND sequence whose key occurs in the first;
///    union: exactly all elements of both; difference: elements of the first sequence only.
fn run_setfn_tagged(fun: SetFn, c: &PairCase) -> Outcome {
    let ta: Vec<Tagged> = c.a.iter().enumerate().map(|(i, &k)| Tagged { key: k, side: 0, idx: i as u8 }).collect();
    let tb: Vec<Tagged> = c.b.iter().enumerate().map(|(i, &k)| Tagged { key: k, side: 1, idx: i as u8 }).collect();
    let cmp = |x: &Tagged, y: &Tagged| x.key.cmp(&y.key);
    let (a, b) = (&ta[..], &tb[..]);
    let got: Vec<Tagged> = match fun {
        SetFn::Inter => set_ops::multiset_intersection(a, b, cmp),
        SetFn::Inter1Small => set_ops::multiset_1small_intersection(a, b, cmp),
        SetFn::InterFast => set_ops::multiset_fast_intersection(a, b, cmp, c.thr as usize),
        SetFn::Inter2 => set_ops::multiset_intersection2(a, b, cmp),
        SetFn::Inter2_1Small => set_ops::multiset_1small_intersection2(a, b, cmp),
        SetFn::Inter2Fast => set_ops::multiset_fast_intersection2(a, b, cmp, c.thr as usize),
        SetFn::Union => set_ops::multiset_union(a, b, cmp),
        SetFn::Difference => set_ops::multiset_difference(a, b, cmp),
        _ => return Outcome::skip("not a tagged subject"),
    };
    let has_dup = |v: &[u8]| v.windows(2).any(|w| w[0] == w[1]);
    let dupc = if has_dup(&c.a) || has_dup(&c.b) { "dup_inputs" } else { "unique_inputs" };
    let show = |v: &[Tagged]| v.iter().map(|t| format!("{}{}{}", t.key, if t.side == 0 { 'a' } else { 'b' }, t.idx)).collect::<Vec<_>>().join(",");
    let detail = |why: &str, exp: &str| {
        format!("{why}: a={:?} b={:?} thr={} (comparator sees keys only; <key><sequence><index>) -> got [{}]{}", c.a, c.b, c.thr, show(&got), exp)
    };
    let keys: Vec<u8> = got.iter().map(|t| t.key).collect();
    let exp_keys = set_reference(fun, &c.a, &c.b);
    if keys != exp_keys {
        return enumr::fail("set_op_result", format!("tagged/wrong_keys/{dupc}"), detail("keys differ from the reference", &format!(", expected keys {:?}", exp_keys)));
    }
    let mut sorted = got.clone();
    sorted.sort();
    if sorted.windows(2).any(|w| w[0] == w[1]) {
        return enumr::fail("set_op_result", format!("tagged/element_emitted_twice/{dupc}"), detail("one input element appears twice in the output", ""));
    }
    let exp: Option<Vec<Tagged>> = match fun {
        SetFn::Inter | SetFn::Inter1Small | SetFn::InterFast => Some(ta.iter().copied().filter(|x| c.b.contains(&x.key)).collect()),
        SetFn::Inter2 | SetFn::Inter2_1Small | SetFn::Inter2Fast => Some(tb.iter().copied().filter(|y| c.a.contains(&y.key)).collect()),
        SetFn::Union => {
            let mut v = ta.clone();
            v.extend_from_slice(&tb);
            Some(v)
        }
        _ => None,
    };
    match exp {
        Some(mut e) => {
            e.sort();
            if sorted != e {
                return enumr::fail("set_op_result", format!("tagged/copied_from_wrong_sequence/{dupc}"), detail("the output is not the documented selection of input elements", &format!(", expected (as a multiset) [{}]", show(&e))));
            }
        }
        None => {
            if got.iter().any(|t| t.side != 0) {
                return enumr::fail("set_op_result", format!("tagged/copied_from_wrong_sequence/{dupc}"), detail("difference must consist of elements of the first sequence", ""));
            }
        }
    }
    let cls = format!("tagged/{dupc}");
    if c.a.is_empty() && c.b.is_empty() {
        Outcome::trivial(&cls)
    } else {
        Outcome::pass(&cls)
    }
}

// ---- ReplaceSelectSort: reused object, cleanup_temp_files off, custom comparator, variable-size items

#[derive(Clone, Debug, Hash, Serialize, Deserialize)]
struct ExtSeqCase {
    /// the inputs given one after the other to ONE sorter object
    inputs: Vec<Keys>,
    /// memory_buffer_size = mem_items * size_of::<item type>()
    mem_items: u8,
    cleanup: bool,
    /// 0 = ReplaceSelectSort::new (Ord), 1 = with_comparator(ascending), 2 = with_comparator(descending)
    cmp: u8,
    /// 0 = u64 items, 1 = String items ("" for 0, otherwise the decimal digits of the key repeated (key mod 3 + 1) times:
    /// variable-size records in the run files)
    item: u8,
}

fn ext_string_item(k: u64) -> String {
    if k == 0 {
        String::new()
    } else {
        k.to_string().repeat((k % 3 + 1) as usize)
    }
}

fn run_ext_seq_typed<T>(c: &ExtSeqCase, inputs: Vec<Vec<T>>) -> Outcome
where
    T: Ord + Clone + Debug + serde::Serialize + DeserializeOwned + 'static,
{
    let dir = ext_tmp_dir().join("seq");
    if std::fs::create_dir_all(&dir).is_err() {
        return Outcome::skip("cannot create temp dir");
    }
    let sz = std::mem::size_of::<T>();
    let cfg = ReplaceSelectSortConfig {
        memory_buffer_size: c.mem_items as usize * sz,
        temp_dir: dir.clone(),
        use_secure_memory: false,
        compress_temp_files: false,
        merge_ways: 16,
        cleanup_temp_files: c.cleanup,
    };
    let cmp_label = ["ord", "cmp-asc", "cmp-desc"][c.cmp as usize % 3];
    // one sorter object for all inputs; the comparator variants have different types, hence the closure
    let results: Vec<Result<Vec<T>, String>> = match c.cmp {
        0 => {
            let mut s = ReplaceSelectSort::<T>::new(cfg);
            inputs.iter().map(|i| s.sort(i.clone()).map_err(|e| e.to_string())).collect()
        }
        1 => {
            let mut s = ReplaceSelectSort::<T, _>::with_comparator(cfg, |a: &T, b: &T| a.cmp(b));
            inputs.iter().map(|i| s.sort(i.clone()).map_err(|e| e.to_string())).collect()
        }
        _ => {
            let mut s = ReplaceSelectSort::<T, _>::with_comparator(cfg, |a: &T, b: &T| b.cmp(a));
            inputs.iter().map(|i| s.sort(i.clone()).map_err(|e| e.to_string())).collect()
        }
    };
    let _ = std::fs::remove_dir_all(&dir);
    let mut spilled = false;
    for (round, (input, res)) in inputs.iter().zip(results.iter()).enumerate() {
        // one class per situation: the first sort of an object depends on the comparator variant only (cleanup_temp_files
        // acts after it); a later sort additionally on what the earlier ones left behind
        let label = if round == 0 { format!("{cmp_label}/first-sort") } else { format!("later-sort/cleanup-{}", if c.cleanup { "on" } else { "off" }) };
        let out = match res {
            Err(e) => return enumr::fail("sort_err", label, format!("sort #{round} of one sorter object returned Err({e}) on {}", brief_vec(input))),
            Ok(o) => o,
        };
        let mut exp = input.clone();
        exp.sort();
        if c.cmp == 2 {
            exp.reverse();
        }
        if out != &exp {
            let mut o = out.clone();
            o.sort();
            let mut e2 = exp.clone();
            e2.sort();
            let sym = if o.len() != e2.len() {
                "len_changed"
            } else if o != e2 {
                "not_permutation"
            } else {
                "not_sorted"
            };
            return enumr::fail(
                "sorted_permutation",
                format!("{sym}/{label}"),
                format!("inputs to one sorter: {:?}; sort #{round} -> got {}, expected {}", inputs.iter().map(|i| brief_vec(i)).collect::<Vec<_>>(), brief_vec(out), brief_vec(&exp)),
            );
        }
        spilled |= input.len() > c.mem_items as usize;
    }
    let cls = format!("{cmp_label}/sorts{}/cleanup-{}/{}", inputs.len(), if c.cleanup { "on" } else { "off" }, if spilled { "spilled" } else { "in-memory" });
    if inputs.iter().all(|i| i.len() < 2) {
        Outcome::trivial(&cls)
    } else {
        Outcome::pass(&cls)
    }
}

fn run_ext_seq(c: &ExtSeqCase) -> Outcome {
    if c.item == 0 {
        run_ext_seq_typed::<u64>(c, c.inputs.iter().map(|k| k.expand(64)).collect())
    } else {
        run_ext_seq_typed::<String>(c, c.inputs.iter().map(|k| k.expand(64).into_iter().map(ext_string_item).collect()).collect())
    }
}

fn ext_seq_gen(tier: Tier, f: &mut dyn FnMut(ExtSeqCase) -> bool) -> bool {
    // (a) one sort, every comparator variant, u64 and String items: S u G of the integer sorts (n <= 257)
    for item in [0u8, 1] {
        for cmp in [1u8, 2, 0] {
            if item == 0 && cmp == 0 {
                continue; // ReplaceSelectSort::new with u64 items is the subject "ReplaceSelectSort"
            }
            for mem_items in [1u8, 3] {
                if !int_inputs(tier, 64, u64::MAX, 257, &mut |keys| {
                    // quick: sequences up to length 5 only (the grid part is kept)
                    if tier == Tier::Quick && matches!(&keys, Keys::Seq(v) if v.len() > 5) {
                        return true;
                    }
                    f(ExtSeqCase { inputs: vec![keys], mem_items, cleanup: true, cmp, item })
                }) {
                    return false;
                }
            }
        }
    }
    // (b) ONE sorter object sorting two / three inputs: all pairs of sequences of length <= 3 over {0,1,2}
    //     x memory {1,2} items x cleanup_temp_files on/off x {Ord, ascending comparator}; triples of length <= 2 (thorough: <= 3 items)
    let mut small: Vec<Vec<u64>> = Vec::new();
    all_strings(&[0u64, 1, 2], 3, &mut |s| {
        small.push(s.to_vec());
        true
    });
    for cleanup in [true, false] {
        // the ascending comparator takes the with_comparator code path without changing the order, so that a failure of a
        // later sort is about reuse and not about the comparator
        for cmp in [0u8, 1] {
            for mem_items in [1u8, 2] {
                for a in &small {
                    for b in &small {
                        if !f(ExtSeqCase { inputs: vec![Keys::Seq(a.clone()), Keys::Seq(b.clone())], mem_items, cleanup, cmp, item: 0 }) {
                            return false;
                        }
                    }
                }
            }
        }
    }
    let tiny: Vec<&Vec<u64>> = small.iter().filter(|s| s.len() <= tier.pick(2, 3)).collect();
    for cleanup in [true, false] {
        for a in &tiny {
            for b in &tiny {
                for c3 in &tiny {
                    let inputs = vec![Keys::Seq((*a).clone()), Keys::Seq((*b).clone()), Keys::Seq((*c3).clone())];
                    if !f(ExtSeqCase { inputs, mem_items: 1, cleanup, cmp: 0, item: 0 }) {
                        return false;
                    }
                }
            }
        }
    }
    // (c) a long input after a short one and vice versa, String items
    for (n1, n2) in [(100u32, 3u32), (3, 100), (257, 16)] {
        for cleanup in [true, false] {
            let inputs = vec![Keys::Grid { shape: KShape::Scrambled, n: n1 }, Keys::Grid { shape: KShape::Reversed, n: n2 }];
            for item in [0u8, 1] {
                if !f(ExtSeqCase { inputs: inputs.clone(), mem_items: 3, cleanup, cmp: 0, item }) {
                    return false;
                }
            }
        }
    }
    true
}

// ---- in-memory sorters and mergers: one object used for several inputs; the Algorithm::execute entry points

#[derive(Clone, Debug, Hash, Serialize, Deserialize)]
struct ReuseCase {
    /// which object / entry point (see `REUSE_KINDS`)
    kind: u8,
    /// inputs given one after the other to the same object
    inputs: Vec<Keys>,
}

const REUSE_KINDS: &[&str] = &[
    "RadixSort: sort_u32, sort_u64, sort_bytes, sort_u32 with one object (parallel threshold 8)",
    "KeyValueRadixSort<u64,u32>: one object",
    "AdvancedRadixSort<u64>[auto, insertion threshold 4, parallel 8]: one object",
    "AdvancedRadixSort<RadixString>[MsdRadix, insertion threshold 2]: one object",
    "AdvancedRadixSort<u32>::with_memory_pool (shared SecureMemoryPool), LsdRadix: one object",
    "CacheObliviousSort[funnel k=2, small_threshold 2]: one object",
    "MultiWayMerge[tournament]: one object merging the input split round-robin into 9 runs, then 2 runs",
    "SetOperations: intersection, union, intersection with one object (input i = way set {x, x+1, x+2})",
    "Algorithm::execute of RadixSort (Vec<u32>)",
    "Algorithm::execute of CacheObliviousSort (Vec<i32>, keys mapped to signed values)",
    "Algorithm::execute of MultiWayMerge (Vec<Vec<i32>>, input split round-robin into 3 runs)",
    "Algorithm::execute of AdvancedRadixSort<u64>",
    "<Vec<u64> as ExternalSort>::external_sort() (default configuration)",
];

fn reuse_inputs() -> Vec<Keys> {
    let mut v = vec![
        Keys::Seq(vec![]),
        Keys::Seq(vec![5]),
        Keys::Seq(vec![2, 0, 1]),
        Keys::Seq(vec![1 << 40, 3, 1 << 33, 3]),
    ];
    for (shape, n) in [
        (KShape::Reversed, 17u32),
        (KShape::Scrambled, 33),
        (KShape::ScrambledFew, 100),
        (KShape::OrganPipe, 300),
        (KShape::WideReversed, 300),
        (KShape::Scrambled, 1000),
    ] {
        v.push(Keys::Grid { shape, n });
    }
    v
}

fn reuse_gen(_tier: Tier, f: &mut dyn FnMut(ReuseCase) -> bool) -> bool {
    let ins = reuse_inputs();
    for kind in 0..REUSE_KINDS.len() as u8 {
        let execute = kind >= 8;
        for a in &ins {
            if execute {
                if !f(ReuseCase { kind, inputs: vec![a.clone()] }) {
                    return false;
                }
                continue;
            }
            for b in &ins {
                if !f(ReuseCase { kind, inputs: vec![a.clone(), b.clone()] }) {
                    return false;
                }
            }
        }
        if !execute {
            // three in a row: long, short, long
            let three = vec![ins[9].clone(), ins[2].clone(), ins[7].clone()];
            if !f(ReuseCase { kind, inputs: three }) {
                return false;
            }
        }
    }
    true
}

fn round_robin(v: &[u64], k: usize) -> Vec<Vec<i32>> {
    let mut s: Vec<u64> = v.to_vec();
    s.sort();
    let mut runs = vec![Vec::new(); k];
    for (i, x) in s.iter().enumerate() {
        runs[i % k].push((*x % 1_000_000) as i32);
    }
    for r in runs.iter_mut() {
        r.sort();
    }
    runs
}

fn run_reuse(c: &ReuseCase) -> Outcome {
    use zipora::algorithms::Algorithm;
    let kind = c.kind as usize;
    let label = format!("kind{kind}/inputs{}", c.inputs.len());
    let fail = |round: usize, what: &str, detail: String| enumr::fail("sorted_permutation", format!("kind{kind}/{}/{what}", if round == 0 { "first-use" } else { "later-use" }), detail);
    macro_rules! check_sorted {
        ($round:expr, $input:expr, $out:expr) => {
            if let Some((sym, d)) = judge_sorted(&$input, &$out) {
                return fail($round, sym, format!("{}: use #{} of one object: {d}", REUSE_KINDS[kind], $round));
            }
        };
    }
    macro_rules! check_ok {
        ($round:expr, $r:expr) => {
            match $r {
                Ok(v) => v,
                Err(e) => return enumr::fail("sort_err", format!("kind{kind}"), format!("{}: use #{} returned Err({e})", REUSE_KINDS[kind], $round)),
            }
        };
    }
    let ins: Vec<Vec<u64>> = c.inputs.iter().map(|k| k.expand(64)).collect();
    match kind {
        0 => {
            let mut s = RadixSort::with_config(RadixSortConfig { use_parallel: true, parallel_threshold: 8, radix_bits: 8, use_counting_sort_threshold: 16, use_simd: true });
            for (round, inp) in ins.iter().enumerate() {
                let i32v: Vec<u32> = inp.iter().map(|&x| x as u32).collect();
                let mut d = i32v.clone();
                check_ok!(round, s.sort_u32(&mut d));
                check_sorted!(round, i32v, d);
                let mut d = inp.clone();
                check_ok!(round, s.sort_u64(&mut d));
                check_sorted!(round, inp, d);
                let bytes: Vec<Vec<u8>> = inp.iter().map(|x| x.to_be_bytes()[(x % 8) as usize..].to_vec()).collect();
                let mut d = bytes.clone();
                check_ok!(round, s.sort_bytes(&mut d));
                check_sorted!(round, bytes, d);
                let mut d = i32v.clone();
                d.reverse();
                let rev = d.clone();
                check_ok!(round, s.sort_u32(&mut d));
                check_sorted!(round, rev, d);
            }
        }
        1 => {
            let s = KeyValueRadixSort::<u64, u32>::new();
            for (round, inp) in ins.iter().enumerate() {
                let pairs: Vec<(u64, u32)> = inp.iter().enumerate().map(|(i, &k)| (k, i as u32)).collect();
                let mut d = pairs.clone();
                check_ok!(round, s.sort_by_key(&mut d));
                let by_key = d.windows(2).all(|w| w[0].0 <= w[1].0);
                let mut a = d.clone();
                a.sort();
                let mut b = pairs.clone();
                b.sort();
                if !by_key || a != b {
                    return fail(round, "kv", format!("{}: use #{round}: input {} -> got {}", REUSE_KINDS[kind], brief_vec(&pairs), brief_vec(&d)));
                }
            }
        }
        2 | 11 => {
            let cfg = AdvancedRadixSortConfig {
                use_secure_memory: false,
                use_parallel: true,
                parallel_threshold: 8,
                insertion_sort_threshold: 4,
                ..AdvancedRadixSortConfig::default()
            };
            let mut s = check_ok!(0, AdvancedRadixSort::<u64>::with_config(cfg.clone()));
            for (round, inp) in ins.iter().enumerate() {
                if kind == 11 {
                    let out = check_ok!(round, s.execute(&cfg, inp.clone()));
                    check_sorted!(round, inp, out);
                } else {
                    let mut d = inp.clone();
                    check_ok!(round, s.sort(&mut d));
                    check_sorted!(round, inp, d);
                }
            }
        }
        3 => {
            let cfg = AdvancedRadixSortConfig {
                use_secure_memory: false,
                force_strategy: Some(SortingStrategy::MsdRadix),
                insertion_sort_threshold: 2,
                ..AdvancedRadixSortConfig::default()
            };
            let owned: Vec<Vec<Vec<u8>>> = ins.iter().map(|inp| inp.iter().map(|x| x.to_be_bytes()[(x % 8) as usize..].to_vec()).collect()).collect();
            let mut s = check_ok!(0, AdvancedRadixSort::<RadixString>::with_config(cfg));
            for (round, strs) in owned.iter().enumerate() {
                let input: Vec<RadixString> = strs.iter().map(|b| RadixString::new(b)).collect();
                let mut d = input.clone();
                check_ok!(round, s.sort(&mut d));
                let got: Vec<Vec<u8>> = d.iter().map(|r| r.as_slice().to_vec()).collect();
                check_sorted!(round, strs, got);
            }
        }
        4 => {
            let pool = match zipora::memory::SecureMemoryPool::new(zipora::memory::SecurePoolConfig::small_secure()) {
                Ok(p) => p,
                Err(_) => return Outcome::skip("cannot create SecureMemoryPool"),
            };
            let cfg = AdvancedRadixSortConfig { force_strategy: Some(SortingStrategy::LsdRadix), use_parallel: false, ..AdvancedRadixSortConfig::default() };
            let mut s = AdvancedRadixSort::<u32>::with_memory_pool(cfg, pool);
            for (round, inp) in ins.iter().enumerate() {
                let v: Vec<u32> = inp.iter().map(|&x| x as u32).collect();
                let mut d = v.clone();
                check_ok!(round, s.sort(&mut d));
                check_sorted!(round, v, d);
            }
        }
        5 | 9 => {
            let cc = CoCase { keys: Keys::Seq(vec![]), path: CoPath::Funnel, k: 2, small_thr: 2, simd: true };
            let cfg = co_config(&cc, 0, 8);
            let mut s = CacheObliviousSort::with_config(cfg.clone());
            for (round, inp) in ins.iter().enumerate() {
                if kind == 9 {
                    // signed items: the upper half of the key range becomes negative
                    let v: Vec<i32> = inp.iter().map(|&x| (x as u32) as i32).collect();
                    let out = check_ok!(round, s.execute(&cfg, v.clone()));
                    check_sorted!(round, v, out);
                } else {
                    let mut d = inp.clone();
                    check_ok!(round, s.sort(&mut d));
                    check_sorted!(round, inp, d);
                }
            }
        }
        6 | 10 => {
            let cfg = MultiWayMergeConfig { use_tournament_tree: true, ..MultiWayMergeConfig::default() };
            let mut m = MultiWayMerge::with_config(cfg.clone());
            for (round, inp) in ins.iter().enumerate() {
                let ks: &[usize] = if kind == 10 { &[3] } else { &[9, 2] };
                for &k in ks {
                    let runs = round_robin(inp, k);
                    let mut exp: Vec<i32> = runs.iter().flatten().copied().collect();
                    exp.sort();
                    let out: Vec<i32> = if kind == 10 {
                        check_ok!(round, m.execute(&cfg, runs.clone()))
                    } else {
                        check_ok!(round, m.merge(runs.iter().map(|r| VectorSource::new(r.clone())).collect::<Vec<_>>()))
                    };
                    if out != exp {
                        return enumr::fail("merge_union", format!("kind{kind}/{}", if round == 0 { "first-use" } else { "later-use" }), format!("{}: use #{round}, {k} runs: got {}, expected {}", REUSE_KINDS[kind], brief_vec(&out), brief_vec(&exp)));
                    }
                }
            }
        }
        7 => {
            let mut so = SetOperations::new();
            for (round, inp) in ins.iter().enumerate() {
                let mut base: Vec<u64> = inp.iter().map(|x| x % 1000).collect();
                base.sort();
                base.dedup();
                let ways: Vec<Vec<u64>> = (0..3u64).map(|w| base.iter().map(|x| x + w).collect::<Vec<u64>>()).map(|mut v| { v.sort(); v.dedup(); v }).collect();
                let its = || ways.iter().map(|w| w.clone().into_iter()).collect::<Vec<_>>();
                let exp_i: Vec<u64> = ways[0].iter().copied().filter(|x| ways[1].contains(x) && ways[2].contains(x)).collect();
                let mut exp_u: Vec<u64> = ways.iter().flatten().copied().collect();
                exp_u.sort();
                exp_u.dedup();
                for step in 0..3 {
                    let (got, exp, what) = if step == 1 { (check_ok!(round, so.union(its())), &exp_u, "union") } else { (check_ok!(round, so.intersection(its())), &exp_i, "intersection") };
                    if &got != exp {
                        return enumr::fail("set_op_result", format!("kind{kind}/{}", if round == 0 && step == 0 { "first-use" } else { "later-use" }), format!("{}: input #{round}, call {step} ({what}) on ways {:?}: got {}, expected {}", REUSE_KINDS[kind], ways.iter().map(|w| brief_vec(w)).collect::<Vec<_>>(), brief_vec(&got), brief_vec(exp)));
                    }
                }
            }
        }
        12 => {
            for (round, inp) in ins.iter().enumerate() {
                let mut d = inp.clone();
                check_ok!(round, d.external_sort());
                check_sorted!(round, inp, d);
            }
        }
        8 => {
            let cfg = RadixSortConfig { use_parallel: true, parallel_threshold: 8, radix_bits: 11, use_counting_sort_threshold: 0, use_simd: true };
            let s = RadixSort::new();
            for (round, inp) in ins.iter().enumerate() {
                let v: Vec<u32> = inp.iter().map(|&x| x as u32).collect();
                let out = check_ok!(round, s.execute(&cfg, v.clone()));
                check_sorted!(round, v, out);
            }
        }
        _ => return Outcome::skip("unknown kind"),
    }
    if ins.iter().all(|i| i.len() < 2) {
        Outcome::trivial(&label)
    } else {
        Outcome::pass(&label)
    }
}

/// Run, outside the explorer, the witnesses of the two former process-killing case families (harmless since ae3b25e / e193009):
///   c11 --crash-witness funnel          small_threshold 1, funnel width 2, 4 items      -> stack overflow (SIGSEGV/abort)
///   c11 --crash-witness funnel-default  CacheObliviousConfig::default(), 2^21 u64 items -> stack overflow
///   c11 --crash-witness counting        RadixSort::new().sort_u32(&mut [u32::MAX])      -> 32 GiB of counters
fn crash_witness(which: &str) {
    match which {
        "funnel" => {
            let c = CoCase { keys: Keys::Seq(vec![3, 2, 1, 0]), path: CoPath::Funnel, k: 2, small_thr: 1, simd: true };
            let mut data = c.keys.expand(64);
            let mut sorter = CacheObliviousSort::with_config(co_config(&c, data.len(), 8));
            eprintln!("sorting {:?} with small_threshold=1, l2_size=256, l2_line_size=64 ...", data);
            let r = sorter.sort(&mut data);
            eprintln!("returned {:?}: {:?}", r.is_ok(), data);
        }
        "funnel-default" => {
            let n = 1usize << 21;
            let mut data: Vec<u64> = (0..n as u64).rev().collect();
            let mut sorter = CacheObliviousSort::new();
            eprintln!("sorting {n} reversed u64 with CacheObliviousConfig::default() ...");
            let r = sorter.sort(&mut data);
            eprintln!("returned {:?}, sorted = {}", r.is_ok(), data.windows(2).all(|w| w[0] <= w[1]));
        }
        "counting" => {
            let mut data = vec![u32::MAX];
            let t = std::time::Instant::now();
            let r = RadixSort::new().sort_u32(&mut data);
            eprintln!("sort_u32([u32::MAX]) returned {:?} after {:?}", r.is_ok(), t.elapsed());
        }
        _ => eprintln!("unknown witness {which}"),
    }
}

fn main() {
    let argv: Vec<String> = std::env::args().collect();
    if let Some(i) = argv.iter().position(|a| a == "--crash-witness") {
        crash_witness(argv.get(i + 1).map(|s| s.as_str()).unwrap_or(""));
        return;
    }
    // deterministic chunking in the parallel paths (chunk = ceil(n / workers)) and fewer threads per shard
    if std::env::var_os("RAYON_NUM_THREADS").is_none() {
        std::env::set_var("RAYON_NUM_THREADS", "4");
    }
    zverif::main_with("C11", |reg, _tier| {
        add(reg, "RadixSort::sort_u32", &format!("{INT_SPACE} x radix_bits {{1,4,8,11,16}} x parallel {{off, threshold 1,4,16}} x counting threshold {{0,4,256}} (keys <= 2^16 when counting is enabled, plus 3 cases with 2^24); radix_bits {{3,13}} x parallel {{off,4}}; G: keys 1023/1024/1025/4000/65537/2^20 (the counting path is refused above 4*max(len,256)) x counting threshold {{1,2,4,256,1000}} x parallel {{off,16}}, and n in {{256,257,342,343,999,1000,1001}} shapes with counting threshold 1000"), radix_gen(false), run_radix_u32);
        add(reg, "RadixSort::sort_u64", &format!("{INT_SPACE} x radix_bits {{1,4,8,11,16}} x parallel {{off, threshold 1,4,16}}; radix_bits {{3,13}} x parallel {{off,4}}"), radix_gen(true), run_radix_u64);
        add(reg, "RadixSort::sort_bytes", &format!("{STR_SPACE_DENSE}{STR_SPACE}"), |t, f| str_inputs_dense(t, f), run_sort_bytes);

        add(reg, "KeyValueRadixSort::sort_by_key", &format!("key types u32 and u64 x {INT_SPACE}; value = original index; default config (the type offers no other); thorough adds n=20001 (parallel split)"), kv_gen, run_kv_case);

        // LsdRadix first: known findings with subject "AdvancedRadixSort[*" are replayed on the matching subjects in registration order
        let mut strats = vec![Strat::Forced(SortingStrategy::LsdRadix)];
        strats.extend(ALL_STRATS.iter().copied().filter(|s| *s != Strat::Forced(SortingStrategy::LsdRadix)));
        for strat in strats {
            add(
                reg,
                &format!("AdvancedRadixSort[{}]", strat.label()),
                &format!("item types u32, u64 ({INT_SPACE}) and RadixString ({STR_SPACE}) x config grid: LsdRadix: radix_bits {{1,4,8,11,16}} x parallel {{off,1,4,16}} x simd on/off (+ num_threads 1, 3, 7, 64, secure pool); MsdRadix: insertion threshold {{0,2,100}}; auto: insertion threshold {{0,2,100}} x parallel {{off,4}} x simd; others: secure pool on/off"),
                adv_gen(strat),
                move |c: &AdvCase| run_adv(strat, c),
            );
        }

        for path in [CoPath::L1, CoPath::L2, CoPath::L3, CoPath::Funnel, CoPath::DirectFunnel, CoPath::HybridAware, CoPath::HybridFunnel, CoPath::Default, CoPath::FunnelNoAvx2, CoPath::L1NoAvx2] {
            add(
                reg,
                &format!("CacheObliviousSort[{:?}]", path),
                &format!("{INT_SPACE} (u64 items; u128 for L2/L3) x config: funnel width k in {{2,3,4,9,16,64}} x small_threshold {{1,2,4,16,1024}} for the funnel paths, simd on/off for L1; FunnelNoAvx2 / L1NoAvx2: cpu_features.has_avx2 = has_sse42 = false in the config, funnel k {{2,9}} x small_threshold {{1,16}}; Default adds n in {{4095,4096,4097,8193}} (thorough: + 2^21 scrambled); cases whose funnel recursion hands a width-1 node more than small_threshold items (class funnel-width1-node) are included since the width clamp of zipora e193009"),
                co_gen(path),
                run_co,
            );
        }
        add(reg, "ReplaceSelectSort", &format!("ReplaceSelectSort::sort: item types u64,u32 x {INT_SPACE} (n <= 257) x memory budget {{<1,1,2,3}} items x merge_ways {{2,3,16}} (+ secure pool for one point); <Vec<u64> as ExternalSort>::external_sort_with_config: same inputs x memory budget, merge_ways 2; temp dir /dev/shm/zverif/c11-ext-<pid> created and removed per case"), ext_gen, run_ext);

        const WIDE_SPACE: &str = "G: k in {6,7,8,9,16,17,33} runs fed round-robin from (i/3) for i < n, n in {k-1, 2k+1, 5k}, with and without every 4th run empty, and k blocks of 5 in ascending / descending run order";
        add(reg, "MultiWayMerge[heap]", &format!("{MERGE_SPACE}; {WIDE_SPACE}"), |t, f| merge_gen(&[0], 4, 4)(t, f) && explicit_runs_gen(wide_merge_runs, &[0])(t, f), run_multiway);
        add(reg, "MultiWayMerge[hierarchical]", &format!("{MERGE_SPACE}; max_merge_ways = 2"), merge_gen(&[2, 3], 4, 4), run_multiway);
        add(reg, "MultiWayMerge[tournament]", &format!("use_tournament_tree = true: {MERGE_SPACE} (<= 8 sources: heap path) ∪ the same tuples + 5 fixed runs [],[0],[1,1],[2],[0,1,2] (9 sources: tournament path); thorough adds all 4^9 tuples of nine runs of length <= 1"), |t, f| merge_gen(&[1, 5], 4, 4)(t, f) && nine_gen(t, f) && explicit_runs_gen(wide_merge_runs, &[1])(t, f), run_multiway);
        add(reg, "MergeOperations::{merge_two,merge_in_place}", "all pairs of sorted runs of length <= 4 (quick) / <= 6 (thorough) over {0,1,2}; merge_in_place on a ++ b with mid = |a|", pair_gen(&[0, 1]), run_merge_ops);
        add(reg, "EnhancedLoserTree", &format!("0..4 ways: {MERGE_SPACE} x (stable_sort, cache_optimized) in {{(1,1),(0,0),(1,0),(0,1)}} via merge_to_vec, and (1,1),(0,0) via initialize()+peek()/next(); 5 ways: all 5-tuples of runs of length <= 1 (quick) / <= 2 (thorough); secure pool: <= 2 ways; {WIDE_SPACE} x {{(1,1) merge_to_vec, (1,1) iterator, (0,0)}}; iterator mode also checks num_ways() and is_empty() before every pop"), loser_gen, run_loser_tree);
        add(reg, "SimdComparator::merge_sorted_i32", "all pairs of sorted runs of length <= 3 (quick) / <= 4 (thorough) over {MIN,-1,0,2,MAX}; G = lengths {0,1,7,8,9,15,16,17,33,100}^2 x {interleaved, left smaller, right smaller, all equal}; x (min_vector_size, use_avx2) in {(1,on),(8,on),(1,off)}", simd_gen, run_simd);
        add(reg, "SimdOperations::merge_multiple_sorted", &format!("{MERGE_SPACE}; G (the default SimdComparator takes its AVX2 path from 16 items per pair on): k in {{2,3,5,8,9}} arrays of 8, 9, 17 (and len + way) items, interleaved / ascending blocks / descending blocks; {WIDE_SPACE}"), |t, f| merge_gen(&[0], 4, 4)(t, f) && explicit_runs_gen(long_multi_runs, &[0])(t, f) && explicit_runs_gen(wide_merge_runs, &[0])(t, f), run_simd_multi);
        add(reg, "EnhancedLoserTree[with_comparator]", &format!("EnhancedLoserTree::with_comparator(descending order) on the runs reversed: all tuples of <= 3 (quick) / <= 4 (thorough) sorted runs of length <= 3 over {{0,1,2}} x (stable+cache-optimized via merge_to_vec, the same via initialize()+peek()/next() with num_ways()/is_empty() observed, neither); {WIDE_SPACE}"), loser_cmp_gen, run_loser_tree_cmp);

        for &(fun, name) in ALL_SETFNS {
            add(
                reg,
                &format!("set_ops::{name}"),
                "all pairs of sorted multisets of length <= 4 over {0,1,2} (quick) / <= 5 over {0,1,2,3} (thorough); fast variants x ratio threshold {0,1,2,32}; 1small/fast variants additionally against one 100-element sequence; G2 (every two-sequence function): sequences of length <= 3 over {0,7,14} / {0,7,255} / {5,6,250} against three 100-element sequences (triples 0..33, odd values 1..199, runs 1^40 5^40 250^20) in both argument orders; set_unique: one sorted multiset of length <= 9",
                setfn_gen(fun),
                move |c: &PairCase| run_setfn(fun, c),
            );
        }
        const MANY_SPACE: &str = "G: k in {31,32,33} (thorough: + 64,65) ways: all [0,1,2]; one way (first / last / 31 / 32) lacking the 1; all [0,1,1,2] but one with a single 1; one empty way among [1]s; way i = [i mod 3]";
        for &(fun, name) in TAGGED_SETFNS {
            add(
                reg,
                &format!("set_ops::{name}[tagged]"),
                "the space of the untagged subject, every element carrying (sequence, index) and the comparator looking at the key only: the output must be the documented selection of INPUT ELEMENTS (intersection: from the first sequence; intersection2: from the second; union: all; difference: from the first), none emitted twice",
                setfn_gen(fun),
                move |c: &PairCase| run_setfn_tagged(fun, c),
            );
        }
        add(reg, "ReplaceSelectSort[reuse,comparator,strings]", "(a) one sort: ReplaceSelectSort::with_comparator(ascending / descending) for u64 items and new / with_comparator for String items (variable-size run records) x the integer S u G (n <= 257; quick: sequences <= 5) x memory {1,3} items; (b) ONE sorter object sorting two inputs after each other: all pairs of sequences of length <= 3 over {0,1,2} x memory {1,2} items x cleanup_temp_files on/off x {Ord, with_comparator(ascending)}, and all triples of sequences of length <= 2 (thorough: <= 3); (c) long after short and short after long (100/3, 3/100, 257/16 items), u64 and String", ext_seq_gen, run_ext_seq);
        add(reg, "reused objects / Algorithm::execute", &format!("kinds: {}; inputs: all ordered pairs (execute: single inputs) of [], [5], [2,0,1], [2^40,3,2^33,3], reversed 17, scrambled 33, scrambled-few 100, organ pipe 300, wide reversed 300, scrambled 1000, plus one long-short-long triple; every result of every use is judged", REUSE_KINDS.iter().enumerate().map(|(i, k)| format!("({i}) {k}")).collect::<Vec<_>>().join("; ")), reuse_gen, run_reuse);
        for (op, name) in [
            (KOp::Union, "SetOperations::union"),
            (KOp::Frequencies, "SetOperations::count_frequencies"),
            (KOp::FilterMerge, "SetOperations::filter_merge"),
        ] {
            add(reg, name, &format!("{MERGE_SPACE} (quick: <= 3 runs); {MANY_SPACE}"), |t, f| merge_gen(&[0], 3, 4)(t, f) && many_ways_gen(&[0])(t, f), move |c: &MergeCase| run_kop(op, c));
        }
        add(reg, "SetOperations::intersection", &format!("{MERGE_SPACE} (quick: <= 3 runs) x variant {{bit-mask path (default), use_bit_mask_optimization=false, bit_mask_threshold=1}}; all variants are compared with the same k-way min-multiplicity reference, i.e. with each other; {MANY_SPACE} x {{default (bit mask up to 32 ways, general above), use_bit_mask_optimization=false, bit_mask_threshold=64}}"), |t, f| merge_gen(&[0, 1, 2], 3, 4)(t, f) && many_ways_gen(&[0, 1, 3])(t, f), |c: &MergeCase| run_kop(KOp::Inter, c));
    });
}
