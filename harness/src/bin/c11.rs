//! C11 — sorts, merges and set operations produce the mathematically defined result (engine E2).
//!
//! Every subject is an `EnumSpec` built from two closures (`gen` enumerates the stated space in a fixed
//! order, `run` executes the real zipora code on one case and judges it with a reference function):
//! `slice::sort` on a copy for sorts, the sorted concatenation for merges, and definitional
//! (non two-pointer) set-operation references for `set_ops` / `SetOperations`.
//!
//! Case families that can kill the process on the unchanged tree are *not generated* (see notes/C11.md):
//!  * `RadixSort::sort_u32` counting-sort path with keys > 2^24 (allocates `max_key+1` counters = up to 32 GiB),
//!  * `CacheObliviousSort` funnel recursion reaching width 1 above `small_threshold` (unbounded recursion,
//!    stack overflow).  `c11 --crash-witness funnel` reproduces the latter outside the explorer.

use serde::{de::DeserializeOwned, Deserialize, Serialize};
use std::cmp::Ordering;
use std::fmt::Debug;
use std::hash::Hash;
use zverif::enumr::{self, Enum, EnumSpec};
use zverif::util::{all_strings, hex, unhex};
use zverif::{Outcome, Registry, Tier};

use zipora::algorithms::cache_oblivious::{CacheObliviousConfig, CacheObliviousSort};
use zipora::algorithms::external_sort::{ExternalSort, ReplaceSelectSort, ReplaceSelectSortConfig};
use zipora::algorithms::multiway_merge::{MergeOperations, MultiWayMerge, MultiWayMergeConfig, VectorSource};
use zipora::algorithms::radix_sort::{
    AdvancedRadixSort, AdvancedRadixSortConfig, CpuFeatures as RadixCpu, KeyValueRadixSort, RadixSort, RadixSortConfig, RadixSortable,
    RadixString, SortingStrategy,
};
use zipora::algorithms::set_operations::{SetOperations, SetOperationsConfig};
use zipora::algorithms::set_ops;
use zipora::algorithms::simd_merge::{SimdComparator, SimdConfig, SimdOperations};
use zipora::algorithms::tournament_tree::{EnhancedLoserTree, LoserTreeConfig};
use zipora::memory::cache_layout::CacheHierarchy;

// ------------------------------------------------------------------------------------------------
// generic closure-based spec

type Gen<C> = Box<dyn Fn(Tier, &mut dyn FnMut(C) -> bool) -> bool>;

struct Spec<C> {
    name: String,
    space: String,
    gen: Gen<C>,
    run: Box<dyn Fn(&C) -> Outcome>,
}

impl<C: Serialize + DeserializeOwned + Hash + Clone> EnumSpec for Spec<C> {
    type Case = C;
    fn name(&self) -> String {
        self.name.clone()
    }
    fn space(&self, tier: Tier) -> String {
        format!("[{}] {}", tier.name(), self.space)
    }
    fn cases(&self, tier: Tier, f: &mut dyn FnMut(C) -> bool) {
        (self.gen)(tier, f);
    }
    fn run(&self, c: &C) -> Outcome {
        (self.run)(c)
    }
}

fn add<C: Serialize + DeserializeOwned + Hash + Clone + 'static>(
    reg: &mut Registry,
    name: &str,
    space: &str,
    gen: impl Fn(Tier, &mut dyn FnMut(C) -> bool) -> bool + 'static,
    run: impl Fn(&C) -> Outcome + 'static,
) {
    reg.add(Enum(Spec { name: name.to_string(), space: space.to_string(), gen: Box::new(gen), run: Box::new(run) }));
}

// ------------------------------------------------------------------------------------------------
// integer inputs

#[derive(Clone, Copy, Debug, PartialEq, Eq, Hash, Serialize, Deserialize)]
enum KShape {
    /// 3*i
    Sorted,
    /// 3*(n-i)
    Reversed,
    /// 7 everywhere
    AllEqual,
    /// ((37 i + 11) mod 256) << (bits-8): keys that differ only in the highest byte
    HighByteOnly,
    /// 0,1,..,n/2,..,1,0
    OrganPipe,
    /// i * floor((2^bits-1)/n): sorted, every digit position in use
    WideSorted,
    /// the reverse of WideSorted
    WideReversed,
}

const NARROW_SHAPES: &[KShape] = &[KShape::Sorted, KShape::Reversed, KShape::AllEqual, KShape::OrganPipe];
const ALL_KSHAPES: &[KShape] =
    &[KShape::Sorted, KShape::Reversed, KShape::AllEqual, KShape::HighByteOnly, KShape::OrganPipe, KShape::WideSorted, KShape::WideReversed];

#[derive(Clone, Debug, PartialEq, Eq, Hash, Serialize, Deserialize)]
enum Keys {
    Seq(Vec<u64>),
    Grid { shape: KShape, n: u32 },
}

fn trunc(v: u64, bits: u32) -> u64 {
    if bits >= 64 {
        v
    } else {
        v & ((1u64 << bits) - 1)
    }
}

impl Keys {
    fn expand(&self, bits: u32) -> Vec<u64> {
        match self {
            Keys::Seq(v) => v.iter().map(|&x| trunc(x, bits)).collect(),
            Keys::Grid { shape, n } => {
                let n = *n as usize;
                let maxv = trunc(u64::MAX, bits);
                let step = maxv / (n.max(1) as u64);
                (0..n)
                    .map(|i| match shape {
                        KShape::Sorted => 3 * i as u64,
                        KShape::Reversed => 3 * (n - i) as u64,
                        KShape::AllEqual => 7,
                        KShape::HighByteOnly => (((i * 37 + 11) % 256) as u64) << (bits - 8),
                        KShape::OrganPipe => (if i < n / 2 { i } else { n - 1 - i }) as u64,
                        KShape::WideSorted => step * i as u64,
                        KShape::WideReversed => step * (n - 1 - i) as u64,
                    })
                    .collect()
            }
        }
    }
}

const HIGH64: &[u64] = &[0, 1, 255, 256, 65535, 65536, 1 << 24, 1 << 31, (1 << 32) - 1, 1 << 32, 1 << 56, 1 << 63, u64::MAX];

fn high_alphabet(bits: u32, cap: u64) -> Vec<u64> {
    let mut v: Vec<u64> = Vec::new();
    for &x in HIGH64 {
        let t = trunc(x, bits);
        if t <= cap && !v.contains(&t) {
            v.push(t);
        }
    }
    v
}

/// lengths straddling: insertion/counting thresholds 2,4,100,256; parallel thresholds 1,4,16 (x2: 2,8,32);
/// SIMD block sizes 8/16; rayon chunking with 3/4 workers
const GLEN: &[usize] = &[0, 1, 2, 3, 4, 5, 7, 8, 9, 15, 16, 17, 31, 32, 33, 63, 64, 65, 99, 100, 101, 255, 256, 257, 1000];

/// S ∪ G for integer sorts.  `cap` bounds the key values (u64::MAX = no cap), `max_n` bounds grid lengths.
fn int_inputs(tier: Tier, bits: u32, cap: u64, max_n: usize, f: &mut dyn FnMut(Keys) -> bool) -> bool {
    let small_len = tier.pick(7, 9);
    if !all_strings(&[0u64, 1, 2], small_len, &mut |s| f(Keys::Seq(s.to_vec()))) {
        return false;
    }
    let high = high_alphabet(bits, cap);
    // length-0 and the pure {0,1} sequences were already produced above: skip exact repeats
    if !all_strings(&high, 3, &mut |s| if s.iter().all(|&x| x <= 2) { true } else { f(Keys::Seq(s.to_vec())) }) {
        return false;
    }
    for &n in GLEN {
        if n > max_n {
            continue;
        }
        for &shape in ALL_KSHAPES {
            let k = Keys::Grid { shape, n: n as u32 };
            if cap != u64::MAX && k.expand(bits).iter().any(|&x| x > cap) {
                continue;
            }
            if !f(k) {
                return false;
            }
        }
    }
    true
}

const INT_SPACE: &str = "S = all sequences over {0,1,2} of length <= 7 (quick) / <= 9 (thorough) ∪ all sequences of length <= 3 over \
{0,1,255,256,65535,65536,2^24,2^31,2^32-1,2^32,2^56,2^63,MAX} truncated to the key type; G = lengths \
{0,1,2,3,4,5,7,8,9,15,16,17,31,32,33,63,64,65,99,100,101,255,256,257,1000} x {sorted, reversed, all equal, high-byte-only, organ pipe, wide sorted, wide reversed}";

fn brief_vec<T: Debug>(v: &[T]) -> String {
    if v.len() <= 20 {
        format!("{:?}", v)
    } else {
        format!("[len {}] {:?}..{:?}", v.len(), &v[..10], &v[v.len() - 4..])
    }
}

/// The sort oracle: `out` must equal `input` sorted.  Returns (symptom, detail).
fn judge_sorted<T: Ord + Clone + Debug>(input: &[T], out: &[T]) -> Option<(&'static str, String)> {
    let mut exp = input.to_vec();
    exp.sort();
    if out == &exp[..] {
        return None;
    }
    let sym = if out.len() != exp.len() {
        "len_changed"
    } else {
        let mut o = out.to_vec();
        o.sort();
        if o != exp {
            "not_permutation"
        } else {
            "not_sorted"
        }
    };
    Some((sym, format!("input {} -> got {}, expected {}", brief_vec(input), brief_vec(out), brief_vec(&exp))))
}

fn key_class(keys: &[u64]) -> &'static str {
    match keys.iter().copied().max().unwrap_or(0) {
        0..=0xFF => "k8",
        0x100..=0xFFFF => "k16",
        0x1_0000..=0xFFFF_FFFF => "k32",
        _ => "k64",
    }
}

fn len_class(n: usize) -> &'static str {
    if n < 16 {
        "n<16"
    } else {
        "n>=16"
    }
}

// ------------------------------------------------------------------------------------------------
// RadixSort::{sort_u32, sort_u64}

#[derive(Clone, Debug, Hash, Serialize, Deserialize)]
struct RadixCase {
    keys: Keys,
    /// radix_bits
    bits: u8,
    /// 0 = use_parallel false; otherwise parallel_threshold
    par: u32,
    /// use_counting_sort_threshold (u32 only)
    count_thr: u32,
}

/// above this key the counting-sort path (one counter per key value) is left out: it allocates 8*(max+1) bytes
const COUNTING_KEY_CAP: u64 = 1 << 16;

fn radix_cfg(c: &RadixCase) -> RadixSortConfig {
    RadixSortConfig {
        use_parallel: c.par > 0,
        parallel_threshold: if c.par > 0 { c.par as usize } else { 10_000 },
        radix_bits: c.bits as usize,
        use_counting_sort_threshold: c.count_thr as usize,
        use_simd: true,
    }
}

fn radix_path(c: &RadixCase, n: usize, with_counting: bool) -> String {
    if n == 0 {
        return "empty".into();
    }
    let thr = c.par as usize;
    let base = if c.par > 0 && n >= thr {
        if n < 2 * thr {
            "par-fallback-seq"
        } else {
            "par-merge"
        }
    } else {
        "seq"
    };
    let counting = with_counting && c.count_thr > 0 && (base == "par-merge" || n <= c.count_thr as usize);
    format!("{}{}/bits{}", base, if counting { "+counting" } else { "" }, c.bits)
}

fn radix_gen(wide: bool) -> impl Fn(Tier, &mut dyn FnMut(RadixCase) -> bool) -> bool {
    move |tier, f| {
        let bits_grid: &[u8] = &[1, 4, 8, 11, 16];
        let par_grid: &[u32] = &[0, 1, 4, 16];
        let count_grid: &[u32] = if wide { &[0] } else { &[0, 4, 256] };
        for &bits in bits_grid {
            for &par in par_grid {
                for &count_thr in count_grid {
                    let cap = if count_thr > 0 { COUNTING_KEY_CAP } else { u64::MAX };
                    let kb = if wide { 64 } else { 32 };
                    // 16-bit radix: 65536 counters are refilled per pass and per chunk; keep those grids shorter
                    let max_n = if bits == 16 && par > 0 { 257 } else { 1000 };
                    if !int_inputs(tier, kb, cap, max_n, &mut |keys| f(RadixCase { keys, bits, par, count_thr })) {
                        return false;
                    }
                }
            }
        }
        // three explicit counting-sort cases with a 2^24 key (128 MiB of counters each)
        if !wide {
            for seq in [vec![1u64 << 24], vec![1 << 24, 0], vec![1, 1 << 24, 1 << 24]] {
                if !f(RadixCase { keys: Keys::Seq(seq), bits: 8, par: 0, count_thr: 256 }) {
                    return false;
                }
            }
        }
        true
    }
}

fn run_radix_u32(c: &RadixCase) -> Outcome {
    let keys = c.keys.expand(32);
    let maxk = keys.iter().copied().max().unwrap_or(0);
    if c.count_thr > 0 && maxk > (1 << 24) {
        return Outcome::skip("left out: counting-sort path with key > 2^24 (allocates 8*(max+1) bytes)");
    }
    let input: Vec<u32> = keys.iter().map(|&k| k as u32).collect();
    let mut data = input.clone();
    let mut sorter = RadixSort::with_config(radix_cfg(c));
    let path = radix_path(c, input.len(), true);
    match sorter.sort_u32(&mut data) {
        Err(e) => enumr::fail("sort_err", path, format!("sort_u32 returned Err({e}) on {}", brief_vec(&input))),
        Ok(()) => match judge_sorted(&input, &data) {
            Some((sym, d)) => enumr::fail("sorted_permutation", format!("{sym}/{path}/{}", key_class(&keys)), d),
            None if input.len() < 2 => Outcome::trivial(&path),
            None => Outcome::pass(&path),
        },
    }
}

fn run_radix_u64(c: &RadixCase) -> Outcome {
    let input = c.keys.expand(64);
    let mut data = input.clone();
    let mut sorter = RadixSort::with_config(radix_cfg(c));
    let path = radix_path(c, input.len(), false);
    match sorter.sort_u64(&mut data) {
        Err(e) => enumr::fail("sort_err", path, format!("sort_u64 returned Err({e}) on {}", brief_vec(&input))),
        Ok(()) => match judge_sorted(&input, &data) {
            Some((sym, d)) => enumr::fail("sorted_permutation", format!("{sym}/{path}/{}", key_class(&input)), d),
            None if input.len() < 2 => Outcome::trivial(&path),
            None => Outcome::pass(&path),
        },
    }
}

// ------------------------------------------------------------------------------------------------
// byte-string inputs

#[derive(Clone, Copy, Debug, PartialEq, Eq, Hash, Serialize, Deserialize)]
enum SShape {
    /// "k" + 3 decimal digits of i (sorted)
    Sorted,
    Reversed,
    /// "abc" n times
    AllEqual,
    /// 12 equal bytes, then the scrambled counter: strings that differ only after the 8th byte
    LongCommonPrefix,
    OrganPipe,
    /// "", "a", "aa", ... presented longest first: every string is a prefix of the previous one
    PrefixChain,
    /// one byte (37 i + 11) mod 256 followed by 0xFF: differs in the first byte only, includes 0x00 and 0xFF
    FirstByte,
}

const ALL_SSHAPES: &[SShape] =
    &[SShape::Sorted, SShape::Reversed, SShape::AllEqual, SShape::LongCommonPrefix, SShape::OrganPipe, SShape::PrefixChain, SShape::FirstByte];

#[derive(Clone, Debug, PartialEq, Eq, Hash, Serialize, Deserialize)]
enum Strs {
    /// hex strings
    List(Vec<String>),
    Grid { shape: SShape, n: u32 },
}

impl Strs {
    fn expand(&self) -> Vec<Vec<u8>> {
        match self {
            Strs::List(v) => v.iter().map(|h| unhex(h).unwrap_or_default()).collect(),
            Strs::Grid { shape, n } => {
                let n = *n as usize;
                let num = |i: usize| format!("k{:03}", i).into_bytes();
                (0..n)
                    .map(|i| match shape {
                        SShape::Sorted => num(i),
                        SShape::Reversed => num(n - i),
                        SShape::AllEqual => b"abc".to_vec(),
                        SShape::LongCommonPrefix => {
                            let mut s = b"commonprefix".to_vec();
                            s.extend_from_slice(&num((i * 37 + 11) % 1000));
                            s
                        }
                        SShape::OrganPipe => num(if i < n / 2 { i } else { n - 1 - i }),
                        SShape::PrefixChain => vec![b'a'; (n - 1 - i).min(40)],
                        SShape::FirstByte => vec![((i * 37 + 11) % 256) as u8, 0xFF],
                    })
                    .collect()
            }
        }
    }
}

const STR_ALPHABET: &[&[u8]] = &[b"", b"a", b"ab", b"b", b"a\0", b"\xff"];
const SLEN: &[usize] = &[0, 1, 2, 3, 4, 5, 8, 9, 16, 17, 33, 100, 101, 257];

fn str_inputs(tier: Tier, f: &mut dyn FnMut(Strs) -> bool) -> bool {
    let alpha: Vec<String> = STR_ALPHABET.iter().map(|s| hex(s)).collect();
    if !all_strings(&alpha, tier.pick(4, 5), &mut |s| f(Strs::List(s.to_vec()))) {
        return false;
    }
    for &n in SLEN {
        for &shape in ALL_SSHAPES {
            if !f(Strs::Grid { shape, n: n as u32 }) {
                return false;
            }
        }
    }
    true
}

const STR_SPACE: &str = "S = all lists of <= 4 (quick) / <= 5 (thorough) strings over {\"\", a, ab, b, a\\0, \\xff}; G = list lengths \
{0,1,2,3,4,5,8,9,16,17,33,100,101,257} x {sorted, reversed, all equal, common 12-byte prefix, organ pipe, prefix chain, first-byte-only}";

fn brief_strs(v: &[Vec<u8>]) -> String {
    let show: Vec<String> = v.iter().take(8).map(|s| hex(s)).collect();
    format!("[{}]{:?}{}", v.len(), show, if v.len() > 8 { ".." } else { "" })
}

fn run_sort_bytes(c: &Strs) -> Outcome {
    let input = c.expand();
    let mut data = input.clone();
    let mut sorter = RadixSort::new();
    match sorter.sort_bytes(&mut data) {
        Err(e) => enumr::fail("sort_err", "sort_bytes", format!("sort_bytes returned Err({e}) on {}", brief_strs(&input))),
        Ok(()) => match judge_sorted(&input, &data) {
            Some((sym, _)) => {
                let mut exp = input.clone();
                exp.sort();
                enumr::fail(
                    "sorted_permutation",
                    format!("{sym}/msd"),
                    format!("input {} -> got {}, expected {}", brief_strs(&input), brief_strs(&data), brief_strs(&exp)),
                )
            }
            None if input.len() < 2 => Outcome::trivial("msd/short"),
            None => Outcome::pass(if input.iter().any(|s| s.is_empty()) { "msd/with-empty-string" } else { "msd" }),
        },
    }
}

// ------------------------------------------------------------------------------------------------
// KeyValueRadixSort::sort_by_key

/// Oracle: the output is sorted by key and is a permutation of the input *pairs* (value = original index,
/// so every pair is unique and "each key keeps its value" is exactly multiset equality of pairs).
fn run_kv<K>(keys: &Keys, bits: u32, conv: impl Fn(u64) -> K) -> Outcome
where
    K: Copy + Into<u64> + Debug,
{
    let ks = keys.expand(bits);
    let input: Vec<(K, u32)> = ks.iter().enumerate().map(|(i, &k)| (conv(k), i as u32)).collect();
    let mut data = input.clone();
    let sorter = KeyValueRadixSort::<K, u32>::new();
    let mut distinct = ks.clone();
    distinct.sort();
    distinct.dedup();
    let dup = if distinct.len() < ks.len() { "dup_keys" } else { "unique_keys" };
    let show = |v: &[(K, u32)]| brief_vec(&v.iter().map(|(k, x)| ((*k).into(), *x)).collect::<Vec<(u64, u32)>>());
    match sorter.sort_by_key(&mut data) {
        Err(e) => enumr::fail("sort_err", dup, format!("sort_by_key returned Err({e}) on {}", show(&input))),
        Ok(()) => {
            let out: Vec<(u64, u32)> = data.iter().map(|(k, v)| ((*k).into(), *v)).collect();
            let inp: Vec<(u64, u32)> = input.iter().map(|(k, v)| ((*k).into(), *v)).collect();
            let mut so = out.clone();
            so.sort();
            let mut si = inp.clone();
            si.sort();
            let sorted_by_key = out.windows(2).all(|w| w[0].0 <= w[1].0);
            if so != si {
                let mut ko: Vec<u64> = out.iter().map(|p| p.0).collect();
                ko.sort();
                let mut ki: Vec<u64> = inp.iter().map(|p| p.0).collect();
                ki.sort();
                let sym = if ko == ki { "value_lost" } else { "keys_changed" };
                return enumr::fail(
                    "kv_pairing",
                    format!("{sym}/{dup}"),
                    format!("pairs (key, original index): input {} -> got {}", show(&input), show(&data)),
                );
            }
            if !sorted_by_key {
                return enumr::fail("sorted_permutation", format!("not_sorted/{dup}"), format!("input {} -> got {}", show(&input), show(&data)));
            }
            if input.len() < 2 {
                Outcome::trivial("kv/short")
            } else {
                Outcome::pass(&format!("kv/{dup}"))
            }
        }
    }
}

fn kv_gen(bits: u32) -> impl Fn(Tier, &mut dyn FnMut(Keys) -> bool) -> bool {
    move |tier, f| {
        if !int_inputs(tier, bits, u64::MAX, 1000, f) {
            return false;
        }
        // default config: sort_u64 becomes parallel at 10_000 and really splits at 20_000 (O(n^2) rearrangement: thorough only)
        if tier == Tier::Thorough {
            for shape in [KShape::WideReversed, KShape::HighByteOnly] {
                if !f(Keys::Grid { shape, n: 20_001 }) {
                    return false;
                }
            }
        }
        true
    }
}

// ------------------------------------------------------------------------------------------------
// AdvancedRadixSort<u32|u64|RadixString> with every forced strategy

#[derive(Clone, Copy, Debug, PartialEq, Eq)]
enum Strat {
    Forced(SortingStrategy),
    /// force_strategy None, adaptive_strategy true
    Auto,
    /// force_strategy None, adaptive_strategy false
    NonAdaptive,
}

impl Strat {
    fn label(self) -> &'static str {
        match self {
            Strat::Forced(SortingStrategy::Insertion) => "Insertion",
            Strat::Forced(SortingStrategy::TimSort) => "TimSort",
            Strat::Forced(SortingStrategy::LsdRadix) => "LsdRadix",
            Strat::Forced(SortingStrategy::MsdRadix) => "MsdRadix",
            Strat::Forced(SortingStrategy::Adaptive) => "Adaptive",
            Strat::Auto => "auto",
            Strat::NonAdaptive => "non-adaptive",
        }
    }
}

const ALL_STRATS: &[Strat] = &[
    Strat::Forced(SortingStrategy::Insertion),
    Strat::Forced(SortingStrategy::TimSort),
    Strat::Forced(SortingStrategy::LsdRadix),
    Strat::Forced(SortingStrategy::MsdRadix),
    Strat::Forced(SortingStrategy::Adaptive),
    Strat::Auto,
    Strat::NonAdaptive,
];

/// configuration grid point of AdvancedRadixSortConfig (the strategy is part of the subject)
#[derive(Clone, Copy, Debug, Hash, Serialize, Deserialize)]
struct AdvCfg {
    bits: u8,
    /// 0 = use_parallel false; otherwise parallel_threshold
    par: u32,
    /// insertion_sort_threshold
    ins_thr: u32,
    simd: bool,
    /// num_threads (0 = rayon's)
    threads: u8,
    secure: bool,
}

#[derive(Clone, Debug, Hash, Serialize, Deserialize)]
struct AdvCase {
    keys: Keys,
    cfg: AdvCfg,
}

#[derive(Clone, Debug, Hash, Serialize, Deserialize)]
struct AdvStrCase {
    strs: Strs,
    cfg: AdvCfg,
}

fn adv_config(strat: Strat, c: &AdvCfg) -> AdvancedRadixSortConfig {
    AdvancedRadixSortConfig {
        use_secure_memory: c.secure,
        adaptive_strategy: strat != Strat::NonAdaptive,
        force_strategy: match strat {
            Strat::Forced(s) => Some(s),
            _ => None,
        },
        use_parallel: c.par > 0,
        parallel_threshold: if c.par > 0 { c.par as usize } else { 10_000 },
        num_threads: c.threads as usize,
        radix_bits: c.bits as usize,
        insertion_sort_threshold: c.ins_thr as usize,
        use_simd: c.simd,
        ..AdvancedRadixSortConfig::default()
    }
}

/// the configuration dimensions that matter for a strategy (others stay at one value)
fn adv_cfgs(strat: Strat) -> Vec<AdvCfg> {
    let base = AdvCfg { bits: 8, par: 0, ins_thr: 100, simd: true, threads: 0, secure: false };
    let mut v = Vec::new();
    let lsd = |v: &mut Vec<AdvCfg>, ins_thr: u32| {
        for bits in [1u8, 4, 8, 11, 16] {
            for par in [0u32, 1, 4, 16] {
                for simd in [true, false] {
                    v.push(AdvCfg { bits, par, simd, ins_thr, ..base });
                }
            }
        }
        v.push(AdvCfg { par: 4, threads: 3, ..base });
        v.push(AdvCfg { par: 4, secure: true, ..base });
    };
    match strat {
        Strat::Forced(SortingStrategy::LsdRadix) => lsd(&mut v, 100),
        // same code path as forced LsdRadix: a few configurations only
        Strat::NonAdaptive => {
            v.push(base);
            v.push(AdvCfg { par: 4, ..base });
            v.push(AdvCfg { simd: false, bits: 11, ..base });
        }
        Strat::Forced(SortingStrategy::MsdRadix) => {
            for ins_thr in [0u32, 2, 100] {
                v.push(AdvCfg { ins_thr, ..base });
            }
        }
        Strat::Auto => {
            for ins_thr in [0u32, 2, 100] {
                for par in [0u32, 4] {
                    for simd in [true, false] {
                        v.push(AdvCfg { ins_thr, par, simd, ..base });
                    }
                }
            }
        }
        _ => {
            v.push(base);
            v.push(AdvCfg { secure: true, ..base });
        }
    }
    v
}

fn adv_path(strat: Strat, c: &AdvCfg, n: usize) -> String {
    let simd_count = c.simd && RadixCpu::detect().has_advanced_simd() && n >= 16;
    let lsd = |n: usize| {
        let thr = c.par as usize;
        let base = if c.par > 0 && n >= thr {
            if n < 2 * thr {
                "lsd-par-fallback-seq"
            } else {
                "lsd-par"
            }
        } else {
            "lsd-seq"
        };
        // in lsd-par the chunks (ceil(n/workers) items) are what is counted with SIMD; "simdcount" then means n>=16 overall
        format!("{}{}/bits{}", base, if simd_count { "+simdcount" } else { "" }, c.bits)
    };
    match strat {
        Strat::Forced(SortingStrategy::Insertion) => "insertion".into(),
        Strat::Forced(SortingStrategy::TimSort) => "timsort".into(),
        Strat::Forced(SortingStrategy::LsdRadix) | Strat::NonAdaptive => lsd(n),
        Strat::Forced(SortingStrategy::MsdRadix) => format!("msd/ins{}", c.ins_thr),
        Strat::Forced(SortingStrategy::Adaptive) => "forced-adaptive".into(),
        Strat::Auto => {
            if n <= c.ins_thr as usize {
                "auto:insertion".into()
            } else {
                format!("auto:timsort-or-{}", lsd(n))
            }
        }
    }
}

fn run_adv_int<T: RadixSortable + Debug>(strat: Strat, bits: u32, c: &AdvCase, conv: impl Fn(u64) -> T) -> Outcome {
    let keys = c.keys.expand(bits);
    let input: Vec<T> = keys.iter().map(|&k| conv(k)).collect();
    let mut data = input.clone();
    let path = adv_path(strat, &c.cfg, input.len());
    let mut sorter = match AdvancedRadixSort::<T>::with_config(adv_config(strat, &c.cfg)) {
        Ok(s) => s,
        Err(e) => return Outcome::skip(&format!("with_config Err: {}", zverif::core::truncate(&e.to_string(), 60))),
    };
    match sorter.sort(&mut data) {
        Err(e) => {
            if data != input {
                return enumr::fail("sort_err", format!("err_and_modified/{path}"), format!("sort returned Err({e}) and changed the data: {}", brief_vec(&data)));
            }
            enumr::fail("sort_err", path, format!("sort returned Err({e}) on valid input {}", brief_vec(&input)))
        }
        Ok(()) => match judge_sorted(&input, &data) {
            Some((sym, d)) => enumr::fail("sorted_permutation", format!("{sym}/{path}/{}", key_class(&keys)), d),
            None if input.len() < 2 => Outcome::trivial(&path),
            None => Outcome::pass(&path),
        },
    }
}

fn key8(s: &[u8]) -> u64 {
    let mut k = 0u64;
    for (i, &b) in s.iter().take(8).enumerate() {
        k |= (b as u64) << (8 * (7 - i));
    }
    k
}

fn run_adv_str(strat: Strat, c: &AdvStrCase) -> Outcome {
    let owned = c.strs.expand();
    let input: Vec<RadixString> = owned.iter().map(|s| RadixString::new(s)).collect();
    let mut data = input.clone();
    let path = adv_path(strat, &c.cfg, input.len());
    let mut sorter = match AdvancedRadixSort::<RadixString>::with_config(adv_config(strat, &c.cfg)) {
        Ok(s) => s,
        Err(e) => return Outcome::skip(&format!("with_config Err: {}", zverif::core::truncate(&e.to_string(), 60))),
    };
    let as_bytes = |v: &[RadixString]| v.iter().map(|s| s.as_slice().to_vec()).collect::<Vec<Vec<u8>>>();
    match sorter.sort(&mut data) {
        Err(e) => enumr::fail("sort_err", path, format!("sort returned Err({e}) on valid input {}", brief_strs(&owned))),
        Ok(()) => {
            let out = as_bytes(&data);
            match judge_sorted(&owned, &out) {
                Some((sym, _)) => {
                    let mut exp = owned.clone();
                    exp.sort();
                    // observable facts for the class: is the output at least ordered by the 8-byte zero-padded key
                    // (`RadixString::extract_key`), and do two different input strings share that key?
                    let by_key = out.windows(2).all(|w| key8(&w[0]) <= key8(&w[1]));
                    let mut d = owned.clone();
                    d.sort();
                    d.dedup();
                    let key_tie = d.windows(2).any(|w| key8(&w[0]) == key8(&w[1]));
                    enumr::fail(
                        "sorted_permutation",
                        format!("{sym}/{}/{}", if by_key { "ordered_by_key8" } else { "unordered_by_key8" }, if key_tie { "key8_tie" } else { "key8_distinct" }),
                        format!("path {path}: input {} -> got {}, expected {}", brief_strs(&owned), brief_strs(&out), brief_strs(&exp)),
                    )
                }
                None if owned.len() < 2 => Outcome::trivial(&path),
                None => Outcome::pass(&path),
            }
        }
    }
}

//@@NEXT@@

fn main() {
    // deterministic chunking in the parallel paths (chunk = ceil(n / workers)) and fewer threads per shard
    if std::env::var_os("RAYON_NUM_THREADS").is_none() {
        std::env::set_var("RAYON_NUM_THREADS", "4");
    }
    zverif::main_with("C11", |reg, _tier| {
        add(reg, "RadixSort::sort_u32", &format!("{INT_SPACE} x radix_bits {{1,4,8,11,16}} x parallel {{off, threshold 1,4,16}} x counting threshold {{0,4,256}} (keys <= 2^16 when counting is enabled, plus 3 cases with 2^24)"), radix_gen(false), run_radix_u32);
        add(reg, "RadixSort::sort_u64", &format!("{INT_SPACE} x radix_bits {{1,4,8,11,16}} x parallel {{off, threshold 1,4,16}}"), radix_gen(true), run_radix_u64);
        add(reg, "RadixSort::sort_bytes", STR_SPACE, |t, f| str_inputs(t, f), run_sort_bytes);

        add(reg, "KeyValueRadixSort<u32,u32>::sort_by_key", &format!("{INT_SPACE}; value = original index; default config (the type offers no other); thorough adds n=20001 (parallel split)"), kv_gen(32), |k: &Keys| run_kv(k, 32, |v| v as u32));
        add(reg, "KeyValueRadixSort<u64,u32>::sort_by_key", &format!("{INT_SPACE}; value = original index; default config; thorough adds n=20001"), kv_gen(64), |k: &Keys| run_kv(k, 64, |v| v));

        for &strat in ALL_STRATS {
            let cfg_text = "x config grid: LsdRadix: radix_bits {1,4,8,11,16} x parallel {off,1,4,16} x simd on/off (+ num_threads 3, secure pool); MsdRadix: insertion threshold {0,2,100}; auto: insertion threshold {0,2,100} x parallel {off,4} x simd; others: secure pool on/off";
            add(
                reg,
                &format!("AdvancedRadixSort<u32>[{}]", strat.label()),
                &format!("{INT_SPACE} {cfg_text}"),
                move |tier, f: &mut dyn FnMut(AdvCase) -> bool| {
                    for cfg in adv_cfgs(strat) {
                        let max_n = if cfg.bits == 16 && cfg.par > 0 { 257 } else { 1000 };
                        if !int_inputs(tier, 32, u64::MAX, max_n, &mut |keys| f(AdvCase { keys, cfg })) {
                            return false;
                        }
                    }
                    true
                },
                move |c: &AdvCase| run_adv_int(strat, 32, c, |v| v as u32),
            );
            add(
                reg,
                &format!("AdvancedRadixSort<u64>[{}]", strat.label()),
                &format!("{INT_SPACE} {cfg_text}"),
                move |tier, f: &mut dyn FnMut(AdvCase) -> bool| {
                    for cfg in adv_cfgs(strat) {
                        let max_n = if cfg.bits == 16 && cfg.par > 0 { 257 } else { 1000 };
                        if !int_inputs(tier, 64, u64::MAX, max_n, &mut |keys| f(AdvCase { keys, cfg })) {
                            return false;
                        }
                    }
                    true
                },
                move |c: &AdvCase| run_adv_int(strat, 64, c, |v| v),
            );
            add(
                reg,
                &format!("AdvancedRadixSort<RadixString>[{}]", strat.label()),
                &format!("{STR_SPACE} {cfg_text}"),
                move |tier, f: &mut dyn FnMut(AdvStrCase) -> bool| {
                    for cfg in adv_cfgs(strat) {
                        // the LSD grid is about integer digits; for strings keep radix_bits 8 and 16 only
                        if matches!(strat, Strat::Forced(SortingStrategy::LsdRadix)) && !(cfg.bits == 8 || cfg.bits == 16) {
                            continue;
                        }
                        if !str_inputs(tier, &mut |strs| f(AdvStrCase { strs, cfg })) {
                            return false;
                        }
                    }
                    true
                },
                move |c: &AdvStrCase| run_adv_str(strat, c),
            );
        }
    });
}
