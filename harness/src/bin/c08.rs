//! C08 — concurrent pool users never share a block and no block is lost (engine E3).
//!
//! 2–3 real threads run short allocate/free programs against one real pool under the controlled
//! scheduler; every interleaving up to the pre-emption bound is executed.  Oracles: an ownership
//! table (no block owned by two threads at once), a use-after-free monitor on the pointer each
//! lock-free pop is about to dereference (tracking allocator with quarantine), and at quiescence a
//! drain of the pool from the main thread (nothing handed out twice, nothing lost where the pool has a
//! fixed population, free structure acyclic: the drain is bounded) plus the pool's own counters.

use std::collections::HashMap;
use std::ptr::NonNull;
use std::sync::atomic::{AtomicU64, Ordering::Relaxed};
use std::sync::{Arc, Mutex};
use zverif::alloc as zalloc;
use zverif::sched::{self, Scenario, Sched, SchedSpec};
use zverif::{check, Fail, Tier};

use zipora::memory::fixed_capacity_pool::{FixedCapacityAllocation, FixedCapacityMemoryPool, FixedCapacityPoolConfig};
use zipora::memory::five_level_pool::{FiveLevelPoolConfig, LockFreePool, MemOffset, MutexBasedPool};
use zipora::memory::lockfree_pool::{BackoffStrategy, LockFreeMemoryPool, LockFreePoolConfig};
use zipora::memory::pool::{MemoryPool, PoolConfig};
use zipora::memory::secure_pool::{SecureMemoryPool, SecurePoolConfig, SecurePooledPtr};

#[global_allocator]
static GLOBAL: zalloc::TrackingAlloc = zalloc::TrackingAlloc;

#[derive(Clone, Copy, Debug, PartialEq)]
enum PAct {
    Alloc,
    /// free the oldest block this thread still holds
    FreeOldest,
    /// free the newest block this thread still holds
    FreeNewest,
    /// hand the oldest block this thread holds to the shared mailbox (it stays allocated)
    Give,
    /// free a block that another thread put into the mailbox (cross-thread free; no-op if the mailbox is empty)
    FreeGiven,
}

/// A pool behind a uniform face: blocks are identified by a stable integer (address or offset).
trait PoolFace: Send + Sync {
    fn alloc(&self) -> Result<usize, String>;
    fn free(&self, block: usize) -> Result<(), String>;
    /// counters check at quiescence; `live` = blocks still held by threads
    fn quiescent_check(&self, live: usize) -> Result<(), Fail>;
    /// Some(n) if the pool has a fixed population of n blocks (then held + drained must equal n)
    fn population(&self) -> Option<usize> {
        None
    }
    /// how many blocks to pull from the pool when draining (for pools that grow on demand)
    fn drain_extra(&self) -> usize {
        6
    }
    /// Some(n) if a block id is the address of n bytes the owner may write (used by the free-running stress: a live block
    /// keeps the bytes its owner wrote)
    fn block_bytes(&self) -> Option<usize> {
        None
    }
}

// ---- SecureMemoryPool -------------------------------------------------------------------------

struct SecureFace {
    held: Mutex<HashMap<usize, SecurePooledPtr>>,
    pool: Arc<SecureMemoryPool>,
    /// local_cache_size == 0: every freed chunk goes to the shared stack, so at quiescence every chunk ever created
    /// (= pool_misses) that is not live must be obtainable again without a new miss ("no block is lost")
    no_cache: bool,
}
impl PoolFace for SecureFace {
    fn block_bytes(&self) -> Option<usize> {
        Some(64)
    }
    fn alloc(&self) -> Result<usize, String> {
        let p = self.pool.allocate().map_err(|e| e.to_string())?;
        let a = p.as_ptr() as usize;
        self.held.lock().unwrap().insert(a, p);
        Ok(a)
    }
    fn free(&self, block: usize) -> Result<(), String> {
        let p = self.held.lock().unwrap().remove(&block);
        drop(p);
        Ok(())
    }
    fn quiescent_check(&self, live: usize) -> Result<(), Fail> {
        let s = self.pool.stats();
        check!(
            s.alloc_count == s.dealloc_count + live as u64,
            "counters",
            "stats(): alloc_count {} != dealloc_count {} + live {}",
            s.alloc_count,
            s.dealloc_count,
            live
        );
        check!(s.corruption_detected == 0 && s.double_free_detected == 0, "counters", "corruption_detected={} double_free_detected={}", s.corruption_detected, s.double_free_detected);
        if let Err(e) = self.pool.validate() {
            return Err(Fail::new("validate", format!("pool.validate() failed at quiescence: {e}")));
        }
        if self.no_cache {
            let created = s.pool_misses as usize;
            check!(created >= live, "harness", "pool_misses {created} < live {live}");
            let want = created - live;
            let mut got = Vec::new();
            for _ in 0..want {
                match self.pool.allocate() {
                    Ok(p) => got.push(p),
                    Err(_) => break,
                }
            }
            let after = self.pool.stats();
            let new_misses = after.pool_misses - s.pool_misses;
            drop(got);
            check!(
                new_misses == 0,
                "block_lost",
                "{created} chunks were created, {live} are live, so {want} must be in the shared stack; taking {want} chunks needed {new_misses} fresh one(s): that many freed chunks never became available again"
            );
        }
        Ok(())
    }
}

// ---- LockFreeMemoryPool ------------------------------------------------------------------------

struct LfFace {
    pool: LockFreeMemoryPool,
    size: usize,
    /// number of blocks of `size` a fresh pool of this configuration hands out before it reports exhaustion,
    /// measured once on a fresh pool without threads (None: not measured for this scenario)
    population: Option<usize>,
    /// successful allocate / deallocate calls made through this face (prefill included)
    n_alloc: AtomicU64,
    n_free: AtomicU64,
    /// free through deallocate_with_zero (the scrubbing variant) instead of deallocate
    zero: bool,
}
impl PoolFace for LfFace {
    fn block_bytes(&self) -> Option<usize> {
        Some(self.size)
    }
    fn alloc(&self) -> Result<usize, String> {
        let r = self.pool.allocate(self.size).map(|p| p.as_ptr() as usize).map_err(|e| e.to_string());
        if r.is_ok() {
            self.n_alloc.fetch_add(1, Relaxed);
        }
        r
    }
    fn free(&self, block: usize) -> Result<(), String> {
        let p = NonNull::new(block as *mut u8).unwrap();
        let r = if self.zero { self.pool.deallocate_with_zero(p, self.size) } else { self.pool.deallocate(p, self.size) }.map_err(|e| e.to_string());
        if r.is_ok() {
            self.n_free.fetch_add(1, Relaxed);
        }
        r
    }
    fn quiescent_check(&self, live: usize) -> Result<(), Fail> {
        // "the counters it reports add up once all threads have finished": every successful free of a fast-bin block is one
        // fast_dealloc; every successful allocation is either one pop from the bin (fast_alloc) or one freshly carved block
        // (memory_usage grows by the block size); every counted pop / push is one successful CAS
        if let Some(s) = self.pool.stats() {
            let (fa, fd, ok, mu) = (s.fast_allocs.load(Relaxed), s.fast_deallocs.load(Relaxed), s.cas_successes.load(Relaxed), s.memory_usage.load(Relaxed));
            let (na, nf) = (self.n_alloc.load(Relaxed), self.n_free.load(Relaxed));
            check!(na == nf + live as u64, "harness", "harness bookkeeping: {na} allocations != {nf} frees + {live} live");
            check!(fd == nf, "counters", "stats: fast_deallocs {fd} but {nf} blocks were freed successfully");
            check!(mu % self.size as u64 == 0 && fa + mu / self.size as u64 == na, "counters", "stats: fast_allocs {fa} + freshly carved blocks {} (memory_usage {mu} / {}) != {na} successful allocations", mu / self.size as u64, self.size);
            check!(ok == fa + fd, "counters", "stats: cas_successes {ok} != fast_allocs {fa} + fast_deallocs {fd}");
        }
        Ok(())
    }
    fn population(&self) -> Option<usize> {
        self.population
    }
}

// ---- five-level LockFreePool / MutexBasedPool --------------------------------------------------

fn off_to_usize(o: MemOffset) -> usize {
    // MemOffset is #[repr(transparent)] over u32
    let raw: u32 = unsafe { std::mem::transmute::<MemOffset, u32>(o) };
    raw as usize
}
fn usize_to_off(u: usize) -> MemOffset {
    unsafe { std::mem::transmute::<u32, MemOffset>(u as u32) }
}

struct FlFace {
    pool: LockFreePool,
    size: usize,
    population: Option<usize>,
}
impl PoolFace for FlFace {
    fn alloc(&self) -> Result<usize, String> {
        self.pool.alloc(self.size).map(off_to_usize).map_err(|e| e.to_string())
    }
    fn free(&self, block: usize) -> Result<(), String> {
        self.pool.free(usize_to_off(block), self.size).map_err(|e| e.to_string())
    }
    fn quiescent_check(&self, live: usize) -> Result<(), Fail> {
        // all blocks have one size: every carved byte is either in a live block or on a free list (fragment_size)
        let s = self.pool.stats();
        check!(
            s.used_memory == s.fragment_size + live * self.size,
            "counters",
            "stats(): used_memory {} != fragment_size {} + {} live blocks x {} bytes",
            s.used_memory,
            s.fragment_size,
            live,
            self.size
        );
        Ok(())
    }
    fn population(&self) -> Option<usize> {
        self.population
    }
}

struct MxFace {
    pool: MutexBasedPool,
    size: usize,
}
impl PoolFace for MxFace {
    fn alloc(&self) -> Result<usize, String> {
        self.pool.alloc(self.size).map(off_to_usize).map_err(|e| e.to_string())
    }
    fn free(&self, block: usize) -> Result<(), String> {
        self.pool.free(usize_to_off(block), self.size).map_err(|e| e.to_string())
    }
    fn quiescent_check(&self, live: usize) -> Result<(), Fail> {
        // all blocks have one size: every carved byte is either in a live block or on a free list (fragment_size)
        let s = self.pool.stats();
        check!(
            s.used_memory == s.fragment_size + live * self.size,
            "counters",
            "stats(): used_memory {} != fragment_size {} + {} live blocks x {} bytes",
            s.used_memory,
            s.fragment_size,
            live,
            self.size
        );
        Ok(())
    }
}

// ---- MemoryPool (pool.rs): a mutex-protected free queue that is only ever try_lock'ed ------------------

struct MpFace {
    pool: MemoryPool,
    chunk: usize,
}
impl PoolFace for MpFace {
    fn block_bytes(&self) -> Option<usize> {
        Some(self.chunk)
    }
    fn alloc(&self) -> Result<usize, String> {
        self.pool.allocate().map(|p| p.as_ptr() as usize).map_err(|e| e.to_string())
    }
    fn free(&self, block: usize) -> Result<(), String> {
        self.pool.deallocate(NonNull::new(block as *mut u8).unwrap()).map_err(|e| e.to_string())
    }
    fn quiescent_check(&self, live: usize) -> Result<(), Fail> {
        let s = self.pool.stats();
        check!(s.alloc_count == s.dealloc_count + live as u64, "counters", "stats(): alloc_count {} != dealloc_count {} + live {}", s.alloc_count, s.dealloc_count, live);
        check!(s.pool_hits + s.pool_misses == s.alloc_count, "counters", "stats(): pool_hits {} + pool_misses {} != alloc_count {}", s.pool_hits, s.pool_misses, s.alloc_count);
        check!(s.chunks <= self.pool.config().max_chunks, "counters", "stats(): {} chunks parked in a pool of max_chunks {}", s.chunks, self.pool.config().max_chunks);
        check!(s.available == (s.chunks * self.chunk) as u64, "counters", "stats(): available {} != chunks {} x chunk_size {}", s.available, s.chunks, self.chunk);
        // no statistics update is ever contended here (there is no schedule point inside the statistics lock), so the byte
        // counter is exact: every chunk obtained from the system and not yet returned to it is live or parked in the pool
        check!(
            s.allocated == ((live + s.chunks) * self.chunk) as u64,
            "counters",
            "stats(): allocated {} bytes != ({} live + {} parked) x chunk_size {}",
            s.allocated,
            live,
            s.chunks,
            self.chunk
        );
        Ok(())
    }
    fn drain_extra(&self) -> usize {
        4
    }
}

// ---- FixedCapacityMemoryPool -------------------------------------------------------------------

struct FcFace {
    // field order matters: allocations (raw pointer to the pool) must be dropped before the pool
    held: Mutex<HashMap<usize, FixedCapacityAllocation>>,
    size: usize,
    total: usize,
    pool: Box<FixedCapacityMemoryPool>,
}
// FixedCapacityAllocation holds a raw pointer to the pool; the pool is boxed and outlives every allocation here.
unsafe impl Send for FcFace {}
unsafe impl Sync for FcFace {}
impl PoolFace for FcFace {
    fn block_bytes(&self) -> Option<usize> {
        Some(self.size)
    }
    fn alloc(&self) -> Result<usize, String> {
        let a = self.pool.allocate(self.size).map_err(|e| e.to_string())?;
        let p = a.as_ptr() as usize;
        self.held.lock().unwrap().insert(p, a);
        Ok(p)
    }
    fn free(&self, block: usize) -> Result<(), String> {
        let a = self.held.lock().unwrap().remove(&block);
        drop(a);
        Ok(())
    }
    fn quiescent_check(&self, live: usize) -> Result<(), Fail> {
        if let Some(s) = self.pool.stats() {
            let (a, d, act) = (s.allocations.load(Relaxed), s.deallocations.load(Relaxed), s.active_blocks.load(Relaxed));
            check!(a == d + live as u64 && act as usize == live, "counters", "stats: allocations {a} deallocations {d} active_blocks {act}, live blocks held by threads {live}");
        }
        Ok(())
    }
    fn population(&self) -> Option<usize> {
        Some(self.total)
    }
}

// ---- the spec -----------------------------------------------------------------------------------

struct PoolSpec {
    name: &'static str,
    make: fn() -> Arc<dyn PoolFace>,
    /// blocks allocated and freed again on the main thread before the threads start (fills the shared free structure)
    prefill: usize,
    threads: Vec<Vec<PAct>>,
    bound_quick: usize,
    bound_thorough: usize,
    uaf_site: Option<&'static str>,
}

impl SchedSpec for PoolSpec {
    fn name(&self) -> String {
        self.name.to_string()
    }
    fn bound(&self, tier: Tier) -> usize {
        tier.pick(self.bound_quick, self.bound_thorough)
    }
    fn describe(&self, _tier: Tier) -> String {
        format!(
            "{} threads on one pool, all on one size class; shared free structure pre-filled with {} blocks; per-thread programs {:?}; schedule points before every atomic head load / next read / CAS of the free structure and before every harness action",
            self.threads.len(),
            self.prefill,
            self.threads
        )
    }
    fn build(&self) -> Scenario {
        zalloc::release_quarantine();
        zalloc::set_quarantine(true);
        let face = (self.make)();
        // pre-fill
        let mut pre = Vec::new();
        for _ in 0..self.prefill {
            if let Ok(b) = face.alloc() {
                pre.push(b);
            }
        }
        for b in pre {
            let _ = face.free(b);
        }
        let owners: Arc<Mutex<HashMap<usize, usize>>> = Arc::new(Mutex::new(HashMap::new()));
        let mailbox: Arc<Mutex<Vec<usize>>> = Arc::new(Mutex::new(Vec::new()));
        let mut threads: Vec<Box<dyn FnOnce() + Send>> = Vec::new();
        for (tid, prog) in self.threads.iter().cloned().enumerate() {
            let face = face.clone();
            let owners = owners.clone();
            let mailbox = mailbox.clone();
            threads.push(Box::new(move || {
                let mut mine: Vec<usize> = Vec::new();
                for (i, act) in prog.iter().enumerate() {
                    sched::point("h.step", tid, i);
                    match act {
                        PAct::Alloc => {
                            if let Ok(b) = face.alloc() {
                                let mut o = owners.lock().unwrap();
                                if let Some(other) = o.get(&b) {
                                    let f = Fail::new("double_ownership", format!("thread {tid} was handed a block that thread {other} still owns"))
                                        .with_class("alloc_returned_owned_block");
                                    drop(o);
                                    sched::fail_now(f);
                                }
                                o.insert(b, tid);
                                mine.push(b);
                            }
                        }
                        PAct::Give => {
                            if !mine.is_empty() {
                                let b = mine.remove(0);
                                owners.lock().unwrap().insert(b, usize::MAX);
                                mailbox.lock().unwrap().push(b);
                            }
                        }
                        PAct::FreeGiven => {
                            let b = mailbox.lock().unwrap().pop();
                            if let Some(b) = b {
                                owners.lock().unwrap().remove(&b);
                                if let Err(e) = face.free(b) {
                                    sched::fail_now(Fail::new("free_failed", format!("thread {tid}: freeing a block handed over by another thread failed: {e}")).with_class("free_err"));
                                }
                            }
                        }
                        PAct::FreeOldest | PAct::FreeNewest => {
                            if !mine.is_empty() {
                                let b = if *act == PAct::FreeOldest { mine.remove(0) } else { mine.pop().unwrap() };
                                owners.lock().unwrap().remove(&b);
                                if let Err(e) = face.free(b) {
                                    sched::fail_now(Fail::new("free_failed", format!("thread {tid}: freeing a block it owns failed: {e}")).with_class("free_err"));
                                }
                            }
                        }
                    }
                }
                // blocks still in `mine` stay owned until the drain at quiescence
            }));
        }
        let uaf_site = self.uaf_site;
        let monitor: Option<Box<dyn FnMut(&sched::Event) -> Result<(), Fail> + Send>> = uaf_site.map(|site| {
            Box::new(move |ev: &sched::Event| -> Result<(), Fail> {
                if ev.site == site && ev.a != 0 && zalloc::is_dead(ev.a) {
                    return Err(Fail::new(
                        "use_after_free",
                        format!("thread {} is about to dereference a free-list node at {} that another thread has already freed", ev.tid, site),
                    )
                    .with_class(site));
                }
                Ok(())
            }) as Box<dyn FnMut(&sched::Event) -> Result<(), Fail> + Send>
        });
        let face_f = face.clone();
        let owners_f = owners.clone();
        Scenario {
            threads,
            external_threads: 0,
            identify: None,
            monitor,
            fingerprint: None,
            after_spawn: None,
            finish: Box::new(move |_r| {
                let res = (|| -> Result<(), Fail> {
                    let held: Vec<usize> = owners_f.lock().unwrap().keys().copied().collect();
                    face_f.quiescent_check(held.len())?;
                    // drain from the main thread: bounded, so a cycle in the free structure shows up as duplicates
                    let limit = match face_f.population() {
                        Some(n) => n + 2,
                        None => face_f.drain_extra(),
                    };
                    let mut drained: Vec<usize> = Vec::new();
                    for _ in 0..limit {
                        match face_f.alloc() {
                            Ok(b) => {
                                check!(!held.contains(&b), "double_ownership", "drain at quiescence: the pool handed out a block that a thread still owns");
                                check!(!drained.contains(&b), "free_list_cycle", "drain at quiescence: the same block was handed out twice (cycle or duplicate link in the free structure)");
                                drained.push(b);
                            }
                            Err(_) => break,
                        }
                    }
                    if let Some(n) = face_f.population() {
                        check!(
                            held.len() + drained.len() == n,
                            "block_lost",
                            "fixed population {n}: {} blocks held by threads + {} obtainable by draining",
                            held.len(),
                            drained.len()
                        );
                    }
                    Ok(())
                })();
                zalloc::set_quarantine(false);
                res.map_err(|mut f| {
                    if f.class.is_empty() {
                        f.class = "quiescence".into();
                    }
                    f
                })
            }),
        }
    }
}

fn secure_face() -> Arc<dyn PoolFace> {
    let mut cfg = SecurePoolConfig::new(64, 16, 8);
    cfg.local_cache_size = 1;
    cfg.use_guard_pages = false;
    cfg.enable_cache_alignment = false;
    cfg.enable_hot_cold_separation = false;
    cfg.enable_huge_pages = false;
    Arc::new(SecureFace { pool: SecureMemoryPool::new(cfg).expect("secure pool"), held: Mutex::new(HashMap::new()), no_cache: false })
}
fn lf_face() -> Arc<dyn PoolFace> {
    let cfg = LockFreePoolConfig {
        memory_size: 1 << 16,
        enable_stats: true,
        max_cas_retries: 1000,
        backoff_strategy: BackoffStrategy::None,
        enable_cache_alignment: false,
        cache_config: None,
        enable_numa_awareness: false,
        enable_huge_pages: false,
        huge_page_threshold: 2 << 20,
        enable_simd_optimization: false,
        zero_on_free: false,
    };
    Arc::new(LfFace { pool: LockFreeMemoryPool::new(cfg).expect("lockfree pool"), size: 64, population: None, n_alloc: AtomicU64::new(0), n_free: AtomicU64::new(0), zero: false })
}
/// small backing region: the whole population can be drained at quiescence, so a block that a race dropped from the
/// free structure is noticed ("no block is lost"); the reference population is measured on a fresh pool without threads
fn lf_small_cfg() -> LockFreePoolConfig {
    LockFreePoolConfig {
        memory_size: 2048,
        enable_stats: true,
        max_cas_retries: 1000,
        backoff_strategy: BackoffStrategy::None,
        enable_cache_alignment: false,
        cache_config: None,
        enable_numa_awareness: false,
        enable_huge_pages: false,
        huge_page_threshold: 2 << 20,
        enable_simd_optimization: false,
        zero_on_free: false,
    }
}
fn lf_face_small() -> Arc<dyn PoolFace> {
    static POP: std::sync::OnceLock<usize> = std::sync::OnceLock::new();
    let n = *POP.get_or_init(|| {
        let p = LockFreeMemoryPool::new(lf_small_cfg()).expect("lockfree pool");
        let mut n = 0;
        while n < 10_000 && p.allocate(64).is_ok() {
            n += 1;
        }
        n
    });
    Arc::new(LfFace { pool: LockFreeMemoryPool::new(lf_small_cfg()).expect("lockfree pool"), size: 64, population: Some(n), n_alloc: AtomicU64::new(0), n_free: AtomicU64::new(0), zero: false })
}
/// the scrubbing free (`deallocate_with_zero`, zero_on_free + SIMD fill on) with a block size that is no power of two:
/// the scrub must stay inside the freed block — the block behind it is another thread's, or a free block whose link
/// word keeps the rest of the free list reachable
fn lf_face_zero40() -> Arc<dyn PoolFace> {
    fn cfg() -> LockFreePoolConfig {
        LockFreePoolConfig { zero_on_free: true, enable_simd_optimization: true, ..lf_small_cfg() }
    }
    static POP: std::sync::OnceLock<usize> = std::sync::OnceLock::new();
    let n = *POP.get_or_init(|| {
        let p = LockFreeMemoryPool::new(cfg()).expect("lockfree pool");
        let mut n = 0;
        while n < 10_000 && p.allocate(40).is_ok() {
            n += 1;
        }
        n
    });
    Arc::new(LfFace { pool: LockFreeMemoryPool::new(cfg()).expect("lockfree pool"), size: 40, population: Some(n), n_alloc: AtomicU64::new(0), n_free: AtomicU64::new(0), zero: true })
}
fn fl_cfg() -> FiveLevelPoolConfig {
    let mut c = FiveLevelPoolConfig::default();
    c.initial_capacity = 1 << 16;
    c.enable_cache_alignment = false;
    c.enable_huge_pages = false;
    c.enable_numa_awareness = false;
    c
}
fn fl_face() -> Arc<dyn PoolFace> {
    Arc::new(FlFace { pool: LockFreePool::new(fl_cfg()).expect("five-level lock-free pool"), size: 64, population: None })
}
/// five-level LockFreePool whose block size is EXACTLY max_fast_block_size (the boundary between the lock-free fast bins
/// and the mutex-protected huge list), in a region small enough to drain: no block may be lost at quiescence
fn fl_small_cfg() -> FiveLevelPoolConfig {
    let mut c = fl_cfg();
    c.max_fast_block_size = 64;
    c.initial_capacity = 2048;
    c
}
fn fl_face_small() -> Arc<dyn PoolFace> {
    static POP: std::sync::OnceLock<Option<usize>> = std::sync::OnceLock::new();
    let n = *POP.get_or_init(|| {
        let p = LockFreePool::new(fl_small_cfg()).expect("five-level lock-free pool");
        let mut n = 0;
        while n < 4096 && p.alloc(64).is_ok() {
            n += 1;
        }
        // a pool that grows on demand has no fixed population
        if n >= 4096 {
            None
        } else {
            Some(n)
        }
    });
    Arc::new(FlFace { pool: LockFreePool::new(fl_small_cfg()).expect("five-level lock-free pool"), size: 64, population: n })
}
fn secure_face_with(local_cache: usize) -> Arc<dyn PoolFace> {
    let mut cfg = SecurePoolConfig::new(64, 16, 8);
    cfg.local_cache_size = local_cache;
    cfg.use_guard_pages = false;
    cfg.enable_cache_alignment = false;
    cfg.enable_hot_cold_separation = false;
    cfg.enable_huge_pages = false;
    Arc::new(SecureFace { pool: SecureMemoryPool::new(cfg).expect("secure pool"), held: Mutex::new(HashMap::new()), no_cache: local_cache == 0 })
}
fn secure_face_nocache() -> Arc<dyn PoolFace> {
    secure_face_with(0)
}
fn mx_face() -> Arc<dyn PoolFace> {
    Arc::new(MxFace { pool: MutexBasedPool::new(fl_cfg()).expect("five-level mutex pool"), size: 64 })
}
fn fc_face_with(eager: bool) -> Arc<dyn PoolFace> {
    let cfg = FixedCapacityPoolConfig { max_block_size: 64, total_blocks: 3, alignment: 8, enable_stats: true, eager_allocation: eager, secure_clear: false };
    Arc::new(FcFace { pool: Box::new(FixedCapacityMemoryPool::new(cfg).expect("fixed-capacity pool")), size: 64, total: 3, held: Mutex::new(HashMap::new()) })
}
fn mp_face() -> Arc<dyn PoolFace> {
    // max_chunks = 2: the third chunk freed while two are parked goes straight back to the system
    Arc::new(MpFace { pool: MemoryPool::new(PoolConfig::new(64, 2, 8)).expect("memory pool"), chunk: 64 })
}
fn fc_face() -> Arc<dyn PoolFace> {
    fc_face_with(true)
}
/// secure_clear: freed blocks are scrubbed; 4 KiB blocks make the scrub long enough to be met by another thread
fn fc_face_secure_clear() -> Arc<dyn PoolFace> {
    let cfg = FixedCapacityPoolConfig { max_block_size: 4096, total_blocks: 3, alignment: 8, enable_stats: true, eager_allocation: true, secure_clear: true };
    Arc::new(FcFace { pool: Box::new(FixedCapacityMemoryPool::new(cfg).expect("fixed-capacity pool")), size: 4096, total: 3, held: Mutex::new(HashMap::new()) })
}
fn fc_face_lazy() -> Arc<dyn PoolFace> {
    fc_face_with(false)
}

// ---- auxiliary: free-running stress (SAMPLING — see zverif::stress) -------------------------------

fn pool_stress(make: fn() -> Arc<dyn PoolFace>, budget: std::time::Duration) -> Result<u64, Fail> {
    use std::sync::atomic::{AtomicBool, AtomicU64 as A64, Ordering::SeqCst};
    zalloc::set_quarantine(false);
    let face = make();
    let stop = Arc::new(AtomicBool::new(false));
    let fail: Arc<Mutex<Option<Fail>>> = Arc::new(Mutex::new(None));
    let owners: Arc<Mutex<HashMap<usize, usize>>> = Arc::new(Mutex::new(HashMap::new()));
    let iters = Arc::new(A64::new(0));
    let mut hs = Vec::new();
    for tid in 0..3usize {
        let (face, stop, fail, owners, iters) = (face.clone(), stop.clone(), fail.clone(), owners.clone(), iters.clone());
        hs.push(std::thread::spawn(move || {
            let mut mine: Vec<usize> = Vec::new();
            let mut n = 0u64;
            while !stop.load(SeqCst) {
                n += 1;
                // hold 0..=2 blocks: allocate while fewer than (n % 3) are held, otherwise free the oldest
                if mine.len() < (n % 3) as usize + 1 && mine.len() < 2 {
                    if let Ok(b) = face.alloc() {
                        let mut o = owners.lock().unwrap();
                        if let Some(other) = o.insert(b, tid) {
                            let mut g = fail.lock().unwrap();
                            g.get_or_insert(Fail::new("double_ownership", format!("thread {tid} was handed a block that thread {other} still owns")).with_class("stress"));
                            stop.store(true, SeqCst);
                        }
                        drop(o);
                        if let Some(nb) = face.block_bytes() {
                            // the owner's bytes: must still be there when the block is given back
                            unsafe { std::ptr::write_bytes(b as *mut u8, 0xA0 + tid as u8, nb) };
                        }
                        mine.push(b);
                    }
                } else if !mine.is_empty() {
                    let b = mine.remove(0);
                    if let Some(nb) = face.block_bytes() {
                        let bytes = unsafe { std::slice::from_raw_parts(b as *const u8, nb) };
                        if let Some(pos) = bytes.iter().position(|x| *x != 0xA0 + tid as u8) {
                            let mut g = fail.lock().unwrap();
                            g.get_or_insert(Fail::new("contents_changed", format!("thread {tid} owns a block of {nb} bytes it filled with {:#x}; byte {pos} now reads {:#x}: somebody else wrote into a live block", 0xA0 + tid as u8, bytes[pos])).with_class("stress"));
                            stop.store(true, SeqCst);
                        }
                    }
                    owners.lock().unwrap().remove(&b);
                    if let Err(e) = face.free(b) {
                        let mut g = fail.lock().unwrap();
                        g.get_or_insert(Fail::new("free_failed", format!("thread {tid}: freeing a block it owns failed: {e}")).with_class("stress"));
                        stop.store(true, SeqCst);
                    }
                }
            }
            // return everything before the counters are compared
            for b in mine {
                owners.lock().unwrap().remove(&b);
                let _ = face.free(b);
            }
            iters.fetch_add(n, SeqCst);
        }));
    }
    std::thread::sleep(budget);
    stop.store(true, SeqCst);
    for h in hs {
        let _ = h.join();
    }
    if let Some(f) = fail.lock().unwrap().take() {
        return Err(f);
    }
    face.quiescent_check(0).map_err(|mut f| {
        f.class = "stress".into();
        f
    })?;
    if let Some(n) = face.population() {
        let mut got = 0usize;
        while got < n + 2 && face.alloc().is_ok() {
            got += 1;
        }
        if got != n {
            return Err(Fail::new("block_lost", format!("fixed population {n}: after all threads returned their blocks {got} can be obtained")).with_class("stress"));
        }
    }
    Ok(iters.load(SeqCst))
}

/// five-level pools, every thread in its OWN size class (different bins / bin mutexes, one pool-wide byte counter)
fn five_level_multi_size_stress(lockfree: bool, budget: std::time::Duration) -> Result<u64, Fail> {
    use std::sync::atomic::{AtomicBool, AtomicU64 as A64, Ordering::SeqCst};
    enum P {
        M(MutexBasedPool),
        L(LockFreePool),
    }
    impl P {
        fn alloc(&self, n: usize) -> Option<MemOffset> {
            match self {
                P::M(p) => p.alloc(n).ok(),
                P::L(p) => p.alloc(n).ok(),
            }
        }
        fn free(&self, o: MemOffset, n: usize) -> bool {
            match self {
                P::M(p) => p.free(o, n).is_ok(),
                P::L(p) => p.free(o, n).is_ok(),
            }
        }
        fn stats(&self) -> (usize, usize) {
            let s = match self {
                P::M(p) => p.stats(),
                P::L(p) => p.stats(),
            };
            (s.used_memory, s.fragment_size)
        }
    }
    // SAFETY of sharing: both pools are Sync
    let pool = Arc::new(if lockfree { P::L(LockFreePool::new(fl_cfg()).expect("pool")) } else { P::M(MutexBasedPool::new(fl_cfg()).expect("pool")) });
    unsafe impl Send for P {}
    unsafe impl Sync for P {}
    let stop = Arc::new(AtomicBool::new(false));
    let fail: Arc<Mutex<Option<Fail>>> = Arc::new(Mutex::new(None));
    let iters = Arc::new(A64::new(0));
    let mut hs = Vec::new();
    for (tid, size) in [64usize, 128, 256].into_iter().enumerate() {
        let (pool, stop, fail, iters) = (pool.clone(), stop.clone(), fail.clone(), iters.clone());
        hs.push(std::thread::spawn(move || {
            let mut n = 0u64;
            while !stop.load(SeqCst) {
                n += 1;
                if let Some(o) = pool.alloc(size) {
                    if !pool.free(o, size) {
                        fail.lock().unwrap().get_or_insert(Fail::new("free_failed", format!("thread {tid}: freeing a block of {size} bytes it owns failed")).with_class("stress"));
                        stop.store(true, SeqCst);
                    }
                }
            }
            iters.fetch_add(n, SeqCst);
        }));
    }
    std::thread::sleep(budget);
    stop.store(true, SeqCst);
    for h in hs {
        let _ = h.join();
    }
    if let Some(f) = fail.lock().unwrap().take() {
        return Err(f);
    }
    let (used, frag) = pool.stats();
    if used != frag {
        return Err(Fail::new("counters", format!("all threads joined and every block freed: used_memory {used} != fragment_size {frag} (every carved byte must be on a free list)")).with_class("stress"));
    }
    Ok(iters.load(SeqCst))
}

fn main() {
    use PAct::*;
    zverif::main_with("C08", |reg, _tier| {
        let aba2 = vec![vec![Alloc, Alloc], vec![Alloc, Alloc, FreeOldest]];
        let aba3 = vec![vec![Alloc], vec![Alloc, Alloc, FreeOldest], vec![Alloc]];
        reg.add(Sched(PoolSpec {
            name: "SecureMemoryPool[local_cache=1] H1: T0[alloc,free] T1[alloc,alloc,free,free]",
            make: secure_face,
            prefill: 3,
            threads: vec![vec![Alloc, FreeOldest], vec![Alloc, Alloc, FreeOldest, FreeOldest]],
            bound_quick: 2,
            bound_thorough: 4,
            uaf_site: Some("sp.pop.deref"),
        }));
        reg.add(Sched(PoolSpec { name: "LockFreeMemoryPool H2a: 2 threads, pop/pop/push ABA shape", make: lf_face, prefill: 3, threads: aba2.clone(), bound_quick: 2, bound_thorough: 4, uaf_site: None }));
        reg.add(Sched(PoolSpec { name: "LockFreeMemoryPool H2b: 3 threads", make: lf_face, prefill: 3, threads: aba3.clone(), bound_quick: 2, bound_thorough: 4, uaf_site: None }));
        reg.add(Sched(PoolSpec { name: "five_level::LockFreePool H3a: 2 threads, pop/pop/push ABA shape", make: fl_face, prefill: 3, threads: aba2.clone(), bound_quick: 2, bound_thorough: 4, uaf_site: None }));
        reg.add(Sched(PoolSpec { name: "five_level::LockFreePool H3b: 3 threads", make: fl_face, prefill: 3, threads: aba3.clone(), bound_quick: 2, bound_thorough: 4, uaf_site: None }));
        reg.add(Sched(PoolSpec { name: "FixedCapacityMemoryPool[3 blocks] H4a: 2 threads, pop/pop/push ABA shape", make: fc_face, prefill: 0, threads: aba2.clone(), bound_quick: 2, bound_thorough: 4, uaf_site: None }));
        reg.add(Sched(PoolSpec { name: "FixedCapacityMemoryPool[3 blocks] H4b: 3 threads", make: fc_face, prefill: 0, threads: aba3.clone(), bound_quick: 2, bound_thorough: 4, uaf_site: None }));
        reg.add(Sched(PoolSpec {
            name: "FixedCapacityMemoryPool[3 blocks, lazy init] H4c: first calls race",
            make: fc_face_lazy,
            prefill: 0,
            threads: vec![vec![Alloc, FreeOldest], vec![Alloc, FreeOldest]],
            bound_quick: 2,
            bound_thorough: 4,
            uaf_site: None,
        }));
        // every free goes to the shared stack (no thread-local cache): pushes race with the serialised pops
        reg.add(Sched(PoolSpec {
            name: "SecureMemoryPool[local_cache=0] H1b: 3 threads through the shared stack",
            make: secure_face_nocache,
            prefill: 3,
            threads: vec![vec![Alloc, FreeOldest], vec![Alloc, Alloc, FreeOldest], vec![Alloc, FreeOldest]],
            bound_quick: 2,
            bound_thorough: 3,
            uaf_site: Some("sp.pop.deref"),
        }));
        // cross-thread free: a block allocated by T0 is freed by T1 (it lands in T1's local cache / the shared stack)
        reg.add(Sched(PoolSpec {
            name: "SecureMemoryPool[local_cache=1] H1c: cross-thread free through a mailbox",
            make: secure_face,
            prefill: 2,
            threads: vec![vec![Alloc, Alloc, Give, FreeOldest], vec![Alloc, FreeGiven, FreeOldest, Alloc]],
            bound_quick: 2,
            bound_thorough: 4,
            uaf_site: Some("sp.pop.deref"),
        }));
        reg.add(Sched(PoolSpec {
            name: "LockFreeMemoryPool[2 KiB] H2c: whole population drained at quiescence (no block lost), cross-thread free",
            make: lf_face_small,
            prefill: 3,
            threads: vec![vec![Alloc, Alloc, Give, FreeOldest], vec![Alloc, FreeGiven, FreeOldest]],
            bound_quick: 2,
            bound_thorough: 4,
            uaf_site: None,
        }));
        reg.add(Sched(PoolSpec {
            name: "LockFreeMemoryPool[2 KiB, 40-byte blocks, deallocate_with_zero] H2d: whole population drained at quiescence, cross-thread free",
            make: lf_face_zero40,
            prefill: 3,
            threads: vec![vec![Alloc, Alloc, Give, FreeOldest], vec![Alloc, FreeGiven, FreeOldest]],
            bound_quick: 2,
            bound_thorough: 4,
            uaf_site: None,
        }));
        reg.add(Sched(PoolSpec {
            name: "five_level::LockFreePool[2 KiB, block = max_fast_block_size] H3c: whole population drained at quiescence, cross-thread free",
            make: fl_face_small,
            prefill: 3,
            threads: vec![vec![Alloc, Alloc, Give, FreeOldest], vec![Alloc, FreeGiven, FreeOldest]],
            bound_quick: 2,
            bound_thorough: 4,
            uaf_site: None,
        }));
        // MemoryPool: the free queue is only ever try_lock'ed; a thread parked inside the critical section makes the other
        // thread's try_lock fail for real (miss path: fresh chunk / direct free)
        reg.add(Sched(PoolSpec {
            name: "MemoryPool[max_chunks=2] H6a: 2 threads, try_lock contention",
            make: mp_face,
            prefill: 2,
            threads: vec![vec![Alloc, Alloc, FreeOldest, FreeOldest], vec![Alloc, FreeOldest, Alloc]],
            bound_quick: 2,
            bound_thorough: 4,
            uaf_site: None,
        }));
        reg.add(Sched(PoolSpec {
            name: "MemoryPool[max_chunks=2] H6b: 3 threads, cross-thread free",
            make: mp_face,
            prefill: 1,
            threads: vec![vec![Alloc, Give, Alloc, FreeOldest], vec![FreeGiven, Alloc, FreeOldest], vec![Alloc, FreeOldest]],
            bound_quick: 2,
            bound_thorough: 3,
            uaf_site: None,
        }));
        for (pname, mk) in [
            ("SecureMemoryPool[local_cache=0]", secure_face_nocache as fn() -> Arc<dyn PoolFace>),
            ("SecureMemoryPool[local_cache=1]", secure_face),
            ("LockFreeMemoryPool[2 KiB]", lf_face_small),
            ("LockFreeMemoryPool[2 KiB, 40-byte blocks, deallocate_with_zero]", lf_face_zero40),
            ("five_level::LockFreePool[2 KiB]", fl_face_small),
            ("FixedCapacityMemoryPool[3 blocks, lazy init]", fc_face_lazy),
            ("FixedCapacityMemoryPool[3 blocks of 4 KiB, secure_clear]", fc_face_secure_clear),
            ("MemoryPool[max_chunks=2]", mp_face),
            ("five_level::MutexBasedPool[one size class]", mx_face),
            ("five_level::LockFreePool[one size class]", fl_face),
        ] {
            reg.add(zverif::stress::Stress(zverif::stress::StressSpec {
                name: format!("{pname} free-running stress (sampling)"),
                describe: "3 uncontrolled threads allocate and free (0-2 blocks held each) on one pool; a block handed to a thread while another owns it, a failing free of an owned block, and - after all threads returned their blocks and were joined - the pool's counters and (where known) its population are checked. Catches races INSIDE one schedule step of E3".into(),
                run: Box::new(move |d| pool_stress(mk, d)),
                budget_quick_ms: 700,
                budget_thorough_ms: 8000,
            }));
        }
        for (lf, pname) in [(false, "five_level::MutexBasedPool"), (true, "five_level::LockFreePool")] {
            reg.add(zverif::stress::Stress(zverif::stress::StressSpec {
                name: format!("{pname}[three size classes] free-running stress (sampling)"),
                describe: "3 uncontrolled threads, each allocating and freeing in its OWN size class (64 / 128 / 256 bytes: different bins, one pool-wide byte counter); after join every carved byte must be on a free list (used_memory = fragment_size)".into(),
                run: Box::new(move |d| five_level_multi_size_stress(lf, d)),
                budget_quick_ms: 700,
                budget_thorough_ms: 8000,
            }));
        }
        reg.add(Sched(PoolSpec { name: "five_level::MutexBasedPool H5: 2 threads (control)", make: mx_face, prefill: 3, threads: aba2.clone(), bound_quick: 2, bound_thorough: 4, uaf_site: None }));
    });
}
