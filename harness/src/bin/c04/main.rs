//! C04 — rank/select answers match the bit-sequence definition in every implementation (engine E2).
//!
//! One subject per (structure configuration × entry point): `"SE256[s0=1,s1=1]/select1"`.
//! Every subject enumerates the same stated space of bit strings (small scope S ∪ threshold grid G,
//! see `space.rs`), builds the structure from the string and queries EVERY position of the entry point.
//! Reference = prefix sums / position lists computed from the bits (`Input`).
//!
//! CPU tiers: zipora reads `ZIPORA_VERIF_CPU_MASK` (cfg zipora_verif) once per process; the driver passes the
//! environment through, so `ZIPORA_VERIF_CPU_MASK=avx512,avx2,bmi2 ./check C04 --tier quick` runs the whole
//! check with the named tiers cleared (see notes/C04.md).

mod space;
mod subjects;

use serde::{Deserialize, Serialize};
use std::sync::atomic::{AtomicU64, Ordering};
use zverif::enumr::{fail, Enum, EnumSpec};
use zverif::util::catch;
use zverif::{Ctx, Outcome, Subject, Tier, Value, Verdict};

pub use space::{Build, Pat, SelSet, SpaceKind, Src};

pub static QUERIES: AtomicU64 = AtomicU64::new(0);

#[inline]
pub fn q(n: usize) {
    QUERIES.fetch_add(n as u64, Ordering::Relaxed);
}

// ---------------------------------------------------------------------------------------------
// case + reference

#[derive(Clone, Debug, Hash, Serialize, Deserialize, PartialEq, Eq)]
pub struct Case {
    pub src: Src,
    pub build: Build,
    /// which select indices are queried (All for len <= tier threshold, Sparse beyond: stated in space())
    pub sel: SelSet,
}

/// The bit sequence and its reference answers.
pub struct Input {
    pub bits: Vec<bool>,
    /// prefix[p] = number of ones in bits[0..p]
    pub prefix: Vec<u32>,
    pub ones_pos: Vec<u32>,
    pub zeros_pos: Vec<u32>,
    pub sel: SelSet,
}

impl Input {
    pub fn new(bits: Vec<bool>, sel: SelSet) -> Input {
        let mut prefix = Vec::with_capacity(bits.len() + 1);
        let mut ones_pos = Vec::new();
        let mut zeros_pos = Vec::new();
        let mut c = 0u32;
        prefix.push(0);
        for (i, &b) in bits.iter().enumerate() {
            if b {
                c += 1;
                ones_pos.push(i as u32);
            } else {
                zeros_pos.push(i as u32);
            }
            prefix.push(c);
        }
        Input { bits, prefix, ones_pos, zeros_pos, sel }
    }
    pub fn len(&self) -> usize {
        self.bits.len()
    }
    pub fn ones(&self) -> usize {
        self.ones_pos.len()
    }
    pub fn zeros(&self) -> usize {
        self.zeros_pos.len()
    }
    /// words with bits beyond len = 0
    pub fn words(&self) -> Vec<u64> {
        let mut w = vec![0u64; (self.bits.len() + 63) / 64];
        for (i, &b) in self.bits.iter().enumerate() {
            if b {
                w[i / 64] |= 1u64 << (i % 64);
            }
        }
        w
    }
    pub fn transformed(&self, f: impl Fn(usize, bool) -> bool) -> Input {
        Input::new(self.bits.iter().enumerate().map(|(i, &b)| f(i, b)).collect(), self.sel)
    }
    pub fn reversed(&self) -> Input {
        Input::new(self.bits.iter().rev().copied().collect(), self.sel)
    }
    /// the select indices queried for a sequence with `n` pivots
    pub fn ks(&self, n: usize) -> Vec<usize> {
        match self.sel {
            SelSet::All => (0..n).collect(),
            SelSet::Sparse => (0..n).filter(|&k| k < 3 || k + 3 >= n || matches!(k % 512, 0 | 1 | 2 | 255 | 256 | 257 | 510 | 511)).collect(),
        }
    }
    fn pass_class(&self) -> String {
        let l = self.len();
        let lc = if l == 0 {
            "len=0"
        } else if l <= 16 {
            "len<=16"
        } else if l <= 64 {
            "len<=64"
        } else if l <= 512 {
            "len<=512"
        } else if l <= 4097 {
            "len<=4097"
        } else {
            "len>4097"
        };
        let o = self.ones();
        let dc = if o == 0 {
            "no_ones"
        } else if o == l {
            "all_ones"
        } else if o * 20 <= l {
            "sparse"
        } else if (l - o) * 20 <= l {
            "dense"
        } else {
            "mixed"
        };
        format!("ok/{lc}/{dc}")
    }
}

// ---------------------------------------------------------------------------------------------
// entry points

pub enum RankFn {
    One(Box<dyn Fn(usize) -> usize>),
    Bulk(Box<dyn Fn(&[usize]) -> Vec<usize>>),
}
pub enum SelFn {
    One(Box<dyn Fn(usize) -> Result<usize, String>>),
    /// whole batch fails if any index is invalid
    Bulk(Box<dyn Fn(&[usize]) -> Result<Vec<usize>, String>>),
}
pub enum EpFn {
    Rank1(RankFn),
    Rank0(RankFn),
    Select1(SelFn),
    Select0(SelFn),
    Len(Box<dyn Fn() -> usize>),
    Ones(Box<dyn Fn() -> usize>),
    /// (count_ones, count_zeros, is_empty): count_ones is judged exactly like `Ones`, then the two derived observers
    Counts(Box<dyn Fn() -> (usize, usize, bool)>),
    Get(Box<dyn Fn(usize) -> Option<bool>>),
    /// judges the whole input itself; `None` = all clauses held
    Custom(Box<dyn Fn(&Input) -> Option<Outcome>>),
}
pub struct Ep {
    pub name: &'static str,
    pub f: EpFn,
}

fn pos_class(p: usize, len: usize) -> &'static str {
    if p == len {
        if len > 0 && len % 256 == 0 {
            "p==len,len%256==0"
        } else if len > 0 && len % 64 == 0 {
            "p==len,len%64==0"
        } else {
            "p==len"
        }
    } else if p >= 64 {
        "p<len,p>=64"
    } else {
        "p<len,p<64"
    }
}

pub fn check_rank(clause: &str, f: &RankFn, len: usize, expect: &dyn Fn(usize) -> usize) -> Option<Outcome> {
    q(len + 1);
    match f {
        RankFn::One(f) => {
            for p in 0..=len {
                match catch(|| f(p)) {
                    Ok(r) => {
                        if r != expect(p) {
                            return Some(fail(clause, pos_class(p, len), format!("{clause}({p}) = {r}, definition says {} (len {len})", expect(p))));
                        }
                    }
                    Err(pf) => return Some(fail(clause, format!("panic/{}", pos_class(p, len)), format!("{clause}({p}) with len {len}: {}", pf.detail))),
                }
            }
        }
        RankFn::Bulk(f) => {
            let ps: Vec<usize> = (0..=len).collect();
            match catch(|| f(&ps)) {
                Ok(v) => {
                    if v.len() != ps.len() {
                        return Some(fail(clause, "batch/result_count", format!("{} positions, {} results", ps.len(), v.len())));
                    }
                    for p in 0..=len {
                        if v[p] != expect(p) {
                            return Some(fail(clause, pos_class(p, len), format!("{clause} bulk: result for p={p} is {}, definition says {} (len {len})", v[p], expect(p))));
                        }
                    }
                }
                Err(pf) => return Some(fail(clause, "panic/batch", format!("batch of all p in 0..={len}: {}", pf.detail))),
            }
        }
    }
    None
}

pub fn check_select(clause: &str, f: &SelFn, pivots: &[u32], ks: &[usize]) -> Option<Outcome> {
    let n = pivots.len();
    q(ks.len() + 2);
    let one = |k: usize| -> Result<Result<usize, String>, zverif::Fail> {
        match f {
            SelFn::One(f) => catch(|| f(k)),
            SelFn::Bulk(f) => catch(|| {
                f(&[k]).and_then(|v| if v.len() == 1 { Ok(v[0]) } else { Err(format!("HARNESS-VISIBLE: {} results for 1 index", v.len())) })
            }),
        }
    };
    for &k in ks {
        match one(k) {
            Ok(Ok(p)) => {
                if p != pivots[k] as usize {
                    return Some(fail(clause, "k<n/wrong_pos", format!("{clause}({k}) = Ok({p}), definition says {} ({n} such bits)", pivots[k])));
                }
            }
            Ok(Err(e)) => {
                let class = if e.starts_with("HARNESS-VISIBLE") { "k<n/result_count" } else { "k<n/err" };
                return Some(fail(clause, class, format!("{clause}({k}) = Err({e}), definition says {} ({n} such bits)", pivots[k])));
            }
            Err(pf) => return Some(fail(clause, "k<n/panic", format!("{clause}({k}) with {n} such bits: {}", pf.detail))),
        }
    }
    for k in [n, n + 1] {
        match one(k) {
            Ok(Ok(p)) => return Some(fail(clause, if k == n { "k==n/returns_ok" } else { "k==n+1/returns_ok" }, format!("{clause}({k}) = Ok({p}) but there are only {n} such bits"))),
            Ok(Err(_)) => {}
            Err(pf) => return Some(fail(clause, "k>=n/panic", format!("{clause}({k}) with {n} such bits: {}", pf.detail))),
        }
    }
    if let SelFn::Bulk(f) = f {
        // one batch with every queried valid index; one batch with a valid and an invalid index
        if !ks.is_empty() {
            q(ks.len() + 2);
            match catch(|| f(ks)) {
                Ok(Ok(v)) => {
                    if v.len() != ks.len() {
                        return Some(fail(clause, "batch/result_count", format!("{} indices, {} results", ks.len(), v.len())));
                    }
                    for (i, &k) in ks.iter().enumerate() {
                        if v[i] != pivots[k] as usize {
                            return Some(fail(clause, "batch/wrong_pos", format!("{clause} batch: result for k={k} is {}, definition says {}", v[i], pivots[k])));
                        }
                    }
                }
                Ok(Err(e)) => return Some(fail(clause, "batch/err", format!("batch of {} valid indices: Err({e})", ks.len()))),
                Err(pf) => return Some(fail(clause, "batch/panic", format!("batch of {} valid indices: {}", ks.len(), pf.detail))),
            }
            match catch(|| f(&[ks[0], n])) {
                Ok(Ok(v)) => return Some(fail(clause, "batch/k==n/returns_ok", format!("batch [{}, {n}] = Ok({v:?}) but there are only {n} such bits", ks[0]))),
                Ok(Err(_)) => {}
                Err(pf) => return Some(fail(clause, "batch/k>=n/panic", format!("batch [{}, {n}]: {}", ks[0], pf.detail))),
            }
        }
    }
    None
}

pub fn check_ep(ep: &Ep, inp: &Input) -> Outcome {
    let len = inp.len();
    let r = match &ep.f {
        EpFn::Rank1(f) => check_rank("rank1", f, len, &|p| inp.prefix[p] as usize),
        EpFn::Rank0(f) => check_rank("rank0", f, len, &|p| p - inp.prefix[p] as usize),
        EpFn::Select1(f) => check_select("select1", f, &inp.ones_pos, &inp.ks(inp.ones())),
        EpFn::Select0(f) => check_select("select0", f, &inp.zeros_pos, &inp.ks(inp.zeros())),
        EpFn::Len(f) => {
            q(1);
            let l = f();
            if l != len {
                Some(fail("len", "wrong", format!("len() = {l}, sequence has {len} bits")))
            } else {
                None
            }
        }
        EpFn::Ones(f) => {
            q(1);
            let o = f();
            if o != inp.ones() {
                Some(fail("count_ones", if o > inp.ones() { "too_many" } else { "too_few" }, format!("count_ones() = {o}, sequence has {} ones (len {len})", inp.ones())))
            } else {
                None
            }
        }
        EpFn::Counts(f) => {
            q(3);
            let (o, z, e) = f();
            if o != inp.ones() {
                Some(fail("count_ones", if o > inp.ones() { "too_many" } else { "too_few" }, format!("count_ones() = {o}, sequence has {} ones (len {len})", inp.ones())))
            } else if z != inp.zeros() {
                Some(fail("count_ones", "count_zeros_wrong", format!("count_zeros() = {z}, sequence has {} zeros (len {len}, {} ones)", inp.zeros(), inp.ones())))
            } else if e != (len == 0) {
                Some(fail("len", "is_empty_wrong", format!("is_empty() = {e}, sequence has {len} bits")))
            } else {
                None
            }
        }
        EpFn::Get(f) => {
            q(len);
            let mut r = None;
            for i in 0..len {
                match catch(|| f(i)) {
                    Ok(Some(b)) if b == inp.bits[i] => {}
                    Ok(g) => {
                        r = Some(fail("get", if g.is_none() { "none_in_range" } else { "wrong_bit" }, format!("get({i}) = {g:?}, bit is {} (len {len})", inp.bits[i])));
                        break;
                    }
                    Err(pf) => {
                        r = Some(fail("get", "panic", format!("get({i}) len {len}: {}", pf.detail)));
                        break;
                    }
                }
            }
            r
        }
        EpFn::Custom(f) => f(inp),
    };
    match r {
        Some(o) => o,
        None => {
            if len == 0 {
                Outcome::trivial(&inp.pass_class())
            } else {
                Outcome::pass(&inp.pass_class())
            }
        }
    }
}

/// All core clauses of `RankSelectOps` in a fixed order, first failure wins (used by the `{trunc}` subjects
/// and by subjects that hand out only a `dyn RankSelectOps`).
pub fn check_core(rs: std::rc::Rc<dyn zipora::succinct::rank_select::RankSelectOps>, inp: &Input, select0: bool) -> Option<Outcome> {
    for ep in subjects::core_eps_dyn(rs, select0) {
        match check_ep(&ep, inp) {
            Outcome::Fail(f) => return Some(Outcome::Fail(f)),
            _ => {}
        }
    }
    None
}

// ---------------------------------------------------------------------------------------------
// spec

pub struct Def {
    pub name: String,
    pub kind: SpaceKind,
    pub builds: Vec<Build>,
    /// restrict the space (AllZero / AllOne): predicate on the expanded bits
    pub applicable: Option<fn(&[bool]) -> bool>,
    /// a tiny applicable input used to list the entry points at registration time
    pub sample: Vec<bool>,
    /// longest grid length run for this definition (None = all)
    pub max_len: Option<usize>,
    pub make: Box<dyn Fn(&Input, Build) -> Result<Vec<Ep>, String>>,
}

pub struct RsSpec {
    pub def: std::rc::Rc<Def>,
    pub ep: &'static str,
}

impl EnumSpec for RsSpec {
    type Case = Case;
    fn name(&self) -> String {
        format!("{}/{}", self.def.name, self.ep)
    }
    fn space(&self, tier: Tier) -> String {
        space::describe(self.def.kind, tier, &self.def.builds, self.def.max_len)
    }
    fn cases(&self, tier: Tier, f: &mut dyn FnMut(Case) -> bool) {
        space::enumerate(self.def.kind, tier, self.def.max_len, &mut |src, sel| {
            if let Some(app) = self.def.applicable {
                if !app(&space::bits_of(&src, self.def.kind)) {
                    return true;
                }
            }
            for &b in &self.def.builds {
                if !f(Case { src: src.clone(), build: b, sel }) {
                    return false;
                }
            }
            true
        });
    }
    fn run(&self, case: &Case) -> Outcome {
        let bits = space::bits_of(&case.src, self.def.kind);
        if let Some(app) = self.def.applicable {
            if !app(&bits) {
                return Outcome::skip("not_applicable");
            }
        }
        let inp = Input::new(bits, case.sel);
        let eps = match catch(|| (self.def.make)(&inp, case.build)) {
            Ok(Ok(e)) => e,
            Ok(Err(_)) => return Outcome::skip("construct_err"),
            Err(pf) => return fail("construct", "panic", pf.detail),
        };
        match eps.iter().find(|e| e.name == self.ep) {
            Some(ep) => check_ep(ep, &inp),
            None => Outcome::fail("harness", format!("entry point {} not produced by {}", self.ep, self.def.name)),
        }
    }
}

/// `Enum` + a per-subject query counter in `extra.queries`.
pub struct Counted(pub Enum<RsSpec>);
impl Subject for Counted {
    fn name(&self) -> String {
        self.0.name()
    }
    fn explore(&self, ctx: &mut Ctx) {
        QUERIES.store(0, Ordering::Relaxed);
        self.0.explore(ctx);
        let n = QUERIES.swap(0, Ordering::Relaxed);
        let name = self.name();
        ctx.stats(&name).extra.insert("queries".into(), n);
    }
    fn replay(&self, ctx: &mut Ctx, w: &Value) -> Verdict {
        self.0.replay(ctx, w)
    }
}

fn main() {
    zverif::main_with("C04", |reg, tier| {
        for def in subjects::all_defs(tier) {
            let def = std::rc::Rc::new(def);
            let sample = Input::new(def.sample.clone(), SelSet::All);
            let names: Vec<&'static str> = match catch(|| (def.make)(&sample, def.builds[0])) {
                Ok(Ok(eps)) => eps.iter().map(|e| e.name).collect(),
                // a constructor that cannot even build the sample still gets its subject
                _ => vec!["construct"],
            };
            for ep in names {
                reg.add(Counted(Enum(RsSpec { def: def.clone(), ep })));
            }
        }
    });
}
