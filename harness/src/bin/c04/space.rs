//! The stated input space of C04: small scope S ∪ threshold grid G of bit strings.

use serde::{Deserialize, Serialize};
use zverif::Tier;

#[derive(Clone, Copy, Debug, Hash, Serialize, Deserialize, PartialEq, Eq)]
pub enum Pat {
    Zeros,
    Ones,
    /// all zero except a single 1 at this position
    One(u32),
    /// all one except a single 0 at this position
    Zero(u32),
    /// 0101..  (bit i = i odd)
    Alt01,
    /// 1010..  (bit i = i even)
    Alt10,
    /// bit i = (i % 3 == 0)
    Period3,
    /// runs of 64 ones / 64 zeros, ones first
    Runs64,
    /// runs of 256 ones / 256 zeros, ones first
    Runs256,
    /// first half ones
    FirstHalfOnes,
    /// ones only in the last (possibly partial) 64-bit word
    LastWordOnly,
    // ---- appended by the coverage audit (serialized form of the variants above is unchanged)
    /// all zero except TWO ones at these positions
    Ones2(u32, u32),
    /// all one except TWO zeros at these positions
    Zeros2(u32, u32),
    /// bit i = (i % n == 0): sparse with many pivots (several 256/512-bit lines per select-cache slot)
    Period(u16),
    /// bit i = (i % n != 0): dense with many zeros (the same for the select0 tables)
    NotPeriod(u16),
    /// density changes every 192 bits (not aligned with 256/512-bit lines): segment s = i/192 has class s%5 in
    /// {empty, a single one at offset 100, every 16th bit, every 2nd bit, full}
    Seg192,
    /// irregular fixed sequence: bit i = (top 3 bits of (i+1)*0x9E3779B97F4A7C15) < m  (density m/8)
    Hash(u8),
}

#[derive(Clone, Debug, Hash, Serialize, Deserialize, PartialEq, Eq)]
pub enum Src {
    /// small scope: bit i of the string = bit i of `bits`
    S { len: u8, bits: u32 },
    /// (single-word spaces only) a 64-bit string whose top `len` bits are the small string, the rest 0
    SHi { len: u8, bits: u32 },
    /// grid point
    G { len: u32, pat: Pat },
}

/// How the `BitVector` handed to the constructor is produced.
#[derive(Clone, Copy, Debug, Hash, Serialize, Deserialize, PartialEq, Eq)]
pub enum Build {
    /// `BitVector::push` bit by bit (also used for subjects that do not take a BitVector)
    Push,
    /// `BitVector::from_raw_bits` with set garbage bits after `len` in the last word and one extra garbage word
    Raw,
    /// push the string followed by 70 ones, then `resize(len, false)`
    Trunc,
    // ---- appended by the coverage audit: the other public ways of producing / editing a BitVector
    /// `with_size(len, bits[0])`, then one `set_range_simd(start, end, !bits[0])` per maximal run of the other value
    SetRange,
    /// `with_size(len, false)`, then `bulk_bitwise_op_simd(&other, Or, 0, len)` where other = string + 70 ones
    OrLonger,
    /// `new()`, then `ensure_set1` / `fast_ensure_set1` for every one (even-numbered ones first: growing paths,
    /// then odd-numbered ones: in-range paths), then `resize(len, false)` for the trailing zeros
    Ensure,
    /// push the string without its middle bit followed by 3 ones, `pop()` three times, `insert(len/2, middle bit)`
    PopInsert,
    /// `with_size(len, !bits[0])`, then `set(i, b)` / `get_mut(i).set(b)` alternately for every bit that differs
    SetBits,
    /// push 130 ones, `clear()`, then push the string
    ClearReuse,
}

#[derive(Clone, Copy, Debug, Hash, Serialize, Deserialize, PartialEq, Eq)]
pub enum SelSet {
    All,
    /// k < 3, k >= n-3, k % 512 in {0,1,2,255,256,257,510,511}
    Sparse,
}

#[derive(Clone, Copy, Debug, PartialEq, Eq)]
pub enum SpaceKind {
    /// the sequence is the string itself
    Bits,
    /// the subject takes raw words and no length: the sequence is the string zero-padded to a multiple of 64
    Words,
    /// the subject takes one word: strings of length <= 64 zero-padded to exactly 64 bits
    Word1,
}

pub const BOUNDARIES: &[u32] = &[64, 256, 512, 2048, 4096, 65536];

pub fn small_len(tier: Tier) -> u8 {
    tier.pick(12, 16)
}

pub fn grid_lengths(tier: Tier) -> Vec<u32> {
    let mut v = vec![0, 1, 63, 64, 65, 127, 128, 255, 256, 257, 511, 512, 513, 2047, 2048, 2049, 4095, 4096, 4097];
    if tier == Tier::Thorough {
        v.extend_from_slice(&[1023, 1024, 1025, 65535, 65536, 65537]);
        v.sort();
    }
    v
}

/// every k is queried up to this length; SelSet::Sparse beyond
pub fn full_select_len(tier: Tier) -> u32 {
    tier.pick(1100, 4097)
}

pub fn single_positions(len: u32) -> Vec<u32> {
    let mut v = Vec::new();
    if len == 0 {
        return v;
    }
    v.push(0);
    v.push(len - 1);
    for &b in BOUNDARIES {
        for p in [b - 1, b, b + 1] {
            if p < len {
                v.push(p);
            }
        }
    }
    v.sort();
    v.dedup();
    v
}

/// lengths at which the audit's multi-line patterns (Period/NotPeriod/Seg192/Hash) are run
pub fn bulk_pattern_len(len: u32, tier: Tier) -> bool {
    match tier {
        Tier::Quick => matches!(len, 257 | 513 | 2048 | 4097),
        Tier::Thorough => len >= 127 && len != 65535 && len != 65537,
    }
}

/// pairs of positions for the two-pivot patterns: first and last bit, and both sides of every block boundary
pub fn pair_positions(len: u32) -> Vec<(u32, u32)> {
    let mut v = Vec::new();
    if len >= 2 {
        v.push((0, len - 1));
    }
    for &b in BOUNDARIES {
        if b < len && b >= 1 && (b - 1, b) != (0, len - 1) {
            v.push((b - 1, b));
        }
    }
    v
}

pub fn patterns(len: u32, tier: Tier) -> Vec<Pat> {
    let mut v = patterns_base(len);
    if len == 0 {
        return v;
    }
    for (a, b) in pair_positions(len) {
        v.push(Pat::Ones2(a, b));
    }
    for (a, b) in pair_positions(len) {
        v.push(Pat::Zeros2(a, b));
    }
    if bulk_pattern_len(len, tier) {
        v.extend_from_slice(&[Pat::Period(8), Pat::Period(16), Pat::NotPeriod(8), Pat::NotPeriod(16), Pat::Seg192, Pat::Hash(1), Pat::Hash(4), Pat::Hash(7)]);
        if len > 4097 {
            v.extend_from_slice(&[Pat::Period(64), Pat::NotPeriod(64)]);
        }
    }
    v
}

fn patterns_base(len: u32) -> Vec<Pat> {
    let mut v = vec![Pat::Zeros, Pat::Ones];
    for p in single_positions(len) {
        v.push(Pat::One(p));
    }
    for p in single_positions(len) {
        v.push(Pat::Zero(p));
    }
    v.extend_from_slice(&[Pat::Alt01, Pat::Alt10, Pat::Period3, Pat::Runs64, Pat::Runs256, Pat::FirstHalfOnes, Pat::LastWordOnly]);
    if len == 0 {
        v.truncate(1);
    }
    v
}

fn raw_bits(src: &Src) -> Vec<bool> {
    match *src {
        Src::S { len, bits } => (0..len as usize).map(|i| (bits >> i) & 1 == 1).collect(),
        Src::SHi { len, bits } => {
            let mut v = vec![false; 64];
            for i in 0..len as usize {
                v[64 - len as usize + i] = (bits >> i) & 1 == 1;
            }
            v
        }
        Src::G { len, pat } => {
            let n = len as usize;
            (0..n)
                .map(|i| match pat {
                    Pat::Zeros => false,
                    Pat::Ones => true,
                    Pat::One(p) => i == p as usize,
                    Pat::Zero(p) => i != p as usize,
                    Pat::Alt01 => i % 2 == 1,
                    Pat::Alt10 => i % 2 == 0,
                    Pat::Period3 => i % 3 == 0,
                    Pat::Runs64 => (i / 64) % 2 == 0,
                    Pat::Runs256 => (i / 256) % 2 == 0,
                    Pat::FirstHalfOnes => i < n / 2,
                    Pat::LastWordOnly => i >= 64 * ((n - 1) / 64),
                    Pat::Ones2(a, b) => i == a as usize || i == b as usize,
                    Pat::Zeros2(a, b) => i != a as usize && i != b as usize,
                    Pat::Period(k) => i % k as usize == 0,
                    Pat::NotPeriod(k) => i % k as usize != 0,
                    Pat::Seg192 => {
                        let w = i % 192;
                        match (i / 192) % 5 {
                            0 => false,
                            1 => w == 100,
                            2 => w % 16 == 5,
                            3 => w % 2 == 0,
                            _ => true,
                        }
                    }
                    Pat::Hash(m) => (((i as u64 + 1).wrapping_mul(0x9E37_79B9_7F4A_7C15)) >> 61) < m as u64,
                })
                .collect()
        }
    }
}

/// the bit sequence the subject is judged against
pub fn bits_of(src: &Src, kind: SpaceKind) -> Vec<bool> {
    let mut b = raw_bits(src);
    match kind {
        SpaceKind::Bits => {}
        SpaceKind::Words => {
            let n = (b.len() + 63) / 64 * 64;
            b.resize(n, false);
        }
        SpaceKind::Word1 => b.resize(64, false),
    }
    b
}

pub fn enumerate(kind: SpaceKind, tier: Tier, max_len: Option<usize>, f: &mut dyn FnMut(Src, SelSet) -> bool) {
    let n = small_len(tier);
    for len in 0..=n {
        for bits in 0..(1u32 << len) {
            if !f(Src::S { len, bits }, SelSet::All) {
                return;
            }
        }
    }
    if kind == SpaceKind::Word1 {
        for len in 1..=n {
            for bits in 0..(1u32 << len) {
                if !f(Src::SHi { len, bits }, SelSet::All) {
                    return;
                }
            }
        }
    }
    let full = full_select_len(tier);
    for len in grid_lengths(tier) {
        if kind == SpaceKind::Word1 && len > 64 {
            break;
        }
        if let Some(m) = max_len {
            if len as usize > m {
                break;
            }
        }
        for pat in patterns(len, tier) {
            let sel = if len <= full { SelSet::All } else { SelSet::Sparse };
            if !f(Src::G { len, pat }, sel) {
                return;
            }
        }
    }
}

pub fn describe(kind: SpaceKind, tier: Tier, builds: &[Build], max_len: Option<usize>) -> String {
    let n = small_len(tier);
    let mut lens = grid_lengths(tier);
    if kind == SpaceKind::Word1 {
        lens.retain(|&l| l <= 64);
    }
    if let Some(m) = max_len {
        lens.retain(|&l| l as usize <= m);
    }
    let kind_s = match kind {
        SpaceKind::Bits => "",
        SpaceKind::Words => " (sequence = string zero-padded to a multiple of 64 bits: the subject takes words, no length)",
        SpaceKind::Word1 => " (sequence = string zero-padded to 64 bits; plus every small string placed in the TOP bits of a word)",
    };
    format!(
        "S = all bit strings of length <= {n}{kind_s}; G = lengths {lens:?} x patterns {{all-0, all-1, single 1 / single 0 at 0, len-1 and b-1,b,b+1 for b in {BOUNDARIES:?}, 0101, 1010, period 3, runs of 64, runs of 256, first half ones, last word only, two ones / two zeros at (0,len-1) and (b-1,b)}}; at lengths {bulk:?} also {{period 8, period 16 and their complements, density switching every 192 bits over {{empty, single one, 1/16, 1/2, full}}, irregular Weyl sequence with density 1/8, 4/8, 7/8{}}}; x BitVector construction {builds:?}; queries: rank at EVERY p in 0..=len, get at every i<len, select at every k < n and k in {{n, n+1}} for len <= {} (beyond: k<3, k>=n-3, k%512 in {{0,1,2,255,256,257,510,511}})",
        if tier == Tier::Thorough { ", period 64 and its complement at 65536" } else { "" },
        full_select_len(tier),
        bulk = lens.iter().copied().filter(|&l| bulk_pattern_len(l, tier)).collect::<Vec<_>>(),
    )
}
