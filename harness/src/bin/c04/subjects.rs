//! Subject definitions of C04: how each structure is built from an `Input` and which entry points it offers.

use crate::{check_core, q, Build, Def, Ep, EpFn, Input, RankFn, SelFn, SpaceKind};
use std::rc::Rc;
use zipora::succinct::rank_select::bmi2_acceleration::{
    Bmi2Accelerator, Bmi2AdvancedPatterns, Bmi2BlockOps, Bmi2BzhiOps, Bmi2Dispatcher, Bmi2RangeOps, Bmi2RankOps, Bmi2SelectOps,
};
use zipora::succinct::rank_select::bmi2_comprehensive::{Bmi2BitOps as CBitOps, Bmi2BlockOps as CBlockOps};
use zipora::succinct::rank_select::builder::RankSelectFactory;
use zipora::succinct::rank_select::{
    bulk_popcount_simd, bulk_rank1_simd, bulk_select1_simd, AccessPattern, AdaptiveMultiDimensional, AdaptiveRankSelect, BuilderOptions,
    MultiDimRankSelect, RankSelectAllOne, RankSelectAllZero, RankSelectBuilder, RankSelectFewOne, RankSelectFewZero, RankSelectInterleaved256,
    RankSelectMixedIL256, RankSelectOps, RankSelectPerformanceOps, RankSelectSE256, RankSelectSE512, RankSelectSimple, SelectionCriteria,
};
use zipora::succinct::{BitVector, BitwiseOp};
use zverif::enumr::fail;
use zverif::util::catch;
use zverif::{Outcome, Tier};

fn es<T, E: std::fmt::Display>(r: Result<T, E>) -> Result<T, String> {
    r.map_err(|e| e.to_string())
}

/// The BitVector handed to constructors.
pub fn bv_from(inp: &Input, build: Build) -> Result<BitVector, String> {
    match build {
        Build::Push => {
            let mut bv = BitVector::new();
            for &b in &inp.bits {
                es(bv.push(b))?;
            }
            Ok(bv)
        }
        Build::Raw => {
            let mut w = inp.words();
            let len = inp.len();
            if len % 64 != 0 {
                let last = w.len() - 1;
                w[last] |= !0u64 << (len % 64);
            }
            w.push(0xDEAD_BEEF_F00D_FFFF);
            es(BitVector::from_raw_bits(w, len))
        }
        Build::Trunc => {
            let mut bv = BitVector::new();
            for &b in &inp.bits {
                es(bv.push(b))?;
            }
            for _ in 0..70 {
                es(bv.push(true))?;
            }
            es(bv.resize(inp.len(), false))?;
            Ok(bv)
        }
        Build::SetRange => {
            let n = inp.len();
            let fill = n > 0 && inp.bits[0];
            let mut bv = es(BitVector::with_size(n, fill))?;
            let mut i = 0;
            while i < n {
                if inp.bits[i] != fill {
                    let s = i;
                    while i < n && inp.bits[i] != fill {
                        i += 1;
                    }
                    es(bv.set_range_simd(s, i, !fill))?;
                } else {
                    i += 1;
                }
            }
            Ok(bv)
        }
        Build::OrLonger => {
            let n = inp.len();
            let mut bv = es(BitVector::with_size(n, false))?;
            if n > 0 {
                let mut other = BitVector::new();
                for &b in &inp.bits {
                    es(other.push(b))?;
                }
                for _ in 0..70 {
                    es(other.push(true))?;
                }
                es(bv.bulk_bitwise_op_simd(&other, BitwiseOp::Or, 0, n))?;
            }
            Ok(bv)
        }
        Build::Ensure => {
            let mut bv = BitVector::new();
            for parity in [0usize, 1] {
                for (j, &p) in inp.ones_pos.iter().enumerate() {
                    if j % 2 != parity {
                        continue;
                    }
                    if (j / 2) % 2 == 0 {
                        es(bv.ensure_set1(p as usize))?;
                    } else {
                        es(bv.fast_ensure_set1(p as usize))?;
                    }
                }
            }
            es(bv.resize(inp.len(), false))?;
            Ok(bv)
        }
        Build::PopInsert => {
            let n = inp.len();
            let mut bv = BitVector::new();
            let m = n / 2;
            for (i, &b) in inp.bits.iter().enumerate() {
                if i != m {
                    es(bv.push(b))?;
                }
            }
            for _ in 0..3 {
                es(bv.push(true))?;
            }
            for _ in 0..3 {
                bv.pop();
            }
            if n > 0 {
                es(bv.insert(m, inp.bits[m]))?;
            }
            Ok(bv)
        }
        Build::SetBits => {
            let n = inp.len();
            let fill = n > 0 && !inp.bits[0];
            let mut bv = es(BitVector::with_size(n, fill))?;
            let mut t = 0usize;
            for (i, &b) in inp.bits.iter().enumerate() {
                if b != fill {
                    if t % 2 == 0 {
                        es(bv.set(i, b))?;
                    } else {
                        let mut r = bv.get_mut(i).ok_or_else(|| "get_mut returned None in range".to_string())?;
                        es(r.set(b))?;
                    }
                    t += 1;
                }
            }
            Ok(bv)
        }
        Build::ClearReuse => {
            let mut bv = BitVector::new();
            for _ in 0..130 {
                es(bv.push(true))?;
            }
            bv.clear();
            for &b in &inp.bits {
                es(bv.push(b))?;
            }
            Ok(bv)
        }
    }
}

fn rank1(name: &'static str, f: impl Fn(usize) -> usize + 'static) -> Ep {
    Ep { name, f: EpFn::Rank1(RankFn::One(Box::new(f))) }
}
fn rank1_bulk(name: &'static str, f: impl Fn(&[usize]) -> Vec<usize> + 'static) -> Ep {
    Ep { name, f: EpFn::Rank1(RankFn::Bulk(Box::new(f))) }
}
fn rank0(name: &'static str, f: impl Fn(usize) -> usize + 'static) -> Ep {
    Ep { name, f: EpFn::Rank0(RankFn::One(Box::new(f))) }
}
fn sel1(name: &'static str, f: impl Fn(usize) -> Result<usize, String> + 'static) -> Ep {
    Ep { name, f: EpFn::Select1(SelFn::One(Box::new(f))) }
}
fn sel1_bulk(name: &'static str, f: impl Fn(&[usize]) -> Result<Vec<usize>, String> + 'static) -> Ep {
    Ep { name, f: EpFn::Select1(SelFn::Bulk(Box::new(f))) }
}
fn sel0(name: &'static str, f: impl Fn(usize) -> Result<usize, String> + 'static) -> Ep {
    Ep { name, f: EpFn::Select0(SelFn::One(Box::new(f))) }
}
fn custom(name: &'static str, f: impl Fn(&Input) -> Option<Outcome> + 'static) -> Ep {
    Ep { name, f: EpFn::Custom(Box::new(f)) }
}

/// The seven `RankSelectOps` clauses.
pub fn core_eps_dyn(rs: Rc<dyn RankSelectOps>, select0: bool) -> Vec<Ep> {
    let mut v = Vec::new();
    let r = rs.clone();
    v.push(Ep { name: "len", f: EpFn::Len(Box::new(move || r.len())) });
    let r = rs.clone();
    // (audit) the derived trait observers count_zeros() / is_empty() are judged together with count_ones()
    v.push(Ep { name: "count_ones", f: EpFn::Counts(Box::new(move || (r.count_ones(), r.count_zeros(), r.is_empty()))) });
    let r = rs.clone();
    v.push(Ep { name: "get", f: EpFn::Get(Box::new(move |i| r.get(i))) });
    let r = rs.clone();
    v.push(rank1("rank1", move |p| r.rank1(p)));
    let r = rs.clone();
    v.push(rank0("rank0", move |p| r.rank0(p)));
    let r = rs.clone();
    v.push(sel1("select1", move |k| es(r.select1(k))));
    if select0 {
        let r = rs.clone();
        v.push(sel0("select0", move |k| es(r.select0(k))));
    }
    v
}

fn core_eps<T: RankSelectOps + 'static>(rs: T, select0: bool) -> Vec<Ep> {
    core_eps_dyn(Rc::new(rs), select0)
}

/// (audit) inherent count observers of a concrete type, judged against the bits: `(what, got, want)` triples
fn inherent(name: &'static str, f: impl Fn(&Input) -> Vec<(String, usize, usize)> + 'static) -> Ep {
    custom(name, move |inp| {
        let rows = match catch(|| f(inp)) {
            Ok(r) => r,
            Err(pf) => return Some(fail("count_ones", "inherent/panic", pf.detail)),
        };
        q(rows.len());
        for (what, got, want) in rows {
            if got != want {
                return Some(fail("count_ones", "inherent/wrong", format!("{what} = {got}, the sequence says {want} (len {}, {} ones)", inp.len(), inp.ones())));
            }
        }
        None
    })
}

/// core entry points + `inherent_observers` of a concrete structure
fn core_plus<T: RankSelectOps + 'static>(rs: T, select0: bool, rows: impl Fn(&T, &Input) -> Vec<(String, usize, usize)> + 'static) -> Vec<Ep> {
    let rs = Rc::new(rs);
    let mut v = core_eps_dyn(rs.clone(), select0);
    v.push(inherent("inherent_observers", move |inp| rows(&rs, inp)));
    v
}

fn def(name: &str, kind: SpaceKind, builds: &[Build], make: impl Fn(&Input, Build) -> Result<Vec<Ep>, String> + 'static) -> Def {
    Def { name: name.to_string(), kind, builds: builds.to_vec(), applicable: None, sample: vec![true, false, true], max_len: None, make: Box::new(make) }
}

const PR: &[Build] = &[Build::Push, Build::Raw];
const P: &[Build] = &[Build::Push];

/// wrapper: one dimension of a RankSelectMixedIL256 as an owned RankSelectOps
struct MixedDim {
    parent: RankSelectMixedIL256,
    dim: usize,
}
impl RankSelectOps for MixedDim {
    fn rank1(&self, p: usize) -> usize {
        if self.dim == 0 { self.parent.dim0().rank1(p) } else { self.parent.dim1().rank1(p) }
    }
    fn rank0(&self, p: usize) -> usize {
        if self.dim == 0 { self.parent.dim0().rank0(p) } else { self.parent.dim1().rank0(p) }
    }
    fn select1(&self, k: usize) -> zipora::error::Result<usize> {
        if self.dim == 0 { self.parent.dim0().select1(k) } else { self.parent.dim1().select1(k) }
    }
    fn select0(&self, k: usize) -> zipora::error::Result<usize> {
        if self.dim == 0 { self.parent.dim0().select0(k) } else { self.parent.dim1().select0(k) }
    }
    fn len(&self) -> usize {
        if self.dim == 0 { self.parent.dim0().len() } else { self.parent.dim1().len() }
    }
    fn count_ones(&self) -> usize {
        if self.dim == 0 { self.parent.dim0().count_ones() } else { self.parent.dim1().count_ones() }
    }
    fn get(&self, i: usize) -> Option<bool> {
        if self.dim == 0 { self.parent.dim0().get(i) } else { self.parent.dim1().get(i) }
    }
    fn space_overhead_percent(&self) -> f64 {
        0.0
    }
}

fn il256_eps(rs: RankSelectInterleaved256, perf: bool) -> Vec<Ep> {
    let rs = Rc::new(rs);
    let mut v = core_eps_dyn(rs.clone(), true);
    if perf {
        let r = rs.clone();
        v.push(rank1("rank1_hardware_accelerated", move |p| r.rank1_hardware_accelerated(p)));
        let r = rs.clone();
        v.push(rank1("rank1_adaptive", move |p| r.rank1_adaptive(p)));
        let r = rs.clone();
        v.push(rank1("rank1_optimized", move |p| r.rank1_optimized(p)));
        let r = rs.clone();
        v.push(rank1_bulk("rank1_bulk", move |ps| r.rank1_bulk(ps)));
        let r = rs.clone();
        v.push(rank1_bulk("rank1_bulk_optimized", move |ps| r.rank1_bulk_optimized(ps)));
        let r = rs.clone();
        v.push(sel1("select1_hardware_accelerated", move |k| es(r.select1_hardware_accelerated(k))));
        let r = rs.clone();
        v.push(sel1("select1_adaptive", move |k| es(r.select1_adaptive(k))));
        let r = rs.clone();
        v.push(sel1("select1_optimized", move |k| es(r.select1_optimized(k))));
        let r = rs.clone();
        v.push(sel1_bulk("select1_bulk", move |ks| es(r.select1_bulk(ks))));
        let r = rs.clone();
        v.push(sel1_bulk("select1_bulk_optimized", move |ks| es(r.select1_bulk_optimized(ks))));
        // (audit) get_bit_data(): the stored words must be the sequence, with nothing set beyond len
        let r = rs.clone();
        v.push(inherent("inherent_observers", move |inp| {
            let got = r.get_bit_data();
            let want = inp.words();
            let mut rows = vec![("get_bit_data().len()".to_string(), got.len(), want.len())];
            for (i, (&g, &w)) in got.iter().zip(want.iter()).enumerate() {
                if g != w {
                    rows.push((format!("get_bit_data()[{i}] (low half)"), (g & 0xFFFF_FFFF) as usize, (w & 0xFFFF_FFFF) as usize));
                    rows.push((format!("get_bit_data()[{i}] (high half)"), (g >> 32) as usize, (w >> 32) as usize));
                }
            }
            rows
        }));
    }
    v
}

fn criteria(which: &str) -> SelectionCriteria {
    let d = SelectionCriteria::default();
    match which {
        "default" => d,
        "space,fixed_thresholds,no_select_cache" => SelectionCriteria { prefer_space: true, enable_adaptive_thresholds: false, enable_select_cache: false, ..d },
        "RankHeavy" => SelectionCriteria { access_pattern: AccessPattern::RankHeavy, ..d },
        "SelectHeavy" => SelectionCriteria { access_pattern: AccessPattern::SelectHeavy, ..d },
        "Sequential" => SelectionCriteria { access_pattern: AccessPattern::Sequential, ..d },
        "Random" => SelectionCriteria { access_pattern: AccessPattern::Random, min_hardware_tier: 4, small_dataset_threshold: 100, ..d },
        _ => unreachable!(),
    }
}

/// dimension d of the multi-dimensional subjects as a function of the case's string
fn dim_input(inp: &Input, d: usize) -> Input {
    match d {
        0 => Input::new(inp.bits.clone(), inp.sel),
        1 => inp.transformed(|_, b| !b),
        2 => inp.reversed(),
        3 => inp.transformed(|i, b| b ^ (i % 2 == 1)),
        _ => inp.transformed(|i, b| b ^ (i % 3 == 0)),
    }
}

fn multidim_eps<const D: usize>(inp: &Input, build: Build) -> Result<Vec<Ep>, String> {
    let dims: Vec<Input> = (0..D).map(|d| dim_input(inp, d)).collect();
    let mut bvs = Vec::new();
    for d in &dims {
        bvs.push(bv_from(d, build)?);
    }
    let m: Rc<MultiDimRankSelect<D>> = Rc::new(es(MultiDimRankSelect::<D>::new(bvs))?);
    let dims = Rc::new(dims);
    let mut v = Vec::new();
    let (m1, d1) = (m.clone(), dims.clone());
    v.push(custom("bulk_rank_multidim", move |inp| {
        let len = inp.len();
        q((len + 1) * D * 2);
        for p in 0..=len {
            let r = match catch(|| m1.bulk_rank_multidim(&[p; D])) {
                Ok(r) => r,
                Err(pf) => return Some(fail("rank1", format!("panic/{}", crate_pos_class(p, len)), pf.detail)),
            };
            for d in 0..D {
                if r[d] != d1[d].prefix[p] as usize {
                    return Some(fail("rank1", crate_pos_class(p, len), format!("bulk_rank_multidim([{p};{D}])[{d}] = {}, definition says {}", r[d], d1[d].prefix[p])));
                }
            }
            // (audit) a DIFFERENT position in every component: an answer computed from another component's
            // position (or another dimension's bits at the same position) is only visible here
            let mut pv = [0usize; D];
            for d in 0..D {
                pv[d] = (p * (d + 1) + d * 37) % (len + 1);
            }
            let r = match catch(|| m1.bulk_rank_multidim(&pv)) {
                Ok(r) => r,
                Err(pf) => return Some(fail("rank1", format!("panic/{}", crate_pos_class(p, len)), pf.detail)),
            };
            for d in 0..D {
                if r[d] != d1[d].prefix[pv[d]] as usize {
                    return Some(fail("rank1", "distinct_positions", format!("bulk_rank_multidim({pv:?})[{d}] = {}, definition says {}", r[d], d1[d].prefix[pv[d]])));
                }
            }
        }
        None
    }));
    let (m2, d2) = (m.clone(), dims.clone());
    v.push(custom("bulk_select_multidim", move |_inp| {
        // a query vector is valid only if every component is; dimension d is probed with 0 in the other components
        if d2.iter().any(|d| d.ones() == 0) {
            // every vector is invalid: must be Err
            q(1);
            return match catch(|| m2.bulk_select_multidim(&[0; D])) {
                Ok(Ok(r)) => Some(fail("select1", "k==n/returns_ok", format!("bulk_select_multidim([0;{D}]) = Ok({r:?}) although a dimension has no ones"))),
                Ok(Err(_)) => None,
                Err(pf) => Some(fail("select1", "k>=n/panic", pf.detail)),
            };
        }
        for d in 0..D {
            let ks = d2[d].ks(d2[d].ones());
            q(ks.len() + 2);
            for &k in &ks {
                let mut qv = [0usize; D];
                qv[d] = k;
                match catch(|| m2.bulk_select_multidim(&qv)) {
                    Ok(Ok(r)) => {
                        for j in 0..D {
                            let want = d2[j].ones_pos[qv[j]] as usize;
                            if r[j] != want {
                                return Some(fail("select1", "k<n/wrong_pos", format!("bulk_select_multidim({qv:?})[{j}] = {}, definition says {want}", r[j])));
                            }
                        }
                    }
                    Ok(Err(e)) => return Some(fail("select1", "k<n/err", format!("bulk_select_multidim({qv:?}) = Err({e})"))),
                    Err(pf) => return Some(fail("select1", "k<n/panic", format!("bulk_select_multidim({qv:?}): {}", pf.detail))),
                }
            }
            // (audit) all components non-zero at once: component j asks for its own k-th one, k = (ones_j - 1 - j) clamped
            if d == 0 {
                let mut qv = [0usize; D];
                for j in 0..D {
                    qv[j] = d2[j].ones().saturating_sub(1 + j);
                }
                q(D);
                match catch(|| m2.bulk_select_multidim(&qv)) {
                    Ok(Ok(r)) => {
                        for j in 0..D {
                            let want = d2[j].ones_pos[qv[j]] as usize;
                            if r[j] != want {
                                return Some(fail("select1", "k<n/wrong_pos", format!("bulk_select_multidim({qv:?})[{j}] = {}, definition says {want}", r[j])));
                            }
                        }
                    }
                    Ok(Err(e)) => return Some(fail("select1", "k<n/err", format!("bulk_select_multidim({qv:?}) = Err({e})"))),
                    Err(pf) => return Some(fail("select1", "k<n/panic", format!("bulk_select_multidim({qv:?}): {}", pf.detail))),
                }
            }
            for k in [d2[d].ones(), d2[d].ones() + 1] {
                let mut qv = [0usize; D];
                qv[d] = k;
                match catch(|| m2.bulk_select_multidim(&qv)) {
                    Ok(Ok(r)) => return Some(fail("select1", "k==n/returns_ok", format!("bulk_select_multidim({qv:?}) = Ok({r:?}), dimension {d} has only {} ones", d2[d].ones()))),
                    Ok(Err(_)) => {}
                    Err(pf) => return Some(fail("select1", "k>=n/panic", format!("bulk_select_multidim({qv:?}): {}", pf.detail))),
                }
            }
        }
        None
    }));
    Ok(v)
}

fn crate_pos_class(p: usize, len: usize) -> &'static str {
    if p == len {
        if len > 0 && len % 256 == 0 {
            "p==len,len%256==0"
        } else if len > 0 && len % 64 == 0 {
            "p==len,len%64==0"
        } else {
            "p==len"
        }
    } else if p >= 64 {
        "p<len,p>=64"
    } else {
        "p<len,p<64"
    }
}

fn trunc_def(name: &str, select0: bool, mk: impl Fn(BitVector) -> Result<Rc<dyn RankSelectOps>, String> + 'static) -> Def {
    built_def(name, "trunc", Build::Trunc, select0, mk)
}

/// one subject `<name>{<tag>}/core`: the BitVector is produced by `build`, the structure is built from it and all core
/// clauses are checked in a fixed order
fn built_def(name: &str, tag: &str, build: Build, select0: bool, mk: impl Fn(BitVector) -> Result<Rc<dyn RankSelectOps>, String> + 'static) -> Def {
    let mk = Rc::new(mk);
    def(&format!("{name}{{{tag}}}"), SpaceKind::Bits, &[build], move |_inp, b| {
        let mk = mk.clone();
        // the structure is built inside the entry point so that a constructor panic is judged as a case outcome
        Ok(vec![custom("core", move |inp| {
            let bv = match bv_from(inp, b) {
                Ok(bv) => bv,
                Err(_) => return None,
            };
            let rs = match catch(|| mk(bv)) {
                Ok(Ok(rs)) => rs,
                Ok(Err(_)) => return None,
                Err(pf) => return Some(fail("construct", "panic", pf.detail)),
            };
            check_core(rs, inp, select0)
        })])
    })
}

pub fn all_defs(tier: Tier) -> Vec<Def> {
    let mut v: Vec<Def> = Vec::new();

    // ---- BitVector's own rank
    v.push(def("BitVector", SpaceKind::Bits, PR, |inp, b| {
        let bv = Rc::new(bv_from(inp, b)?);
        let mut e = Vec::new();
        let r = bv.clone();
        e.push(Ep { name: "len", f: EpFn::Len(Box::new(move || r.len())) });
        let r = bv.clone();
        e.push(Ep { name: "count_ones", f: EpFn::Counts(Box::new(move || (r.count_ones(), r.count_zeros(), r.is_empty()))) });
        let r = bv.clone();
        e.push(Ep { name: "get", f: EpFn::Get(Box::new(move |i| r.get(i))) });
        let r = bv.clone();
        e.push(rank1("rank1", move |p| r.rank1(p)));
        let r = bv.clone();
        e.push(rank0("rank0", move |p| r.rank0(p)));
        let r = bv.clone();
        e.push(rank1_bulk("rank1_bulk_simd", move |ps| r.rank1_bulk_simd(ps)));
        Ok(e)
    }));

    // ---- RankSelectInterleaved256
    v.push(def("IL256[new]", SpaceKind::Bits, PR, |inp, b| Ok(il256_eps(es(RankSelectInterleaved256::new(bv_from(inp, b)?))?, true))));
    v.push(def("IL256[cache=off]", SpaceKind::Bits, PR, |inp, b| {
        Ok(il256_eps(es(RankSelectInterleaved256::with_options(bv_from(inp, b)?, false, 512))?, true))
    }));
    for rate in [1usize, 7, 64] {
        if rate == 64 && tier == Tier::Quick {
            continue;
        }
        v.push(def(&format!("IL256[cache=on,rate={rate}]"), SpaceKind::Bits, P, move |inp, b| {
            Ok(il256_eps(es(RankSelectInterleaved256::with_options(bv_from(inp, b)?, true, rate))?, false))
        }));
    }
    v.push(def("IL256[from_iter]", SpaceKind::Bits, P, |inp, _| {
        Ok(il256_eps(es(<RankSelectInterleaved256 as RankSelectBuilder<RankSelectInterleaved256>>::from_iter(inp.bits.iter().copied()))?, false))
    }));
    v.push(def("IL256[from_bytes]", SpaceKind::Bits, P, |inp, _| {
        let mut bytes = vec![0u8; (inp.len() + 7) / 8];
        for (i, &b) in inp.bits.iter().enumerate() {
            if b {
                bytes[i / 8] |= 1 << (i % 8);
            }
        }
        // garbage after the last valid bit and one extra byte: from_bytes must ignore them
        if inp.len() % 8 != 0 {
            let l = bytes.len() - 1;
            bytes[l] |= 0xFFu8 << (inp.len() % 8);
        }
        bytes.push(0xFF);
        Ok(il256_eps(es(<RankSelectInterleaved256 as RankSelectBuilder<RankSelectInterleaved256>>::from_bytes(&bytes, inp.len()))?, false))
    }));
    v.push(def("IL256[with_optimizations(select=off,rate=256)]", SpaceKind::Bits, P, |inp, b| {
        let o = BuilderOptions { optimize_select: false, block_size: 512, select_sample_rate: 256, enable_simd: false, prefer_space: true };
        Ok(il256_eps(es(<RankSelectInterleaved256 as RankSelectBuilder<RankSelectInterleaved256>>::with_optimizations(bv_from(inp, b)?, o))?, false))
    }));

    // ---- separated 256 / 512
    for (s0, s1) in [(true, true), (false, false), (true, false), (false, true)] {
        let builds = if s0 && s1 { PR } else { P };
        v.push(def(&format!("SE256[s0={},s1={}]", s0 as u8, s1 as u8), SpaceKind::Bits, builds, move |inp, b| {
            Ok(core_eps(es(RankSelectSE256::with_options(bv_from(inp, b)?, s0, s1))?, true))
        }));
        v.push(def(&format!("SE512[s0={},s1={}]", s0 as u8, s1 as u8), SpaceKind::Bits, builds, move |inp, b| {
            Ok(core_eps(es(RankSelectSE512::with_options(bv_from(inp, b)?, s0, s1))?, true))
        }));
    }
    v.push(def("SE256[new]", SpaceKind::Bits, P, |inp, b| {
        Ok(core_plus(es(RankSelectSE256::new(bv_from(inp, b)?))?, true, |r, i| vec![("max_rank1()".into(), r.max_rank1(), i.ones()), ("max_rank0()".into(), r.max_rank0(), i.zeros())]))
    }));
    v.push(def("SE512[new]", SpaceKind::Bits, P, |inp, b| {
        Ok(core_plus(es(RankSelectSE512::new(bv_from(inp, b)?))?, true, |r, i| vec![("max_rank1()".into(), r.max_rank1(), i.ones()), ("max_rank0()".into(), r.max_rank0(), i.zeros())]))
    }));

    // ---- simple
    v.push(def("Simple[new]", SpaceKind::Bits, PR, |inp, b| {
        Ok(core_plus(es(RankSelectSimple::new(bv_from(inp, b)?))?, true, |r, i| vec![("max_rank1()".into(), r.max_rank1(), i.ones()), ("max_rank0()".into(), r.max_rank0(), i.zeros())]))
    }));
    v.push(def("Simple[from_words]", SpaceKind::Bits, P, |inp, _| {
        let mut w = inp.words();
        if inp.len() % 64 != 0 {
            let l = w.len() - 1;
            w[l] |= !0u64 << (inp.len() % 64);
        }
        w.push(!0);
        Ok(core_eps(es(RankSelectSimple::from_words(w, inp.len()))?, true))
    }));

    // ---- few
    v.push(def("FewOne[from_bitvector]", SpaceKind::Bits, PR, |inp, b| Ok(core_eps(es(RankSelectFewOne::from_bitvector(&bv_from(inp, b)?))?, true))));
    v.push(def("FewOne[new]", SpaceKind::Bits, P, |inp, _| {
        Ok(core_plus(es(RankSelectFewOne::new(inp.ones_pos.clone(), inp.len()))?, true, |r, i| vec![("num_ones()".into(), r.num_ones(), i.ones()), ("num_zeros()".into(), r.num_zeros(), i.zeros())]))
    }));
    v.push(def("FewZero[from_bitvector]", SpaceKind::Bits, PR, |inp, b| Ok(core_eps(es(RankSelectFewZero::from_bitvector(&bv_from(inp, b)?))?, true))));
    v.push(def("FewZero[new]", SpaceKind::Bits, P, |inp, _| {
        Ok(core_plus(es(RankSelectFewZero::new(inp.zeros_pos.clone(), inp.len()))?, true, |r, i| vec![("num_ones()".into(), r.num_ones(), i.ones()), ("num_zeros()".into(), r.num_zeros(), i.zeros())]))
    }));

    // ---- trivial (only applicable to all-zero / all-one strings)
    let mut d = def("AllZero", SpaceKind::Bits, P, |inp, _| {
        Ok(core_plus(RankSelectAllZero::new(inp.len()), true, |r, i| {
            let mut v = vec![("max_rank1()".to_string(), r.max_rank1(), i.ones()), ("max_rank0()".to_string(), r.max_rank0(), i.zeros())];
            for p in 0..i.len() {
                v.push((format!("is1({p})"), r.is1(p) as usize, i.bits[p] as usize));
                v.push((format!("is0({p})"), r.is0(p) as usize, !i.bits[p] as usize));
            }
            v
        }))
    });
    d.applicable = Some(|b| b.iter().all(|&x| !x));
    d.sample = vec![false, false];
    v.push(d);
    let mut d = def("AllOne", SpaceKind::Bits, P, |inp, _| {
        Ok(core_plus(RankSelectAllOne::new(inp.len()), true, |r, i| {
            let mut v = vec![("max_rank1()".to_string(), r.max_rank1(), i.ones()), ("max_rank0()".to_string(), r.max_rank0(), i.zeros())];
            for p in 0..i.len() {
                v.push((format!("is1({p})"), r.is1(p) as usize, i.bits[p] as usize));
                v.push((format!("is0({p})"), r.is0(p) as usize, !i.bits[p] as usize));
            }
            v
        }))
    });
    d.applicable = Some(|b| b.iter().all(|&x| x));
    d.sample = vec![true, true];
    v.push(d);

    // ---- mixed two-dimension interleaved (select0 is "not yet implemented": not offered)
    v.push(def("MixedIL256[dim0,other=complement]", SpaceKind::Bits, PR, |inp, b| {
        let other = inp.transformed(|_, x| !x);
        let parent = es(RankSelectMixedIL256::new(bv_from(inp, b)?, bv_from(&other, b)?))?;
        Ok(core_eps(MixedDim { parent, dim: 0 }, false))
    }));
    v.push(def("MixedIL256[dim1,other=complement]", SpaceKind::Bits, P, |inp, b| {
        let other = inp.transformed(|_, x| !x);
        let parent = es(RankSelectMixedIL256::new(bv_from(&other, b)?, bv_from(inp, b)?))?;
        Ok(core_eps(MixedDim { parent, dim: 1 }, false))
    }));
    v.push(def("MixedIL256[dim0,other=longer_by_300]", SpaceKind::Bits, P, |inp, b| {
        let mut ob = inp.bits.clone();
        ob.extend(std::iter::repeat(true).take(300));
        let other = Input::new(ob, inp.sel);
        let parent = es(RankSelectMixedIL256::new(bv_from(inp, b)?, bv_from(&other, b)?))?;
        // (audit) inherent per-dimension observers, including the OTHER (longer) dimension at its own end
        Ok(core_plus(MixedDim { parent, dim: 0 }, false, |r, i| {
            let (n, o) = (i.len(), i.ones());
            let m = &r.parent;
            vec![
                ("size_dim(0)".into(), m.size_dim(0), n),
                ("size_dim(1)".into(), m.size_dim(1), n + 300),
                ("max_rank1_dim(0)".into(), m.max_rank1_dim(0), o),
                ("max_rank1_dim(1)".into(), m.max_rank1_dim(1), o + 300),
                ("rank1_dim(0, size)".into(), m.rank1_dim(0, n), o),
                ("rank0_dim(0, size)".into(), m.rank0_dim(0, n), n - o),
                ("rank1_dim(1, size0)".into(), m.rank1_dim(1, n), o),
                ("rank1_dim(1, size1)".into(), m.rank1_dim(1, n + 300), o + 300),
                ("rank0_dim(1, size1)".into(), m.rank0_dim(1, n + 300), n - o),
                ("select1_dim(1, last) ".into(), m.select1_dim(1, o + 299).unwrap_or(usize::MAX), n + 299),
                ("get_dim(1, last)".into(), m.get_dim(1, n + 299).map(|b| b as usize).unwrap_or(2), 1),
                ("get_dim(0, size) is None".into(), m.get_dim(0, n).is_none() as usize, 1),
            ]
        }))
    }));
    v.push(def("MixedIL256[dim1,other=half_length]", SpaceKind::Bits, P, |inp, b| {
        let other = Input::new(inp.bits[..inp.len() / 2].iter().map(|x| !x).collect(), inp.sel);
        let parent = es(RankSelectMixedIL256::new(bv_from(&other, b)?, bv_from(inp, b)?))?;
        Ok(core_eps(MixedDim { parent, dim: 1 }, false))
    }));

    // ---- adaptive
    for c in ["default", "space,fixed_thresholds,no_select_cache", "RankHeavy", "SelectHeavy", "Sequential", "Random"] {
        let builds = if c == "default" { PR } else { P };
        v.push(def(&format!("Adaptive[{c}]"), SpaceKind::Bits, builds, move |inp, b| {
            Ok(core_eps(es(AdaptiveRankSelect::with_criteria(bv_from(inp, b)?, criteria(c)))?, true))
        }));
    }
    v.push(def("Adaptive[new]", SpaceKind::Bits, P, |inp, b| {
        // (audit) the data profile the choice is made from must describe the sequence
        Ok(core_plus(es(AdaptiveRankSelect::new(bv_from(inp, b)?))?, true, |r, i| {
            let p = r.data_profile();
            let dens = if i.len() == 0 { 0.0 } else { i.ones() as f64 / i.len() as f64 };
            vec![
                ("data_profile().total_bits".into(), p.total_bits, i.len()),
                ("data_profile().ones_count".into(), p.ones_count, i.ones()),
                ("data_profile().density == ones/len".into(), (p.density == dens) as usize, 1),
            ]
        }))
    }));
    v.push(def("AdaptiveMultiDim[new_dual,other=complement]", SpaceKind::Bits, PR, |inp, b| {
        let other = inp.transformed(|_, x| !x);
        Ok(core_eps(es(AdaptiveMultiDimensional::new_dual(bv_from(inp, b)?, bv_from(&other, b)?))?, true))
    }));

    // ---- multi-dimensional
    v.push(def("MultiDim<2>", SpaceKind::Bits, P, |inp, b| multidim_eps::<2>(inp, b)));
    v.push(def("MultiDim<3>", SpaceKind::Bits, P, |inp, b| multidim_eps::<3>(inp, b)));
    v.push(def("MultiDim<4>", SpaceKind::Bits, P, |inp, b| multidim_eps::<4>(inp, b)));
    // (audit) more than 4 dimensions takes the scalar branch of bulk_rank_multidim on every CPU tier
    v.push(def("MultiDim<5>", SpaceKind::Bits, P, |inp, b| multidim_eps::<5>(inp, b)));

    // ---- factory (a handful of inputs is enough: it either builds something or it does not)
    let mut d = def("RankSelectFactory", SpaceKind::Bits, P, |inp, b| {
        let bits = Rc::new(bv_from(inp, b)?);
        Ok(vec![custom("create_optimal", move |inp| {
            let rs = match catch(|| RankSelectFactory::create_optimal((*bits).clone(), BuilderOptions::default())) {
                Ok(Ok(r)) => r,
                Ok(Err(_)) => return None,
                Err(pf) => return Some(fail("construct", "panic", pf.detail)),
            };
            let rc: Rc<dyn RankSelectOps> = Rc::from(rs);
            check_core(rc, inp, true)
        })])
    });
    d.max_len = Some(257);
    d.applicable = Some(|b| b.len() <= 3 || b.len() > 16);
    v.push(d);

    // ---- BitVector states left behind by resize(): one subject per structure family, all core clauses
    v.push(trunc_def("BitVector", false, |bv| {
        // BitVector has no select: adapter offering rank/get/len/count_ones through IL256-free wrappers
        Ok(Rc::new(BvOps(bv)) as Rc<dyn RankSelectOps>)
    }));
    v.push(trunc_def("IL256[new]", true, |bv| Ok(Rc::new(es(RankSelectInterleaved256::new(bv))?) as Rc<dyn RankSelectOps>)));
    v.push(trunc_def("SE256[new]", true, |bv| Ok(Rc::new(es(RankSelectSE256::new(bv))?) as Rc<dyn RankSelectOps>)));
    v.push(trunc_def("SE512[new]", true, |bv| Ok(Rc::new(es(RankSelectSE512::new(bv))?) as Rc<dyn RankSelectOps>)));
    v.push(trunc_def("Simple[new]", true, |bv| Ok(Rc::new(es(RankSelectSimple::new(bv))?) as Rc<dyn RankSelectOps>)));
    v.push(trunc_def("FewOne[from_bitvector]", true, |bv| Ok(Rc::new(es(RankSelectFewOne::from_bitvector(&bv))?) as Rc<dyn RankSelectOps>)));
    v.push(trunc_def("FewZero[from_bitvector]", true, |bv| Ok(Rc::new(es(RankSelectFewZero::from_bitvector(&bv))?) as Rc<dyn RankSelectOps>)));
    v.push(trunc_def("MixedIL256[dim0,other=same]", false, |bv| {
        let parent = es(RankSelectMixedIL256::new(bv.clone(), bv))?;
        Ok(Rc::new(MixedDim { parent, dim: 0 }) as Rc<dyn RankSelectOps>)
    }));
    v.push(trunc_def("Adaptive[new]", true, |bv| Ok(Rc::new(es(AdaptiveRankSelect::new(bv))?) as Rc<dyn RankSelectOps>)));

    // ---- (audit) BitVector states produced by the other public constructors / mutators: the structures that copy
    //      `blocks()` (SE256, SE512, Simple), the one that re-extracts words (IL256) and BitVector's own rank
    for (tag, build) in [
        ("set_range", Build::SetRange),
        ("or_longer", Build::OrLonger),
        ("ensure_set1", Build::Ensure),
        ("pop_insert", Build::PopInsert),
        ("set_bits", Build::SetBits),
        ("clear_reuse", Build::ClearReuse),
    ] {
        v.push(built_def("BitVector", tag, build, false, |bv| Ok(Rc::new(BvOps(bv)) as Rc<dyn RankSelectOps>)));
        v.push(built_def("IL256[new]", tag, build, true, |bv| Ok(Rc::new(es(RankSelectInterleaved256::new(bv))?) as Rc<dyn RankSelectOps>)));
        v.push(built_def("SE256[new]", tag, build, true, |bv| Ok(Rc::new(es(RankSelectSE256::new(bv))?) as Rc<dyn RankSelectOps>)));
        v.push(built_def("SE512[new]", tag, build, true, |bv| Ok(Rc::new(es(RankSelectSE512::new(bv))?) as Rc<dyn RankSelectOps>)));
        v.push(built_def("Simple[new]", tag, build, true, |bv| Ok(Rc::new(es(RankSelectSimple::new(bv))?) as Rc<dyn RankSelectOps>)));
    }

    // ---- word-array entry points (no length: sequence = padded words)
    v.push(def("simd", SpaceKind::Words, P, |inp, _| {
        let w = Rc::new(inp.words());
        let mut e = Vec::new();
        let r = w.clone();
        e.push(rank1_bulk("bulk_rank1_simd", move |ps| bulk_rank1_simd(&r, ps)));
        let r = w.clone();
        e.push(sel1_bulk("bulk_select1_simd", move |ks| es(bulk_select1_simd(&r, ks))));
        let r = w.clone();
        e.push(custom("bulk_popcount_simd", move |_| popcounts_check(&r, bulk_popcount_simd(&r))));
        Ok(e)
    }));
    v.push(def("Bmi2BlockOps", SpaceKind::Words, P, |inp, _| {
        let w = Rc::new(inp.words());
        let mut e = Vec::new();
        let r = w.clone();
        e.push(rank1_bulk("rank_bulk", move |ps| Bmi2BlockOps::rank_bulk(&r, ps)));
        let r = w.clone();
        e.push(sel1_bulk("select_bulk", move |ks| es(Bmi2BlockOps::select_bulk(&r, ks))));
        let r = w.clone();
        // (audit) the AVX2 branch needs >= 4 words; the second component is the leading-zero count of the word
        e.push(custom("process_blocks_simd", move |_| {
            let got = Bmi2BlockOps::process_blocks_simd(&r);
            if let Some(o) = popcounts_check(&r, got.iter().map(|x| x.0 as usize).collect()) {
                return Some(o);
            }
            for (i, &w) in r.iter().enumerate() {
                if got[i].1 != w.leading_zeros() {
                    return Some(fail("count_ones", "leading_zeros", format!("process_blocks_simd word {i} ({w:#x}): leading zeros {}, definition says {}", got[i].1, w.leading_zeros())));
                }
            }
            None
        }));
        Ok(e)
    }));
    v.push(def("Bmi2Accelerator", SpaceKind::Words, P, |inp, _| {
        let w = Rc::new(inp.words());
        let a = Rc::new(Bmi2Accelerator::new());
        let mut e = Vec::new();
        let (r, a1) = (w.clone(), a.clone());
        e.push(rank1_bulk("rank_bulk", move |ps| a1.rank_bulk(&r, ps)));
        let (r, a1) = (w.clone(), a.clone());
        e.push(sel1_bulk("select_bulk", move |ks| es(a1.select_bulk(&r, ks))));
        Ok(e)
    }));
    v.push(def("Bmi2Comprehensive::BlockOps", SpaceKind::Words, P, |inp, _| {
        let w = Rc::new(inp.words());
        let mut e = Vec::new();
        let r = w.clone();
        e.push(rank1_bulk("bulk_rank1", move |ps| CBlockOps::bulk_rank1(&r, ps)));
        let r = w.clone();
        // ranks are 1-based in this API: the k-th one (0-based) is rank k+1
        e.push(sel1_bulk("bulk_select1", move |ks| {
            let ranks: Vec<usize> = ks.iter().map(|k| k + 1).collect();
            es(CBlockOps::bulk_select1(&r, &ranks))
        }));
        Ok(e)
    }));
    v.push(def("Bmi2SelectOps", SpaceKind::Words, P, |inp, _| {
        let w = Rc::new(inp.words());
        let mut e = Vec::new();
        let r = w.clone();
        e.push(sel1_bulk("select1_bulk", move |ks| {
            let k32: Vec<u32> = ks.iter().map(|&k| k as u32).collect();
            es(Bmi2SelectOps::select1_bulk(&r, &k32)).map(|v| v.into_iter().map(|x| x as usize).collect())
        }));
        let r = w.clone();
        e.push(custom("Bmi2RankOps::popcount_bulk", move |_| popcounts_check(&r, Bmi2RankOps::popcount_bulk(&r).into_iter().map(|x| x as usize).collect())));
        Ok(e)
    }));

    // ---- single-word helpers
    v.push(def("Bmi2Word", SpaceKind::Word1, P, |inp, _| {
        let w = inp.words()[0];
        let opt = |o: Option<u32>| o.map(|x| x as usize).ok_or_else(|| "None".to_string());
        let mut e = Vec::new();
        e.push(rank1("Bmi2RankOps::popcount_trail", move |p| Bmi2RankOps::popcount_trail(w, p as u32) as usize));
        e.push(rank1("Bmi2BzhiOps::popcount_bzhi_enhanced", move |p| Bmi2BzhiOps::popcount_bzhi_enhanced(w, p as u32) as usize));
        e.push(rank1("Bmi2Accelerator::rank1", move |p| Bmi2Accelerator::new().rank1(w, p as u32) as usize));
        e.push(rank1("Comprehensive::rank1_optimized", move |p| CBitOps::rank1_optimized(w, p)));
        e.push(rank1("Bmi2RangeOps::count_ones_range(0,p)", move |p| Bmi2RangeOps::count_ones_range(w, 0, p as u32) as usize));
        e.push(custom("Bmi2RangeOps::count_ones_range", move |inp| {
            q(65 * 33);
            for start in 0..=64u32 {
                for len in 0..=(64 - start) {
                    let want = (inp.prefix[(start + len) as usize] - inp.prefix[start as usize]) as u32;
                    let got = Bmi2RangeOps::count_ones_range(w, start, len);
                    if got != want {
                        return Some(fail("rank1", "range", format!("count_ones_range({w:#x},{start},{len}) = {got}, definition says {want}")));
                    }
                }
                // (audit) the bulk variant, all ranges starting here in one call
                let ranges: Vec<(u32, u32)> = (0..=(64 - start)).map(|l| (start, l)).collect();
                let got = Bmi2RangeOps::count_ones_multi_range(w, &ranges);
                let want: Vec<u32> = ranges.iter().map(|&(s, l)| (inp.prefix[(s + l) as usize] - inp.prefix[s as usize]) as u32).collect();
                if got != want {
                    return Some(fail("rank1", "range", format!("count_ones_multi_range({w:#x}, start {start}) = {got:?}, definition says {want:?}")));
                }
            }
            None
        }));
        e.push(Ep { name: "Bmi2RankOps::popcount_u64", f: EpFn::Ones(Box::new(move || Bmi2RankOps::popcount_u64(w) as usize)) });
        e.push(Ep { name: "Bmi2Dispatcher::dispatch_popcount", f: EpFn::Ones(Box::new(move || Bmi2Dispatcher::new().dispatch_popcount(w) as usize)) });
        e.push(sel1("Bmi2SelectOps::select1_u64", move |k| opt(Bmi2SelectOps::select1_u64(w, k as u32))));
        e.push(sel1("Bmi2SelectOps::select1_u64_enhanced", move |k| opt(Bmi2SelectOps::select1_u64_enhanced(w, k as u32))));
        e.push(sel0("Bmi2SelectOps::select0_u64", move |k| opt(Bmi2SelectOps::select0_u64(w, k as u32))));
        e.push(sel1("Bmi2AdvancedPatterns::pdep_ctz_select", move |k| opt(Bmi2AdvancedPatterns::pdep_ctz_select(w, k as u32))));
        e.push(sel1_bulk("Bmi2AdvancedPatterns::pdep_ctz_select_bulk", move |ks| {
            let k32: Vec<u32> = ks.iter().map(|&k| k as u32).collect();
            es(Bmi2AdvancedPatterns::pdep_ctz_select_bulk(w, &k32)).map(|v| v.into_iter().map(|x| x as usize).collect())
        }));
        e.push(sel1("Bmi2Accelerator::select1", move |k| opt(Bmi2Accelerator::new().select1(w, k as u32))));
        e.push(sel1("Bmi2Accelerator::select1_enhanced", move |k| opt(Bmi2Accelerator::new().select1_enhanced(w, k as u32))));
        e.push(sel1("Bmi2Dispatcher::dispatch_select", move |k| opt(Bmi2Dispatcher::new().dispatch_select(w, k as u32))));
        // 1-based rank in these two
        e.push(sel1("Comprehensive::select1_ultra_fast", move |k| CBitOps::select1_ultra_fast(w, k + 1).ok_or_else(|| "None".to_string())));
        e.push(sel1("Comprehensive::select1_fallback", move |k| CBitOps::select1_fallback(w, k + 1).ok_or_else(|| "None".to_string())));
        Ok(e)
    }));

    v
}

fn popcounts_check(words: &[u64], got: Vec<usize>) -> Option<Outcome> {
    q(words.len());
    if got.len() != words.len() {
        return Some(fail("count_ones", "result_count", format!("{} words, {} results", words.len(), got.len())));
    }
    for (i, &w) in words.iter().enumerate() {
        if got[i] != w.count_ones() as usize {
            return Some(fail("count_ones", if i >= 4 { "word>=4" } else { "word<4" }, format!("popcount of word {i} ({w:#x}) = {}, definition says {}", got[i], w.count_ones())));
        }
    }
    None
}

/// BitVector seen through RankSelectOps (select is not offered by BitVector: answered from rank by definition is NOT
/// done here — the trunc subject for BitVector passes select0=false and select1 is answered by a scan of `get`).
struct BvOps(BitVector);
impl RankSelectOps for BvOps {
    fn rank1(&self, p: usize) -> usize {
        self.0.rank1(p)
    }
    fn rank0(&self, p: usize) -> usize {
        self.0.rank0(p)
    }
    fn select1(&self, k: usize) -> zipora::error::Result<usize> {
        // not a BitVector operation: scan get() so that the generic core check has something consistent to ask
        let mut c = 0;
        for i in 0..self.0.len() {
            if self.0.get(i) == Some(true) {
                if c == k {
                    return Ok(i);
                }
                c += 1;
            }
        }
        Err(zipora::error::ZiporaError::invalid_data("no such bit"))
    }
    fn select0(&self, _k: usize) -> zipora::error::Result<usize> {
        Err(zipora::error::ZiporaError::invalid_data("not offered"))
    }
    fn len(&self) -> usize {
        self.0.len()
    }
    fn count_ones(&self) -> usize {
        self.0.count_ones()
    }
    fn get(&self, i: usize) -> Option<bool> {
        self.0.get(i)
    }
    fn space_overhead_percent(&self) -> f64 {
        0.0
    }
}
