//! C02 — compressor layer and PA-Zip round-trip whatever algorithm is chosen (engine E2).
//!
//! Oracle (the property's own sentence): whenever `compress(x)` returns `Ok(y)`, `decompress(y) == Ok(x)`; `y`
//! alone (its framing, tags and size fields) must be enough.  `Err`/panic from `compress` or from constructing /
//! training the compressor = "compression did not succeed" = skip.  For the adaptive front end the second clause
//! `roundtrip_after_set_algorithm` checks that what `compress` chose is recorded in `y` and not in the object.
//!
//! Subjects: the `Compressor` trait objects from `CompressorFactory` and the named types, `AdaptiveCompressor`,
//! `RealtimeCompressor` (current-thread tokio runtime), the inherent `SimdLz77Compressor` API and its wrappers,
//! `PaZipCompressor` (every preset x 3 dictionaries) and the bit-level PA-Zip match codec.

use serde::{Deserialize, Serialize};
use std::cell::RefCell;
use std::collections::HashMap;
use std::time::{Duration, Instant};
use zverif::enumr::{self, shaped, Enum, EnumSpec, Shape};
use zverif::util::{all_strings, brief, catch, hex, unhex};
use zverif::{Outcome, Tier};

use zipora::compression::dict_zip::{
    decode_match, decode_matches, encode_match, encode_matches, BitReader, BitWriter, DictionaryBuilderConfig, Match, PaZipCompressor,
    PaZipCompressorConfig, SuffixArrayDictionary, SuffixArrayDictionaryConfig,
};
use zipora::compression::{
    compress_with_simd_lz77, decompress_with_simd_lz77, AdaptiveCompressor, AdaptiveConfig, Algorithm, CompressionMode, Compressor,
    CompressorFactory, DictCompressor, HuffmanCompressor, HybridCompressor, Lz4Compressor, NoCompressor, PaZipDictionaryBuilder,
    PerformanceRequirements, RansCompressor, RealtimeCompressor, SimdLz77Compressor, SimdLz77CompressorX1, SimdLz77CompressorX2,
    SimdLz77CompressorX4, SimdLz77CompressorX8, SimdLz77Config, ZstdCompressor,
};
use zipora::compression::dict_zip::compression_types::{
    apply_fse_compression, fse_unzip_reference, fse_zip_reference, remove_fse_compression, FseCompressor as PzFseCompressor, FseConfig as PzFseConfig,
};
use zipora::compression::realtime::RealtimeCompressorBuilder;
use zipora::memory::{SecureMemoryPool, SecurePoolConfig};

// =================================================================================================
// input space (shared verbatim with c01.rs)

pub mod space {
    use super::*;

    pub const ENGLISH: &[u8] = b"It was the best of times, it was the worst of times, it was the age of wisdom, it was the age of \
foolishness, it was the epoch of belief, it was the epoch of incredulity, it was the season of Light, it was the season of Darkness, \
it was the spring of hope, it was the winter of despair, we had everything before us, we had nothing before us, we were all going \
direct to Heaven, we were all going direct the other way - in short, the period was so far like the present period, that some of its \
noisiest authorities insisted on its being received, for good or for evil, in the superlative degree of comparison only. 0123456789";

    /// Shapes of the threshold grid: the shared `enumr::Shape`s plus the ones only the codecs need.
    #[derive(Clone, Copy, Debug, PartialEq, Eq, Hash, Serialize, Deserialize)]
    pub enum Sh {
        Cyclic,
        Dominant,
        Geometric,
        Fibonacci,
        Runs,
        Periodic,
        Zero,
        Ones,
        Noise,
        /// order-1 context skew: in context 0x41 the successor frequencies are 1,2,4,.. (as far as n allows)
        /// after ~240 other successors that occur once: merged-tree code lengths 8+d
        CtxSkew,
        /// exact period-k repeat of the bytes 0x30.. (LZ back-references at distance k)
        Period,
        /// the fixed English-like text repeated / cut to n
        English,
        /// 0,1,..,255,0,1.. : every byte value equally often (incompressible for order-0 models)
        AllBytes,
        /// (coverage audit) one 64-byte block, non-matching filler, the same block again exactly k bytes after its
        /// first occurrence (n is ignored: the length is k + 64): the only LZ match has distance k
        /// (k = 32767/32768/32769 straddle the 32 KiB window of both LZ coders)
        FarRepeat,
        /// (coverage audit, used by C02) the first n bytes of `big_corpus()` (128 KiB of distinct 16-byte records)
        BigHead,
        /// (coverage audit, used by C02) n bytes of `big_corpus()` starting at offset 70000, i.e. beyond the first 64 KiB
        BigTail,
        /// (used by C02) n bytes of `sampled_corpus()` starting at offset 97*k mod (len - n): low-entropy text over {A,C,G,T}
        SampCut,
    }

    /// 24_000 bytes over {A,C,G,T} (xorshift): more than the 10_000 bytes above which SuffixArrayDictionary::new samples
    /// its training text when the configuration has sample_ratio < 1 (every QuickConfig preset has)
    pub fn sampled_corpus() -> Vec<u8> {
        let mut x: u64 = 0x9E37_79B9_7F4A_7C15;
        (0..24_000)
            .map(|_| {
                x ^= x << 13;
                x ^= x >> 7;
                x ^= x << 17;
                b"ACGT"[(x >> 33) as usize & 3]
            })
            .collect()
    }

    /// 8192 distinct 16-byte records "<hhhhh|dddddddd>": 128 KiB in which every 16-byte window occurs once, so a
    /// dictionary built from it has exactly one position for each record (positions >= 65536 for records >= 4096)
    pub fn big_corpus() -> Vec<u8> {
        let mut v = Vec::with_capacity(8192 * 16);
        for i in 0..8192u64 {
            v.extend_from_slice(format!("<{:05x}|{:08}>", i, (i * 2654435761) % 100_000_000).as_bytes());
        }
        v
    }
    pub const BIG_TAIL_OFFSET: usize = 70000;

    pub fn expand(shape: Sh, n: usize, k: usize) -> Vec<u8> {
        let e = |s: Shape| shaped(s, n, k);
        match shape {
            Sh::Cyclic => e(Shape::Cyclic),
            Sh::Dominant => e(Shape::Dominant),
            Sh::Geometric => e(Shape::Geometric),
            Sh::Fibonacci => e(Shape::Fibonacci),
            Sh::Runs => e(Shape::Runs),
            Sh::Periodic => e(Shape::Periodic),
            Sh::Zero => e(Shape::Zero),
            Sh::Ones => e(Shape::Ones),
            Sh::Noise => e(Shape::Noise),
            Sh::CtxSkew => {
                let mut v = Vec::with_capacity(n + 2);
                // 240 singleton successors of context 'A'
                let mut s: u32 = 0;
                let mut singles = 0;
                while v.len() + 2 <= n && singles < 240 {
                    if s as u8 != 0x41 {
                        v.push(0x41);
                        v.push(s as u8);
                        singles += 1;
                    }
                    s += 1;
                }
                // then successors 0xF0.. with counts 1,2,4,8..
                let mut d = 0u32;
                'o: loop {
                    for _ in 0..(1u64 << d.min(40)) {
                        if v.len() + 2 > n {
                            break 'o;
                        }
                        v.push(0x41);
                        v.push(0xF0u8.wrapping_add(d as u8) | 0xF0);
                    }
                    d += 1;
                    if d > 15 {
                        d = 15;
                    }
                }
                while v.len() < n {
                    v.push(0x41);
                }
                v
            }
            Sh::Period => {
                let p = k.clamp(1, 256);
                (0..n).map(|i| 0x30u8.wrapping_add((i % p) as u8)).collect()
            }
            Sh::English => (0..n).map(|i| ENGLISH[i % ENGLISH.len()]).collect(),
            Sh::AllBytes => (0..n).map(|i| (i % 256) as u8).collect(),
            Sh::FarRepeat => {
                // block: xorshift bytes < 0x80; filler: xorshift bytes >= 0x80 (no byte of the filler occurs in the block)
                let k = k.max(64);
                let mut x: u64 = 0xD1B5_4A32_D192_ED03;
                let mut next = move || {
                    x ^= x << 13;
                    x ^= x >> 7;
                    x ^= x << 17;
                    (x >> 24) as u8
                };
                let block: Vec<u8> = (0..64).map(|_| next() & 0x7F).collect();
                let mut v = Vec::with_capacity(k + 64);
                v.extend_from_slice(&block);
                while v.len() < k {
                    v.push(next() | 0x80);
                }
                v.extend_from_slice(&block);
                v
            }
            Sh::BigHead => {
                let c = big_corpus();
                c[..n.min(c.len())].to_vec()
            }
            Sh::BigTail => {
                let c = big_corpus();
                let a = BIG_TAIL_OFFSET.min(c.len());
                c[a..(a + n).min(c.len())].to_vec()
            }
            Sh::SampCut => {
                let c = sampled_corpus();
                let n = n.min(c.len());
                let a = if c.len() > n { (97 * k) % (c.len() - n) } else { 0 };
                c[a..a + n].to_vec()
            }
        }
    }

    #[derive(Clone, Debug, PartialEq, Eq, Hash, Serialize, Deserialize)]
    pub enum Input {
        /// small scope: the bytes themselves (hex)
        Lit(String),
        /// threshold grid point, expanded by `expand`
        Grid { shape: Sh, n: usize, k: usize },
    }

    impl Input {
        pub fn bytes(&self) -> Vec<u8> {
            match self {
                Input::Lit(h) => unhex(h).unwrap_or_default(),
                Input::Grid { shape, n, k } => expand(*shape, *n, *k),
            }
        }
    }

    #[derive(Clone, Copy, Debug, PartialEq, Eq, Hash, Serialize, Deserialize)]
    pub enum Train {
        /// the payload itself
        Same,
        /// every byte value once (x4)
        Uniform,
        /// the payload reversed
        Reversed,
        /// the payload without its rarest symbol
        MinusRarest,
        /// fixed English-like text
        English,
    }

    pub const ALL_TRAIN: &[Train] = &[Train::Same, Train::Uniform, Train::Reversed, Train::MinusRarest, Train::English];

    pub fn training(t: Train, x: &[u8]) -> Vec<u8> {
        match t {
            Train::Same => x.to_vec(),
            Train::Uniform => (0..1024).map(|i| (i % 256) as u8).collect(),
            Train::Reversed => x.iter().rev().copied().collect(),
            Train::MinusRarest => {
                let mut f = [0usize; 256];
                for &b in x {
                    f[b as usize] += 1;
                }
                // rarest present symbol, ties: the largest byte value
                let mut best: Option<usize> = None;
                for s in 0..256 {
                    if f[s] > 0 && best.map_or(true, |b| f[s] <= f[b]) {
                        best = Some(s);
                    }
                }
                match best {
                    Some(r) => x.iter().copied().filter(|&b| b as usize != r).collect(),
                    None => Vec::new(),
                }
            }
            Train::English => ENGLISH.to_vec(),
        }
    }

    pub const SMALL_ALPHABET: &[u8] = &[0x00, 0x61, 0xFF];

    /// Code-length thresholds of the Huffman family: the tree built by this library is a chain of depth k-1
    /// for k distinct symbols, so k = 13/14, 17/18, 33/34, 65/66 straddle 12, 16, 32 and 64-bit codes.
    pub const K_FULL: &[usize] = &[1, 2, 3, 4, 13, 14, 17, 18, 33, 34, 65, 66, 255, 256];
    pub const K_SMALL: &[usize] = &[1, 2, 3, 17, 18, 256];

    pub const N_QUICK: &[usize] = &[
        0, 1, 2, 3, 4, 5, 7, 8, 9, 15, 16, 17, 31, 32, 33, 63, 64, 65, 72, 73, 74, 99, 100, 101, 127, 128, 129, 255, 256, 257, 511, 512, 513, 1023,
        1024, 1025, 4095, 4096, 4097,
    ];
    pub const N_THOROUGH_EXTRA: &[usize] = &[5328, 5329, 5330, 8191, 8192, 8193];
    pub const N_HUGE: &[usize] = &[65535, 65536, 65537];
    pub const N_SMALL: &[usize] = &[0, 1, 2, 3, 4, 5, 7, 8, 9, 16, 17, 64, 65, 99, 100, 101, 256, 257, 1024, 1025, 4096, 4097];

    pub const SHAPES_ALL: &[Sh] = &[
        Sh::Cyclic,
        Sh::Dominant,
        Sh::Geometric,
        Sh::Fibonacci,
        Sh::Runs,
        Sh::Periodic,
        Sh::Zero,
        Sh::Ones,
        Sh::Noise,
        Sh::CtxSkew,
        Sh::Period,
        Sh::English,
        Sh::AllBytes,
    ];

    /// Which part of the space a subject enumerates (its stated bound).
    #[derive(Clone)]
    pub struct SpaceDef {
        pub s_len: usize,
        pub ns: Vec<usize>,
        pub ks: Vec<usize>,
        pub shapes: Vec<Sh>,
    }

    impl SpaceDef {
        pub fn describe(&self) -> String {
            format!(
                "S = all strings over {{00,61,FF}} of length <= {} ({} strings); G = shapes {:?} x n in {:?} x k in {:?} (deduplicated by content){}",
                self.s_len,
                (0..=self.s_len).map(|l| 3usize.pow(l as u32)).sum::<usize>(),
                self.shapes,
                self.ns,
                self.ks,
                if self.shapes.contains(&Sh::FarRepeat) { "; FarRepeat: match distance k in [32767, 32768, 32769], length k+64" } else { "" }
            )
        }

        /// Enumerate S then G, simplest first; grid points that expand to bytes already seen are dropped.
        pub fn inputs(&self, f: &mut dyn FnMut(Input) -> bool) -> bool {
            let mut seen = std::collections::HashSet::new();
            let ok = all_strings(SMALL_ALPHABET, self.s_len, &mut |s| {
                seen.insert(zverif::util::h64(s));
                f(Input::Lit(hex(s)))
            });
            if !ok {
                return false;
            }
            for &n in &self.ns {
                for &shape in &self.shapes {
                    let ks: &[usize] = match shape {
                        Sh::Zero | Sh::Ones | Sh::CtxSkew | Sh::English | Sh::AllBytes | Sh::BigHead | Sh::BigTail => &[1],
                        Sh::SampCut => &[0, 100, 239],
                        Sh::Period => &[1, 2, 3, 7, 8, 9, 10, 257, 258],
                        // distance of the only match; n is ignored, so the shape is enumerated for one n only
                        Sh::FarRepeat => {
                            if n != self.ns[0] {
                                continue;
                            }
                            &[32767, 32768, 32769]
                        }
                        _ => &self.ks,
                    };
                    for &k in ks {
                        let b = expand(shape, n, k);
                        if !seen.insert(zverif::util::h64(&b[..])) {
                            continue;
                        }
                        if !f(Input::Grid { shape, n, k }) {
                            return false;
                        }
                    }
                }
            }
            true
        }
    }

    pub fn def(s_len: usize, ns: &[&[usize]], ks: &[usize], shapes: &[Sh]) -> SpaceDef {
        let mut n: Vec<usize> = ns.iter().flat_map(|l| l.iter().copied()).collect();
        n.sort_unstable();
        n.dedup();
        SpaceDef { s_len, ns: n, ks: ks.to_vec(), shapes: shapes.to_vec() }
    }

    // ---- observable facts used in outcome classes

    pub fn distinct(x: &[u8]) -> usize {
        let mut f = [false; 256];
        for &b in x {
            f[b as usize] = true;
        }
        f.iter().filter(|&&b| b).count()
    }

    pub fn len_class(n: usize) -> &'static str {
        match n {
            0 => "n=0",
            1 => "n=1",
            2..=3 => "n<4",
            4..=99 => "n<100",
            100..=4095 => "n<4096",
            _ => "n>=4096",
        }
    }

    pub fn alpha_class(x: &[u8]) -> &'static str {
        match distinct(x) {
            0 => "k=0",
            1 => "k=1",
            2 => "k=2",
            3..=16 => "k<=16",
            17..=64 => "k<=64",
            65..=255 => "k<=255",
            _ => "k=256",
        }
    }

    /// does the training data contain every symbol of the payload?
    pub fn covers(train: &[u8], x: &[u8]) -> bool {
        let mut f = [false; 256];
        for &b in train {
            f[b as usize] = true;
        }
        x.iter().all(|&b| f[b as usize])
    }
}

use space::*;

// =================================================================================================
// the common round-trip judge

type R = Result<Vec<u8>, String>;

fn es<E: std::fmt::Display>(e: E) -> String {
    e.to_string()
}

/// Error message with every number replaced by '#' and cut to 48 chars: a stable name for "which check refused".
fn norm_msg(m: &str) -> String {
    let mut out = String::new();
    let mut in_num = false;
    for ch in m.chars() {
        if ch.is_ascii_digit() {
            if !in_num {
                out.push('#');
            }
            in_num = true;
        } else {
            in_num = false;
            out.push(ch);
        }
    }
    out.chars().take(48).collect()
}

/// What the decompressor did with the output of a successful `compress`.
enum Rt {
    /// compress did not succeed (Err or panic): the property says nothing
    NotCompressed(String),
    Ok { smaller: bool },
    /// (symptom, detail): symptom = decode_panic@loc | decode_err(msg) | wrong_output
    Bad(String, String),
}

fn roundtrip<M>(x: &[u8], compress: impl FnOnce() -> Result<(Vec<u8>, M), String>, decompress: impl FnOnce(&[u8], M) -> R) -> Rt {
    let (y, model) = match catch(compress) {
        Err(p) => return Rt::NotCompressed(format!("compress_panic@{}", p.class)),
        Ok(Err(_)) => return Rt::NotCompressed("compress_err".into()),
        Ok(Ok(y)) => y,
    };
    match catch(|| decompress(&y, model)) {
        Err(p) => Rt::Bad(format!("decode_panic@{}", p.class), format!("x={} |y|={} decompress panicked: {}", brief(x), y.len(), p.detail)),
        Ok(Err(e)) => Rt::Bad(format!("decode_err({})", norm_msg(&e)), format!("x={} y={} decompress returned Err({e})", brief(x), brief(&y))),
        Ok(Ok(z)) => {
            if z.len() != x.len() {
                Rt::Bad("wrong_output".into(), format!("wrong length: x={} y={} decompressed to {} bytes: {}", brief(x), brief(&y), z.len(), brief(&z)))
            } else if z != x {
                let at = z.iter().zip(x).position(|(a, b)| a != b).unwrap_or(0);
                Rt::Bad(
                    "wrong_output".into(),
                    format!("wrong bytes: x={} y={} decompressed={} first difference at {at}: {:02x} != {:02x}", brief(x), brief(&y), brief(&z), z[at], x[at]),
                )
            } else {
                Rt::Ok { smaller: y.len() < x.len() }
            }
        }
    }
}

/// Turn an `Rt` into an `Outcome`; `class` maps the symptom to the failure class of this subject.
fn outcome(x: &[u8], clause: &str, rt: Rt, class: impl FnOnce(&str) -> String) -> Outcome {
    match rt {
        Rt::NotCompressed(why) => Outcome::skip(&why),
        Rt::Ok { .. } if x.is_empty() => Outcome::trivial("ok|empty"),
        Rt::Ok { smaller: true } => Outcome::pass("ok|smaller"),
        Rt::Ok { smaller: false } => Outcome::pass("ok|not_smaller"),
        Rt::Bad(sym, detail) => enumr::fail(clause, class(&sym), detail),
    }
}

fn join(parts: &[&str]) -> String {
    parts.iter().filter(|p| !p.is_empty()).copied().collect::<Vec<_>>().join("|")
}

#[derive(Clone, Debug, Hash, Serialize, Deserialize)]
pub struct Case {
    pub variant: String,
    pub input: Input,
    pub train: Train,
}

/// A compressor family: name, variants, trainings, the space, and the round trip of one case.
pub struct Family {
    pub name: &'static str,
    pub variants: Vec<String>,
    pub trains: Vec<Train>,
    pub space: SpaceDef,
    pub run: fn(&str, &[u8], &[u8], Train) -> Outcome,
}

impl EnumSpec for Family {
    type Case = Case;
    fn name(&self) -> String {
        self.name.to_string()
    }
    fn space(&self, _tier: Tier) -> String {
        format!("variants {:?} x training {:?} x inputs: {}", self.variants, self.trains, self.space.describe())
    }
    fn cases(&self, _tier: Tier, f: &mut dyn FnMut(Case) -> bool) {
        self.space.inputs(&mut |input| {
            for v in &self.variants {
                for &t in &self.trains {
                    if !f(Case { variant: v.clone(), input: input.clone(), train: t }) {
                        return false;
                    }
                }
            }
            true
        });
    }
    fn run(&self, c: &Case) -> Outcome {
        let x = c.input.bytes();
        let t = training(c.train, &x);
        (self.run)(&c.variant, &x, &t, c.train)
    }
}

// =================================================================================================
// Compressor trait objects: factory and named types

fn algorithm(name: &str) -> Algorithm {
    match name {
        "None" => Algorithm::None,
        "Lz4" => Algorithm::Lz4,
        "Huffman" => Algorithm::Huffman,
        "Rans" => Algorithm::Rans,
        "Dictionary" => Algorithm::Dictionary,
        "SimdLz77" => Algorithm::SimdLz77,
        "Hybrid" => Algorithm::Hybrid,
        z => {
            let lvl: i32 = z.trim_start_matches("Zstd(").trim_end_matches(')').parse().expect("zstd level");
            Algorithm::Zstd(lvl)
        }
    }
}

fn train_rel(x: &[u8], t: &[u8]) -> &'static str {
    if covers(t, x) {
        "train_covers"
    } else {
        "train_misses_symbol"
    }
}

fn rt_boxed(x: &[u8], make: impl FnOnce() -> Result<Box<dyn Compressor>, String>) -> Rt {
    roundtrip(
        x,
        || {
            let c = make()?;
            let y = c.compress(x).map_err(es)?;
            Ok((y, c))
        },
        |y, c| c.decompress(y).map_err(es),
    )
}

/// `HybridCompressor::compress` tries Huffman, rANS and the LZ coder and keeps the smallest output; the harness
/// recomputes which branch it took from the three public compressors (a pure function of x and the training data).
fn hybrid_choice(x: &[u8], t: &[u8]) -> &'static str {
    let sizes: Vec<Option<usize>> = vec![
        catch(|| HuffmanCompressor::new(t).ok().and_then(|c| c.compress(x).ok()).map(|y| y.len())).ok().flatten(),
        catch(|| RansCompressor::new(t).ok().and_then(|c| c.compress(x).ok()).map(|y| y.len())).ok().flatten(),
        catch(|| DictCompressor::new(t).ok().and_then(|c| c.compress(x).ok()).map(|y| y.len())).ok().flatten(),
    ];
    let mut best = x.len();
    let mut who = "chose=raw_fallback";
    for (i, s) in sizes.iter().enumerate() {
        if let Some(s) = s {
            if *s < best {
                best = *s;
                who = ["chose=huffman", "chose=rans", "chose=dictionary"][i];
            }
        }
    }
    who
}

/// Facts about the rANS model that are visible through the public API: is the stored (normalised) table a fixed
/// point of the normaliser that `decompress` applies to it a second time?
fn rans_fact(t: &[u8]) -> &'static str {
    use zipora::entropy::rans::{ParallelX1, Rans64Encoder};
    let mut f = [0u32; 256];
    for &b in t {
        f[b as usize] += 1;
    }
    let once = match Rans64Encoder::<ParallelX1>::new(&f) {
        Ok(e) => e,
        Err(_) => return "model_err",
    };
    let mut stored = [0u32; 256];
    for s in 0..256 {
        stored[s] = once.get_symbol(s as u8).freq;
    }
    match Rans64Encoder::<ParallelX1>::new(&stored) {
        Ok(twice) => {
            if (0..256).all(|s| twice.get_symbol(s as u8).freq == stored[s] && twice.get_symbol(s as u8).start == once.get_symbol(s as u8).start) {
                "renormalised_table_equal"
            } else {
                "renormalised_table_differs"
            }
        }
        Err(_) => "renormalise_err",
    }
}

fn class_for_algorithm(alg: &str, sym: &str, x: &[u8], t: &[u8]) -> String {
    match alg {
        "Rans" => join(&[alg, sym_kind(sym), rans_fact(t)]),
        "Hybrid" => {
            let ch = hybrid_choice(x, t);
            match ch {
                // the raw fallback is mis-framed whatever the payload is: one class
                "chose=raw_fallback" => join(&[alg, ch]),
                // y = [tag 1] ++ RansCompressor framing: the same facts (and class) as the Rans compressor itself
                "chose=rans" => join(&["Rans", sym_kind(sym), rans_fact(t)]),
                _ => join(&[alg, ch, sym, len_class(x.len()), alpha_class(x)]),
            }
        }
        _ => join(&[alg, sym, len_class(x.len()), alpha_class(x), train_rel(x, t)]),
    }
}

/// decode_err(..)/decode_panic@.. → the kind only (for defects whose symptom varies with the payload)
fn sym_kind(sym: &str) -> &str {
    if sym.starts_with("decode_err") {
        "decode_err_or_wrong_output"
    } else if sym.starts_with("decode_panic") {
        sym
    } else {
        "decode_err_or_wrong_output"
    }
}

fn run_factory(v: &str, x: &[u8], t: &[u8], _tr: Train) -> Outcome {
    // (coverage audit) "select_best(<requirements>)": the algorithm is the one the factory's own selector returns
    // for these requirements and this payload
    if let Some(r) = v.strip_prefix("select_best(") {
        let req = requirements(r.trim_end_matches(')'));
        let selected = format!("{:?}", CompressorFactory::select_best(&req, x));
        let rt = rt_boxed(x, || CompressorFactory::create(CompressorFactory::select_best(&req, x), Some(t)).map_err(es));
        // the pass class names what the selector returned (vacuity check: more than one algorithm must occur)
        return match outcome(x, "roundtrip", rt, |sym| join(&[v, sym, len_class(x.len()), alpha_class(x)])) {
            Outcome::Pass { nontrivial, class } => Outcome::Pass { nontrivial, class: format!("{class}|selected={selected}") },
            Outcome::Skip(why) => Outcome::skip(&format!("{why}|selected={selected}")),
            o => o,
        };
    }
    let rt = rt_boxed(x, || CompressorFactory::create(algorithm(v), Some(t)).map_err(es));
    outcome(x, "roundtrip", rt, |sym| class_for_algorithm(v, sym, x, t))
}

/// the named compressor types constructed directly (what the factory does for the same algorithm)
fn run_direct(v: &str, x: &[u8], t: &[u8], _tr: Train) -> Outcome {
    let rt = rt_boxed(x, || -> Result<Box<dyn Compressor>, String> {
        Ok(match v {
            "Huffman" => Box::new(HuffmanCompressor::new(t).map_err(es)?),
            "Rans" => Box::new(RansCompressor::new(t).map_err(es)?),
            "Dictionary" => Box::new(DictCompressor::new(t).map_err(es)?),
            "Hybrid" => Box::new(HybridCompressor::new(t).map_err(es)?),
            "None" => Box::new(NoCompressor),
            "Lz4" => Box::new(Lz4Compressor),
            z => Box::new(ZstdCompressor::new(z.trim_start_matches("Zstd(").trim_end_matches(')').parse().expect("level"))),
        })
    });
    outcome(x, "roundtrip", rt, |sym| class_for_algorithm(v, sym, x, t))
}

/// (coverage audit) "the self-describing framing (stored tables, size fields, algorithm tag, raw-fallback marker) is
/// sufficient for decompress": `y` is decompressed by a *second* compressor of the same algorithm that was trained on
/// other data, so nothing that lives only in the compressing object can be used.  Constructing either object is part
/// of "compress" (an Err there is a skip).
fn run_other_object(v: &str, x: &[u8], t: &[u8], _tr: Train) -> Outcome {
    let other: Vec<u8> = if t == ENGLISH { training(Train::Uniform, x) } else { ENGLISH.to_vec() };
    let rt = roundtrip(
        x,
        || {
            let c = CompressorFactory::create(algorithm(v), Some(t)).map_err(es)?;
            let d = CompressorFactory::create(algorithm(v), Some(&other)).map_err(es)?;
            let y = c.compress(x).map_err(es)?;
            Ok((y, d))
        },
        |y, d| d.decompress(y).map_err(es),
    );
    outcome(x, "self_describing", rt, |sym| join(&[v, sym, len_class(x.len()), alpha_class(x), train_rel(x, t)]))
}

// =================================================================================================
// AdaptiveCompressor

fn requirements(name: &str) -> PerformanceRequirements {
    match name {
        "default" => PerformanceRequirements::default(),
        "speed" => PerformanceRequirements { max_latency: Duration::from_micros(1), speed_vs_quality: 0.0, target_ratio: 1.0, ..Default::default() },
        _ => PerformanceRequirements { max_latency: Duration::from_secs(10), speed_vs_quality: 1.0, target_ratio: 0.1, ..Default::default() },
    }
}

fn adaptive_config(name: &str) -> AdaptiveConfig {
    match name {
        "default" => AdaptiveConfig::default(),
        // evaluate (and "test a new algorithm") on every call
        _ => AdaptiveConfig { learning_window: 4, min_operations: 1, evaluation_interval: 1, switch_threshold: 0.0, aggressive_learning: true, test_sample_size: 1 },
    }
}

fn family_of(alg: &str) -> &str {
    if alg.starts_with("Zstd") {
        "Zstd"
    } else {
        alg
    }
}

/// variant = "<requirements>/<config>/<trained|untrained>/<alg A>[-><alg B>]": compress under A (set with
/// `set_algorithm`; "initial" = whatever `new` chose), optionally `set_algorithm(B)`, decompress.
fn run_adaptive(v: &str, x: &[u8], t: &[u8], _tr: Train) -> Outcome {
    let p: Vec<&str> = v.split('/').collect();
    let (a, b) = match p[3].split_once("->") {
        Some((a, b)) => (a, Some(b)),
        None => (p[3], None),
    };
    let rt = roundtrip(
        x,
        || {
            let mut c = AdaptiveCompressor::new(adaptive_config(p[1]), requirements(p[0])).map_err(es)?;
            if p[2] == "trained" {
                c.train(&[(t, "payload-like"), (ENGLISH, "text")]).map_err(es)?;
            }
            if a != "initial" {
                c.set_algorithm(algorithm(a)).map_err(es)?;
            }
            // a few calls so that maybe_adapt / find_best_algorithm have history to look at
            let _ = c.compress(ENGLISH);
            let _ = c.compress(x);
            let y = c.compress(x).map_err(es)?;
            if let Some(b) = b {
                c.set_algorithm(algorithm(b)).map_err(es)?;
            }
            Ok((y, c))
        },
        |y, c| c.decompress(y).map_err(es),
    );
    match b {
        None => outcome(x, "roundtrip", rt, |sym| join(&[a, sym, len_class(x.len())])),
        Some(b) => {
            let rel = if family_of(a) == family_of(b) { "same_algorithm_family" } else { "algorithm_family_changed" };
            // the symptom depends on the pair; the class names the cause that is visible from outside
            outcome(x, "roundtrip_after_set_algorithm", rt, |sym| if rel == "same_algorithm_family" { join(&[rel, sym]) } else { rel.to_string() })
        }
    }
}

// =================================================================================================
// RealtimeCompressor (tokio current-thread runtime)

fn mode(name: &str) -> CompressionMode {
    match name {
        "UltraLowLatency" => CompressionMode::UltraLowLatency,
        "LowLatency" => CompressionMode::LowLatency,
        "Balanced" => CompressionMode::Balanced,
        _ => CompressionMode::HighCompression,
    }
}

/// variant = "<mode>/<far|expired>[/set_mode=<mode2>]"
fn run_realtime(v: &str, x: &[u8], _t: &[u8], _tr: Train) -> Outcome {
    let p: Vec<&str> = v.split('/').collect();
    let m = mode(p[0]);
    let rt_handle = tokio::runtime::Builder::new_current_thread().enable_all().build().expect("tokio runtime");
    // (coverage audit) optional third field: "set_mode=<mode2>" (switch the mode between compress and decompress) or
    // "no_fallback" (RealtimeCompressorBuilder with fallback_on_timeout(false): a missed deadline must be an Err)
    let third = p.get(2).copied().unwrap_or("");
    let rt = roundtrip(
        x,
        || {
            let c = if third == "no_fallback" {
                RealtimeCompressorBuilder::new().mode(m).fallback_on_timeout(false).build().map_err(es)?
            } else {
                RealtimeCompressor::with_mode(m).map_err(es)?
            };
            let deadline = if p[1] == "far" { Instant::now() + Duration::from_secs(3600) } else { Instant::now() };
            let y = rt_handle.block_on(c.compress_with_deadline(x, deadline)).map_err(es)?;
            if let Some(m2) = third.strip_prefix("set_mode=") {
                c.set_mode(mode(m2)).map_err(es)?;
            }
            Ok((y, c))
        },
        |y, c| rt_handle.block_on(c.decompress(y)).map_err(es),
    );
    if let Some(m2) = third.strip_prefix("set_mode=") {
        let fam = |m: CompressionMode| format!("{:?}", m.preferred_algorithm()).split('(').next().unwrap_or("").to_string();
        let rel = if fam(m) == fam(mode(m2)) { "same_algorithm_family" } else { "algorithm_family_changed" };
        return outcome(x, "roundtrip_after_set_mode", rt, |sym| if rel == "same_algorithm_family" { join(&[rel, sym]) } else { rel.to_string() });
    }
    outcome(x, "roundtrip", rt, |sym| {
        if p[1] == "expired" {
            // timeout fallback = raw copy: the symptom varies with the mode's codec, the cause does not
            join(&["deadline_expired_fallback", sym_kind(sym)])
        } else {
            join(&[p[0], "deadline_far", sym, len_class(x.len())])
        }
    })
}

// =================================================================================================
// SimdLz77Compressor (inherent compress/decompress, not the `Compressor` impl)

thread_local! {
    static LZ77: RefCell<HashMap<String, SimdLz77Compressor>> = RefCell::new(HashMap::new());
}

fn lz77_config(name: &str) -> SimdLz77Config {
    match name {
        "default" => SimdLz77Config::default(),
        "high_performance" => SimdLz77Config::high_performance(),
        "low_latency" => SimdLz77Config::low_latency(),
        _ => SimdLz77Config::maximum_parallelism(),
    }
}

fn run_simd_lz77(v: &str, x: &[u8], _t: &[u8], _tr: Train) -> Outcome {
    let rt = match v {
        "X1" => roundtrip(
            x,
            || {
                let mut c = SimdLz77CompressorX1::new().map_err(es)?;
                Ok((c.compress(x).map_err(es)?, c))
            },
            |y, mut c| c.decompress(y).map_err(es),
        ),
        "X2" => roundtrip(
            x,
            || {
                let mut c = SimdLz77CompressorX2::new().map_err(es)?;
                Ok((c.compress(x).map_err(es)?, c))
            },
            |y, mut c| c.decompress(y).map_err(es),
        ),
        "X4" => roundtrip(
            x,
            || {
                let mut c = SimdLz77CompressorX4::new().map_err(es)?;
                Ok((c.compress(x).map_err(es)?, c))
            },
            |y, mut c| c.decompress(y).map_err(es),
        ),
        "X8" => roundtrip(
            x,
            || {
                let mut c = SimdLz77CompressorX8::new().map_err(es)?;
                Ok((c.compress(x).map_err(es)?, c))
            },
            |y, mut c| c.decompress(y).map_err(es),
        ),
        "global" => roundtrip(x, || Ok((compress_with_simd_lz77(x).map_err(es)?, ())), |y, _| decompress_with_simd_lz77(y).map_err(es)),
        cfg => LZ77.with(|cache| {
            let mut cache = cache.borrow_mut();
            if !cache.contains_key(cfg) {
                match catch(|| SimdLz77Compressor::with_config(lz77_config(cfg))) {
                    Ok(Ok(c)) => {
                        cache.insert(cfg.to_string(), c);
                    }
                    _ => return Rt::NotCompressed("construct_err".into()),
                }
            }
            let c = RefCell::new(cache.get_mut(cfg).unwrap());
            roundtrip(
                x,
                || Ok((SimdLz77Compressor::compress(&mut c.borrow_mut(), x).map_err(es)?, ())),
                |y, _| SimdLz77Compressor::decompress(&mut c.borrow_mut(), y).map_err(es),
            )
        }),
    };
    // Literal bytes are never written to the stream (only their count) and RLE runs lose their byte value, so no
    // non-empty payload can come back: one class whatever the symptom.
    outcome(x, "roundtrip", rt, |sym| join(&["inherent", sym_kind(sym)]))
}

// =================================================================================================
// PA-Zip

pub const CORPORA: &[&str] = &["english", "binary", "bytes256"];

pub fn corpus(name: &str) -> Vec<u8> {
    match name {
        "english" => (0..4).flat_map(|_| ENGLISH.iter().copied()).collect(),
        // records with a fixed 8-byte header, a counter and zero padding
        "binary" => (0..128u32)
            .flat_map(|i| {
                let mut r = vec![0xCA, 0xFE, 0xBA, 0xBE, 0x00, 0x01, 0x00, 0x20];
                r.extend_from_slice(&i.to_le_bytes());
                r.extend_from_slice(&[0u8; 12]);
                r.extend_from_slice(&(i * 7).to_be_bytes());
                r.extend_from_slice(&[0xFF; 4]);
                r
            })
            .collect(),
        // (coverage audit) 128 KiB of distinct records: the dictionary text is larger than 64 KiB
        "big" => big_corpus(),
        _ => (0..2048).map(|i| (i % 256) as u8).collect(),
    }
}

fn pazip_config(name: &str) -> PaZipCompressorConfig {
    match name {
        "default" => PaZipCompressorConfig::default(),
        "fast_compression" => PaZipCompressorConfig::fast_compression(),
        "high_compression" => PaZipCompressorConfig::high_compression(),
        "balanced" => PaZipCompressorConfig::balanced(),
        "realtime" => PaZipCompressorConfig::realtime(),
        _ => PaZipCompressorConfig::reference_compliant(),
    }
}

thread_local! {
    /// one pristine compressor per (corpus, preset); every case runs on a clone (the compressor carries adaptive
    /// thresholds and matcher state from call to call)
    static PAZIP: RefCell<HashMap<String, Result<PaZipCompressor, String>>> = RefCell::new(HashMap::new());
}

fn pazip_proto(corp: &str, preset: &str) -> Result<PaZipCompressor, String> {
    if corp == "sampled" {
        // the dictionary is built directly with a QuickConfig preset (sample_ratio 0.5) from 24_000 bytes: the constructor keeps
        // a SAMPLE of the training text as dictionary text.  Fresh for every case (cheap: 24 KB).
        return match catch(|| -> Result<PaZipCompressor, String> {
            let dict = SuffixArrayDictionary::new(&sampled_corpus(), zipora::compression::dict_zip::QuickConfig::binary_compression()).map_err(es)?;
            let pool = SecureMemoryPool::new(SecurePoolConfig::new(4096, 1024, 8)).map_err(es)?;
            PaZipCompressor::new(dict, pazip_config(preset), pool).map_err(es)
        }) {
            Ok(r) => r,
            Err(p) => Err(format!("panic: {}", p.detail)),
        };
    }
    if corp == "big" {
        // (coverage audit) the dictionary text is the whole 128 KiB corpus, built with the public
        // SuffixArrayDictionary::new (0.15 s).  Built afresh for every case and never cloned: cloning a compressor with
        // a 64 KiB dictionary takes 5 s, and PaZipDictionaryBuilder needs minutes for a corpus of this size (its pattern
        // extraction hashes every substring of length 4..=256 at every position; with the 2 KiB / 4 KiB limits used for
        // the other corpora it keeps only the first 32 bytes of the training data).
        return match catch(|| -> Result<PaZipCompressor, String> {
            let dict = SuffixArrayDictionary::new(&corpus(corp), SuffixArrayDictionaryConfig::default()).map_err(es)?;
            let pool = SecureMemoryPool::new(SecurePoolConfig::new(4096, 1024, 8)).map_err(es)?;
            PaZipCompressor::new(dict, pazip_config(preset), pool).map_err(es)
        }) {
            Ok(r) => r,
            Err(p) => Err(format!("panic: {}", p.detail)),
        };
    }
    let key = format!("{corp}/{preset}");
    PAZIP.with(|m| {
        let mut m = m.borrow_mut();
        if !m.contains_key(&key) {
            let built = catch(|| -> Result<PaZipCompressor, String> {
                let cfg = DictionaryBuilderConfig {
                    target_dict_size: 2048,
                    max_dict_size: 4096,
                    validate_result: true,
                    use_parallel: false,
                    enable_progress: false,
                    ..Default::default()
                };
                let dict = PaZipDictionaryBuilder::with_config(cfg).build(&corpus(corp)).map_err(es)?;
                let pool = SecureMemoryPool::new(SecurePoolConfig::new(4096, 1024, 8)).map_err(es)?;
                PaZipCompressor::new(dict, pazip_config(preset), pool).map_err(es)
            });
            let built = match built {
                Ok(r) => r,
                Err(p) => Err(format!("panic: {}", p.detail)),
            };
            m.insert(key.clone(), built);
        }
        m.get(&key).unwrap().clone()
    })
}

/// variant = "<preset>/<corpus>"
fn run_pazip(v: &str, x: &[u8], _t: &[u8], _tr: Train) -> Outcome {
    let (preset, corp) = v.split_once('/').expect("variant");
    // "<corpus>+reused": the same compressor object has already compressed another record (a compressor is a
    // long-lived object: the encoding of record n must not depend on records 1..n-1)
    let (corp, reused) = match corp.strip_suffix("+reused") {
        Some(c) => (c, true),
        None => (corp, false),
    };
    let mut proto = match pazip_proto(corp, preset) {
        Ok(p) => Some(p),
        Err(_) => return Outcome::skip("construct_err"),
    };
    let used = RefCell::new(String::new());
    let rt = roundtrip(
        x,
        || {
            // "big" protos are fresh objects already (see pazip_proto)
            let mut c = if corp == "big" || corp == "sampled" { proto.take().expect("fresh compressor") } else { proto.as_ref().expect("proto").clone() };
            let mut earlier: Option<Vec<u8>> = None;
            if reused {
                let mut y0 = Vec::new();
                c.compress(b"an earlier record: the quick brown fox 0123456789 0123456789", &mut y0).map_err(es)?;
                earlier = Some(y0);
            }
            let mut y = Vec::new();
            let st = c.compress(x, &mut y).map_err(es)?;
            let mut u = Vec::new();
            if st.literal_count > 0 {
                u.push("literal");
            }
            if st.local_matches > 0 {
                u.push("local");
            }
            if st.global_matches > 0 {
                u.push("global");
            }
            *used.borrow_mut() = if u.is_empty() { "unreported".to_string() } else { u.join("+") };
            Ok((y, (c, earlier)))
        },
        |y, (mut c, earlier)| {
            // a reused object also reuses its caller's output buffer: the earlier record is decoded into it first
            let mut z = Vec::new();
            if let Some(y0) = earlier {
                c.decompress(&y0, &mut z).map_err(es)?;
            }
            c.decompress(y, &mut z).map_err(es)?;
            Ok(z)
        },
    );
    // pass classes show which strategies the selector used (vacuity check: matches must occur)
    // the reference-encoding preset writes a format `decompress` has no parser for: one class whatever the symptom
    let reference = pazip_config(preset).use_reference_encoding;
    // (coverage audit) facts about a dictionary of more than 64 KiB that are visible from outside: where in the
    // dictionary the payload comes from and how long the longest possible global match is
    // (coverage audit) facts about a payload cut from the 128 KiB dictionary that are visible from outside
    let big_fact = || -> String {
        let c = big_corpus();
        let probe = &x[..x.len().min(16)];
        let at = if probe.is_empty() { None } else { c.windows(probe.len()).position(|w| w == probe) };
        join(&[
            match at {
                None => "payload_not_in_dictionary",
                Some(a) if a >= 65536 => "source_offset>=65536",
                Some(_) => "source_offset<65536",
            },
            if x.len() >= 65536 { "payload>=64KiB" } else { "payload<64KiB" },
        ])
    };
    let class = |sym: &str| {
        if reference {
            "use_reference_encoding".to_string()
        } else if corp == "big" {
            join(&["dictionary>64KiB", sym_kind(sym), &big_fact()])
        } else if reused {
            join(&[preset, sym, "second_record_of_a_reused_compressor"])
        } else {
            join(&[preset, sym, len_class(x.len()), alpha_class(x)])
        }
    };
    match outcome(x, "roundtrip", rt, class) {
        Outcome::Pass { nontrivial, class } => Outcome::Pass { nontrivial, class: format!("{class}|strategies={}", used.borrow()) },
        o => o,
    }
}

// =================================================================================================
// (coverage audit) the entropy stage of the PA-Zip pipeline in compression_types.rs: FseCompressor,
// apply_fse_compression / remove_fse_compression ("FS" = FSE-coded, "UN" = raw fallback marker) and the
// reference-style fse_zip_reference / fse_unzip_reference pair

fn pz_fse_config(name: &str) -> PzFseConfig {
    match name {
        "default" => PzFseConfig::default(),
        "for_pa_zip" => PzFseConfig::for_pa_zip(),
        _ => PzFseConfig::fast_pa_zip(),
    }
}

/// variant = "FseCompressor[<cfg>]" | "FseCompressor[<cfg>]+reused" | "apply/remove[<cfg>]" | "fse_zip_reference"
fn run_fse_layer(v: &str, x: &[u8], t: &[u8], _tr: Train) -> Outcome {
    let branch = std::cell::RefCell::new(String::new());
    let rt = if v == "fse_zip_reference" {
        // Ok(false) = "not beneficial, the caller keeps the raw record": nothing was produced, nothing to invert
        let mut probe = vec![0u8; x.len() + 64];
        let mut used = 0usize;
        if let Ok(Ok(false)) = catch(|| fse_zip_reference(x, &mut probe, &mut used)) {
            return Outcome::skip("declined_not_beneficial");
        }
        roundtrip(
            x,
            || {
                let mut buf = vec![0u8; x.len() + 64];
                let mut used = 0usize;
                // Ok(false) = "not beneficial, the caller keeps the raw record": nothing was produced
                if !fse_zip_reference(x, &mut buf, &mut used).map_err(es)? {
                    return Err("declined".to_string());
                }
                buf.truncate(used);
                Ok((buf, ()))
            },
            |y, _| {
                let mut out = vec![0u8; x.len() + 64];
                let n = fse_unzip_reference(y, &mut out).map_err(es)?;
                out.truncate(n);
                Ok(out)
            },
        )
    } else {
        let (kind, rest) = v.split_once('[').expect("variant");
        let (cfg_name, tail) = rest.split_once(']').expect("variant");
        let cfg = pz_fse_config(cfg_name);
        let (c1, c2) = (cfg.clone(), cfg.clone());
        if kind == "apply/remove" {
            roundtrip(
                x,
                || {
                    let y = apply_fse_compression(x, &c1).map_err(es)?;
                    *branch.borrow_mut() = match y.get(..2) {
                        Some([0xFE, 0x53]) => "marker=FS".to_string(),
                        Some([0x55, 0x4E]) => "marker=UN".to_string(),
                        _ => "marker=none".to_string(),
                    };
                    Ok((y, ()))
                },
                |y, _| remove_fse_compression(y, &c2).map_err(es),
            )
        } else {
            roundtrip(
                x,
                || {
                    let mut c = PzFseCompressor::with_config(c1).map_err(es)?;
                    if tail == "+reused" {
                        // the same object compressed (and decompressed) other data before
                        if let Ok(y0) = c.compress(t) {
                            let _ = c.decompress(&y0);
                        }
                    }
                    let y = c.compress(x).map_err(es)?;
                    Ok((y, c))
                },
                |y, mut c| c.decompress(y).map_err(es),
            )
        }
    };
    let o = outcome(x, "roundtrip", rt, |sym| join(&[v.split('[').next().unwrap_or(v), sym, len_class(x.len()), alpha_class(x)]));
    match o {
        Outcome::Pass { nontrivial, class } if !branch.borrow().is_empty() => Outcome::Pass { nontrivial, class: format!("{class}|{}", branch.borrow()) },
        o => o,
    }
}

// =================================================================================================
// bit-level match codec

#[derive(Clone, Debug, Hash, Serialize, Deserialize)]
pub struct MatchCase {
    /// "single" = encode_match/decode_match on one BitWriter/BitReader; "stream" = encode_matches/decode_matches
    pub api: String,
    pub matches: Vec<Match>,
}

pub struct MatchCodec;

fn kind_name(m: &Match) -> &'static str {
    m.compression_type().name()
}

fn reps(tier: Tier) -> Vec<Match> {
    // every kind at the boundary values of its fields, in-range and one step outside
    let mut v = Vec::new();
    for l in 0..=33u8 {
        v.push(Match::Literal { length: l });
    }
    for b in [0x00u8, 0x61, 0xFF] {
        for l in 1..=34u8 {
            v.push(Match::RLE { byte_value: b, length: l });
        }
    }
    for d in 1..=10u8 {
        for l in 1..=6u8 {
            v.push(Match::NearShort { distance: d, length: l });
        }
    }
    for d in 1..=258u16 {
        for l in 1..=34u8 {
            if tier == Tier::Quick && !(d <= 3 || d >= 256 || d == 127 || d == 128) && !(l <= 2 || l >= 33) {
                continue;
            }
            v.push(Match::Far1Short { distance: d, length: l });
        }
    }
    let far2: Vec<u32> = if tier == Tier::Quick {
        vec![257, 258, 259, 513, 514, 65792, 65793, 65794]
    } else {
        (257..=65794).collect()
    };
    for &d in &far2 {
        let ls: Vec<u8> = if far2.len() > 100 && !(d <= 260 || d >= 65790 || d % 4096 == 0) { vec![2, 33] } else { (1..=34).collect() };
        for l in ls {
            v.push(Match::Far2Short { distance: d, length: l });
        }
    }
    let long_len: [u32; 10] = [33, 34, 35, 161, 162, 32801, 32802, 65534, 65535, 65535];
    for d in [0u16, 1, 255, 256, 65534, 65535] {
        for &l in &long_len {
            v.push(Match::Far2Long { distance: d, length: l as u16 });
        }
    }
    // 30-bit length field of the variable-length code: 34 + 32768 + 2^30 - 1 is the largest value it can carry
    let top = 34 + 32768 + (1u32 << 30);
    for d in [0u32, 1, 65535, 65536, (1 << 24) - 2, (1 << 24) - 1, 1 << 24] {
        for l in [33u32, 34, 35, 161, 162, 32801, 32802, 65535, 65536, top - 1, top, u32::MAX] {
            v.push(Match::Far3Long { distance: d, length: l });
        }
    }
    for p in [0u32, 1, 65535, 65536, u32::MAX - 1, u32::MAX] {
        for l in [5u16, 6, 7, 255, 256, 65534, 65535] {
            v.push(Match::Global { dict_position: p, length: l });
        }
    }
    v
}

fn pair_reps() -> Vec<Match> {
    vec![
        Match::Literal { length: 1 },
        Match::Literal { length: 32 },
        Match::Global { dict_position: 0, length: 6 },
        Match::Global { dict_position: u32::MAX, length: 65535 },
        Match::RLE { byte_value: 0, length: 2 },
        Match::RLE { byte_value: 0xFF, length: 33 },
        Match::NearShort { distance: 2, length: 2 },
        Match::NearShort { distance: 9, length: 5 },
        Match::Far1Short { distance: 2, length: 2 },
        Match::Far1Short { distance: 257, length: 33 },
        Match::Far2Short { distance: 258, length: 2 },
        Match::Far2Short { distance: 65793, length: 33 },
        Match::Far2Long { distance: 0, length: 34 },
        Match::Far2Long { distance: 65535, length: 162 },
        Match::Far2Long { distance: 65535, length: 65535 },
        Match::Far3Long { distance: 0, length: 34 },
        Match::Far3Long { distance: (1 << 24) - 1, length: 32802 },
        Match::Far3Long { distance: (1 << 24) - 1, length: 162 },
    ]
}

impl EnumSpec for MatchCodec {
    type Case = MatchCase;
    fn name(&self) -> String {
        "MatchCodec".into()
    }
    fn space(&self, tier: Tier) -> String {
        format!(
            "encode_match/decode_match and encode_matches/decode_matches over {} single matches (every kind: every Literal/RLE/NearShort value, Far1Short {} , Far2Short {}, Far2Long/Far3Long/Global at field-boundary values, one step outside each declared range) + every ordered pair and every (a,b,a) triple of {} boundary representatives",
            reps(tier).len(),
            if tier == Tier::Quick { "at boundary distances x all lengths" } else { "every distance x every length" },
            if tier == Tier::Quick { "at boundary distances" } else { "every distance (lengths 2 and 33; all lengths at boundary distances)" },
            pair_reps().len()
        )
    }
    fn cases(&self, tier: Tier, f: &mut dyn FnMut(MatchCase) -> bool) {
        for m in reps(tier) {
            for api in ["single", "stream"] {
                if !f(MatchCase { api: api.into(), matches: vec![m.clone()] }) {
                    return;
                }
            }
        }
        let p = pair_reps();
        for a in &p {
            for b in &p {
                for api in ["single", "stream"] {
                    if !f(MatchCase { api: api.into(), matches: vec![a.clone(), b.clone()] }) {
                        return;
                    }
                }
            }
        }
        for a in &p {
            for b in &p {
                if !f(MatchCase { api: "stream".into(), matches: vec![a.clone(), b.clone(), a.clone()] }) {
                    return;
                }
            }
        }
        // a match the codec must refuse in the middle of a single-writer history: (valid, out-of-range, valid) — the refused
        // call must leave nothing behind in the caller's BitWriter
        let invalid: Vec<Match> = reps(tier).into_iter().filter(|m| m.validate().is_err()).collect();
        for a in p.iter().step_by(3) {
            for x in &invalid {
                if !f(MatchCase { api: "single".into(), matches: vec![a.clone(), x.clone(), a.clone()] }) {
                    return;
                }
                if !f(MatchCase { api: "single".into(), matches: vec![x.clone(), a.clone()] }) {
                    return;
                }
            }
        }
    }
    fn run(&self, c: &MatchCase) -> Outcome {
        let kinds: Vec<&str> = c.matches.iter().map(kind_name).collect();
        let in_range = c.matches.iter().all(|m| m.validate().is_ok());
        if c.api == "single" {
            // all matches on one writer, read back from one reader, bit counts must agree
            let mut w = BitWriter::new();
            let mut bits = Vec::new();
            // a refused match is left out and the caller goes on with the SAME writer: a refusal must leave nothing behind
            let mut accepted: Vec<(usize, &Match)> = Vec::new();
            let mut refused = 0usize;
            for (i, m) in c.matches.iter().enumerate() {
                match catch(|| encode_match(m, &mut w)) {
                    Ok(Ok(b)) => {
                        bits.push(b);
                        accepted.push((i, m));
                    }
                    Ok(Err(_)) => refused += 1,
                    Err(p) => return Outcome::skip(&format!("encode_panic@{}", p.class)),
                }
            }
            if accepted.is_empty() {
                return Outcome::skip(if in_range { "encode_err_in_range" } else { "encode_err_out_of_range" });
            }
            let after_refusal = if refused > 0 { "after_refused_call" } else { "" };
            let buf = w.finish();
            let mut r = BitReader::new(&buf);
            for (j, (i, m)) in accepted.iter().enumerate() {
                let (i, m) = (*i, *m);
                let cls = |sym: &str| if after_refusal.is_empty() { join(&["decode_match", kinds[i], sym]) } else { join(&["decode_match", kinds[i], sym, after_refusal]) };
                match catch(|| decode_match(&mut r)) {
                    Err(p) => return enumr::fail("match_roundtrip", cls(&format!("decode_panic@{}", p.class)), format!("{m:?}: {}", p.detail)),
                    Ok(Err(e)) => return enumr::fail("match_roundtrip", cls(&format!("decode_err({})", norm_msg(&e.to_string()))), format!("{m:?} encoded as {}: Err({e})", hex(&buf))),
                    Ok(Ok((d, used))) => {
                        if &d != m {
                            return enumr::fail("match_roundtrip", cls("wrong_match"), format!("{m:?} encoded as {} decoded as {d:?}", hex(&buf)));
                        }
                        if used != bits[j] {
                            return enumr::fail("match_roundtrip", cls("bit_count"), format!("{m:?}: wrote {} bits, read {used}", bits[j]));
                        }
                    }
                }
            }
            if refused > 0 {
                return Outcome::pass("ok|single|refused_matches_left_out");
            }
            return Outcome::pass(if in_range { "ok|single" } else { "ok|single|out_of_range_accepted" });
        }
        // stream API
        let (buf, total) = match catch(|| encode_matches(&c.matches)) {
            Ok(Ok(r)) => r,
            Ok(Err(_)) => return Outcome::skip(if in_range { "encode_err_in_range" } else { "encode_err_out_of_range" }),
            Err(p) => return Outcome::skip(&format!("encode_panic@{}", p.class)),
        };
        let pad = (8 - total % 8) % 8;
        // 3 = width of the type field: `decode_matches` keeps going while 3 bits are left
        let padc = if pad >= 3 { "padding>=3bits" } else { "padding<3bits" };
        let cls = |sym: &str| join(&["decode_matches", sym, padc]);
        match catch(|| decode_matches(&buf)) {
            Err(p) => enumr::fail("match_roundtrip", cls(&format!("decode_panic@{}", p.class)), format!("{:?}: {}", c.matches, p.detail)),
            Ok(Err(e)) => enumr::fail(
                "match_roundtrip",
                cls(&format!("decode_err({})", norm_msg(&e.to_string()))),
                format!("{:?} encoded as {} ({total} bits): Err({e})", c.matches, hex(&buf)),
            ),
            Ok(Ok((d, used))) => {
                if d != c.matches {
                    enumr::fail("match_roundtrip", cls("wrong_matches"), format!("{:?} encoded as {} ({total} bits) decoded as {d:?}", c.matches, hex(&buf)))
                } else if used != total {
                    enumr::fail("match_roundtrip", cls("bit_count"), format!("{:?}: wrote {total} bits, read {used}", c.matches))
                } else {
                    Outcome::pass(if in_range { "ok|stream" } else { "ok|stream|out_of_range_accepted" })
                }
            }
        }
    }
}

// =================================================================================================

fn sv(v: &[&str]) -> Vec<String> {
    v.iter().map(|s| s.to_string()).collect()
}

fn main() {
    zverif::main_with("C02", |reg, tier| {
        let q = tier == Tier::Quick;
        const K_GEN: &[usize] = &[1, 2, 3, 4, 17, 255, 256];
        const N_LZ: &[usize] = &[0, 1, 2, 3, 9, 10, 11, 12, 19, 20, 21, 100, 257, 258, 259, 260, 516, 517, 1025];
        const N_TINY: &[usize] = &[0, 1, 2, 3, 4, 5, 6, 7, 8, 9, 10, 16, 17, 31, 32, 33, 64, 65, 129];
        const SH_LZ: &[Sh] = &[Sh::Cyclic, Sh::Runs, Sh::Periodic, Sh::Zero, Sh::Noise, Sh::Period, Sh::English, Sh::AllBytes];

        // trait-object compressors without an LZ search: the whole grid incl. 65535..65537 (u16 size fields)
        let gen = if q { def(5, &[N_LZ, N_SMALL, N_HUGE], K_GEN, SHAPES_ALL) } else { def(7, &[N_LZ, N_QUICK, N_THOROUGH_EXTRA, N_HUGE], K_GEN, SHAPES_ALL) };
        // Dictionary / Hybrid contain the O(n*min(n,32768)) LZ search: n <= 1025 (quick) / 4097 (thorough; the same code
        // runs up to 8193 in C01's DictionaryCompressor subject)
        let gen_lz = if q { def(4, &[N_LZ], K_SMALL, SHAPES_ALL) } else { def(5, &[N_LZ, N_SMALL], K_SMALL, SHAPES_ALL) };
        let front = if q { def(4, &[N_SMALL], K_SMALL, SHAPES_ALL) } else { def(6, &[N_QUICK, N_THOROUGH_EXTRA], K_SMALL, SHAPES_ALL) };
        const N_AD: &[usize] = &[0, 1, 2, 3, 4, 8, 9, 64, 65, 100, 1024, 1025, 4097];
        let front_ad = if q { def(3, &[N_AD], &[2, 17, 256], SHAPES_ALL) } else { def(5, &[N_SMALL, N_THOROUGH_EXTRA], K_SMALL, SHAPES_ALL) };
        // `AdaptiveCompressor::train` runs every algorithm (two LZ searches) on two samples per case
        let ad_trained = if q { def(3, &[N_LZ], &[2, 256], SHAPES_ALL) } else { def(4, &[N_LZ, &[4096, 4097]], K_SMALL, SHAPES_ALL) };
        // the inherent SimdLz77 search is O(n * 256 * window): n <= 129
        let tiny = if q { def(4, &[N_TINY], K_SMALL, SH_LZ) } else { def(5, &[N_TINY, &[255, 256, 257]], K_SMALL, SHAPES_ALL) };
        let pazip = if q { def(4, &[N_LZ, &[4096, 4097]], K_SMALL, SHAPES_ALL) } else { def(6, &[N_LZ, N_QUICK, N_THOROUGH_EXTRA], K_SMALL, SHAPES_ALL) };
        let all_tr = ALL_TRAIN.to_vec();
        let same = vec![Train::Same];

        reg.add(Enum(Family {
            name: "Compressors/factory",
            variants: sv(&[
                "None",
                "Lz4",
                "Zstd(1)",
                "Zstd(3)",
                "Zstd(6)",
                "Zstd(9)",
                "Huffman",
                "Rans",
                "SimdLz77",
            ]),
            trains: all_tr.clone(),
            space: gen.clone(),
            run: run_factory,
        }));
        reg.add(Enum(Family {
            name: "Compressors/factory-lz",
            // (coverage audit) + select_best: the selector may return Hybrid (O(n * window) LZ search), hence this space
            variants: sv(&["Dictionary", "Hybrid", "select_best(default)", "select_best(speed)", "select_best(quality)"]),
            trains: if q { all_tr.clone() } else { vec![Train::Same, Train::Uniform, Train::MinusRarest, Train::English] },
            space: gen_lz.clone(),
            run: run_factory,
        }));
        reg.add(Enum(Family {
            name: "Compressors/named",
            variants: sv(&["Huffman", "Rans", "None", "Lz4", "Zstd(-7)", "Zstd(0)", "Zstd(19)", "Zstd(22)"]),
            trains: vec![Train::Same, Train::English],
            space: gen.clone(),
            run: run_direct,
        }));
        reg.add(Enum(Family {
            name: "Compressors/named-lz",
            variants: sv(&["Dictionary", "Hybrid"]),
            trains: vec![Train::Same, Train::English],
            space: gen_lz.clone(),
            run: run_direct,
        }));
        // (coverage audit) decompression by a second object of the same algorithm trained on other data
        reg.add(Enum(Family {
            name: "Compressors/other-object",
            variants: sv(&["Huffman", "Rans", "Zstd(3)", "SimdLz77", "None"]),
            trains: if q { vec![Train::Same, Train::English] } else { vec![Train::Same, Train::Uniform, Train::English] },
            // quick: without the 64 KiB lengths (the Huffman bit vectors make them the slowest cases of the grid)
            space: if q { def(4, &[N_SMALL], K_GEN, SHAPES_ALL) } else { gen.clone() },
            run: run_other_object,
        }));
        reg.add(Enum(Family {
            name: "Compressors/other-object-lz",
            variants: sv(&["Dictionary", "Hybrid"]),
            trains: vec![Train::Same, Train::English],
            space: gen_lz.clone(),
            run: run_other_object,
        }));
        let mut ad = Vec::new();
        for a in ["initial", "None", "Zstd(3)", "SimdLz77", "Huffman"] {
            ad.push(format!("default/default/untrained/{a}"));
        }
        for a in ["None", "Zstd(3)", "SimdLz77"] {
            ad.push(format!("quality/eager/untrained/{a}"));
        }
        let algs = ["None", "Zstd(1)", "Zstd(9)", "SimdLz77"];
        for a in algs {
            for b in algs {
                if a != b {
                    ad.push(format!("default/default/untrained/{a}->{b}"));
                }
            }
        }
        reg.add(Enum(Family { name: "AdaptiveCompressor", variants: ad, trains: same.clone(), space: front_ad.clone(), run: run_adaptive }));
        // `train` runs every algorithm (incl. the O(n*window) LZ coder, twice) on the samples: smaller space
        let mut adt = Vec::new();
        for (r, c) in [("speed", "eager"), ("default", "default")] {
            for a in ["None", "Zstd(3)", "SimdLz77"] {
                adt.push(format!("{r}/{c}/trained/{a}"));
            }
        }
        adt.push("default/default/trained/Zstd(1)->SimdLz77".to_string());
        reg.add(Enum(Family { name: "AdaptiveCompressor/trained", variants: adt, trains: same.clone(), space: ad_trained.clone(), run: run_adaptive }));
        let mut rtv = Vec::new();
        for m in ["UltraLowLatency", "LowLatency", "Balanced", "HighCompression"] {
            for d in ["far", "expired"] {
                rtv.push(format!("{m}/{d}"));
            }
        }
        // (coverage audit) set_mode between compress and decompress; builder without the timeout fallback
        for v in [
            "Balanced/far/set_mode=HighCompression",
            "HighCompression/far/set_mode=Balanced",
            "UltraLowLatency/far/set_mode=Balanced",
            "Balanced/far/set_mode=UltraLowLatency",
            "Balanced/expired/no_fallback",
        ] {
            rtv.push(v.to_string());
        }
        reg.add(Enum(Family { name: "RealtimeCompressor", variants: rtv, trains: same.clone(), space: front.clone(), run: run_realtime }));
        reg.add(Enum(Family {
            name: "SimdLz77Compressor",
            variants: sv(&["default", "high_performance", "low_latency", "maximum_parallelism", "X1", "X2", "X4", "X8", "global"]),
            trains: same.clone(),
            space: tiny.clone(),
            run: run_simd_lz77,
        }));
        let mut pz = Vec::new();
        for p in ["default", "fast_compression", "high_compression", "balanced", "realtime", "reference_compliant"] {
            for c in CORPORA {
                pz.push(format!("{p}/{c}"));
            }
        }
        reg.add(Enum(Family { name: "PaZipCompressor", variants: pz, trains: same.clone(), space: pazip.clone(), run: run_pazip }));
        // one compressor object, two records: the second record's encoding must stand on its own
        let mut pzr = Vec::new();
        // (reference_compliant is left out: its output cannot be decompressed at all — recorded finding of the PaZipCompressor subject)
        for p in ["default", "fast_compression", "high_compression", "realtime"] {
            pzr.push(format!("{p}/{}+reused", CORPORA[0]));
        }
        reg.add(Enum(Family { name: "PaZipCompressor/reused-object", variants: pzr, trains: same.clone(), space: pazip.clone(), run: run_pazip }));
        // (coverage audit) a dictionary of more than 64 KiB; payloads cut from its head and from beyond offset 65536
        const N_BIG: &[usize] = &[1, 5, 6, 7, 15, 16, 17, 100, 255, 256, 257, 1025, 4097];
        const N_BIG_T: &[usize] = &[65535, 65536, 65537, 70000];
        let big_space = if q {
            def(0, &[N_BIG], &[256], &[Sh::BigHead, Sh::BigTail, Sh::English, Sh::Noise])
        } else {
            def(0, &[N_BIG, N_BIG_T], &[256], &[Sh::BigHead, Sh::BigTail, Sh::English, Sh::Noise])
        };
        reg.add(Enum(Family {
            name: "PaZipCompressor/big-dictionary",
            variants: if q { sv(&["default/big"]) } else { sv(&["default/big", "realtime/big", "high_compression/big", "fast_compression/big"]) },
            trains: same.clone(),
            space: big_space,
            run: run_pazip,
        }));
        // a dictionary whose constructor sampled its training text (QuickConfig preset, 24_000 training bytes); payloads cut
        // from the training text (low entropy: global matches are found and chosen)
        reg.add(Enum(Family {
            name: "PaZipCompressor/sampled-dictionary",
            variants: sv(&["default/sampled", "high_compression/sampled"]),
            trains: same.clone(),
            space: def(0, &[&[16, 64, 257, 1025]], &[256], &[Sh::SampCut, Sh::English]),
            run: run_pazip,
        }));
        // payloads at the 1 MiB limit from which `compress` splits its input into 64 KiB blocks (compress_parallel); the
        // default and high_compression presets have multithreading on, realtime has it off (control)
        reg.add(Enum(Family {
            name: "PaZipCompressor/block-path",
            variants: if q { sv(&["default/english"]) } else { sv(&["default/english", "high_compression/english", "realtime/english"]) },
            trains: same.clone(),
            space: if q { def(0, &[&[1048576 + 10]], &[256], &[Sh::English]) } else { def(0, &[&[1048575, 1048576, 1048576 + 10, 3 * 1048576 + 77]], &[256], &[Sh::English, Sh::Noise, Sh::Zero]) },
            run: run_pazip,
        }));
        reg.add(Enum(Family {
            name: "dict_zip::FseLayer",
            variants: sv(&[
                "FseCompressor[default]",
                "FseCompressor[for_pa_zip]",
                "FseCompressor[fast_pa_zip]",
                "FseCompressor[default]+reused",
                "FseCompressor[fast_pa_zip]+reused",
                "apply/remove[default]",
                "apply/remove[for_pa_zip]",
                "apply/remove[fast_pa_zip]",
                "fse_zip_reference",
            ]),
            trains: vec![Train::English],
            space: if q { def(5, &[N_QUICK], K_GEN, SHAPES_ALL) } else { def(7, &[N_QUICK, N_THOROUGH_EXTRA, N_HUGE], K_GEN, SHAPES_ALL) },
            run: run_fse_layer,
        }));
        reg.add(Enum(MatchCodec));
    });
}
