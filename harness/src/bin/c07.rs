//! C07 — live allocations from any pool never overlap and keep their contents (engine E1).
//!
//! One generic `PoolSpec` steps a real pool and a shadow map of live `[addr, addr+size)` ranges in
//! lock-step.  Every pool type gets a small adapter (`PoolLike`).  The oracle is the property's own
//! sentence:
//!
//!   * `size`               the pool reports a block smaller than the request
//!   * `alignment`          `addr % align != 0` (align = requested alignment, else the configured one)
//!   * `overlap`            two live blocks intersect (on the *requested* sizes)
//!   * `outside_pool_memory` a live block is not inside memory the pool obtained from the system
//!                          allocator (pointer pools; see `Env`) resp. inside `[0, total_capacity)`
//!                          (offset pools)
//!   * `content`            a live block lost the bytes written to it
//!   * `capacity`           `Ok` for a request the pool cannot possibly satisfy
//!   * `alloc_panic` / `free_panic` / `drop_panic`  a panic instead of memory-or-Err
//!   * `free_err`           freeing a live block failed
//!   * `double_free_accepted` / `foreign_free_accepted`  (only for pools whose API takes pointers
//!                          back *and* which validate them)
//!   * `lost_block`         a freed block is neither handed out again nor released (SecureMemoryPool)
//!
//! Environment.  The binary installs its own global allocator (`Env`).  It (a) records which system
//! allocations were made while pool code ran — that is "memory the pool owns" — and (b) can serve
//! every request with alignment <= 16 at an address that is 16 (mod 64), which is what glibc usually
//! does anyway, but *deterministically*, so that alignment defects do not depend on heap luck.
//! Pools that keep state in `thread_local!`s run on a worker thread that lives for one history.

use std::alloc::{GlobalAlloc, Layout, System};
use std::cell::{Cell, UnsafeCell};
use std::collections::hash_map::DefaultHasher;
use std::collections::HashMap;
use std::fmt;
use std::hash::Hash;
use std::path::Path;
use std::ptr::NonNull;
use std::sync::atomic::{AtomicBool, Ordering};
use std::sync::mpsc::{channel, Receiver, Sender};
use std::sync::Arc;

use zverif::seq::{Seq, SeqSpec};
use zverif::util::catch;
use zverif::{Fail, Tier};

use zipora::memory::bump::{BumpAllocator, BumpArena, BumpScope};
use zipora::memory::cache_layout::{CacheLayoutConfig, CacheOptimizedAllocator};
use zipora::memory::fixed_capacity_pool::{FixedCapacityAllocation, FixedCapacityMemoryPool, FixedCapacityPoolConfig};
use zipora::memory::five_level_pool::{
    AdaptiveFiveLevelPool, ConcurrencyLevel, FiveLevelPoolConfig, FiveLevelPoolHandle, FixedCapacityPool, LockFreePool, MemOffset, MutexBasedPool,
    NoLockingPool, ThreadLocalPool,
};
use zipora::memory::lockfree_pool::{LockFreeAllocation, LockFreeMemoryPool, LockFreePoolConfig};
use zipora::memory::mmap::{MemoryMappedAllocator, MmapAllocation};
use zipora::memory::pool::{MemoryPool, PoolConfig, PooledBuffer};
use zipora::memory::secure_pool::{SecureMemoryPool, SecurePoolConfig, SecurePooledPtr};
use zipora::memory::threadlocal_pool::{ThreadLocalAllocation, ThreadLocalMemoryPool, ThreadLocalPoolConfig};
use zipora::memory::tiered::{TieredAllocation, TieredConfig, TieredMemoryAllocator};

// =================================================================================================
// Environment: the global allocator of this binary
// =================================================================================================

const F_REC: u8 = 1;
const F_SKEW: u8 = 2;

thread_local! {
    static ENV_FLAGS: Cell<u8> = const { Cell::new(0) };
}

fn env_flags() -> u8 {
    ENV_FLAGS.try_with(|f| f.get()).unwrap_or(0)
}

/// Run `f` with the given environment flags set on this thread.
fn with_env<T>(flags: u8, f: impl FnOnce() -> T) -> T {
    struct Restore(u8);
    impl Drop for Restore {
        fn drop(&mut self) {
            let _ = ENV_FLAGS.try_with(|c| c.set(self.0));
        }
    }
    let old = env_flags();
    let _r = Restore(old);
    let _ = ENV_FLAGS.try_with(|c| c.set(flags));
    f()
}

const REC_CAP: usize = 8192;

struct RecTable {
    n: usize,
    overflow: bool,
    e: [(usize, usize); REC_CAP],
}

struct Locked<T> {
    lock: AtomicBool,
    v: UnsafeCell<T>,
}
unsafe impl<T> Sync for Locked<T> {}
impl<T> Locked<T> {
    fn with<R>(&self, f: impl FnOnce(&mut T) -> R) -> R {
        while self.lock.compare_exchange_weak(false, true, Ordering::Acquire, Ordering::Relaxed).is_err() {
            std::hint::spin_loop();
        }
        let r = f(unsafe { &mut *self.v.get() });
        self.lock.store(false, Ordering::Release);
        r
    }
}

static REC: Locked<RecTable> = Locked { lock: AtomicBool::new(false), v: UnsafeCell::new(RecTable { n: 0, overflow: false, e: [(0, 0); REC_CAP] }) };

fn rec_clear() {
    REC.with(|t| {
        t.n = 0;
        t.overflow = false;
    });
}

fn rec_insert(p: usize, size: usize) {
    REC.with(|t| {
        for i in 0..t.n {
            if t.e[i].0 == p {
                t.e[i].1 = size;
                return;
            }
        }
        if t.n < REC_CAP {
            t.e[t.n] = (p, size);
            t.n += 1;
        } else {
            t.overflow = true;
        }
    });
}

fn rec_remove(p: usize) {
    REC.with(|t| {
        for i in 0..t.n {
            if t.e[i].0 == p {
                t.n -= 1;
                t.e[i] = t.e[t.n];
                return;
            }
        }
    });
}

/// Is `[addr, addr+len)` inside one live system allocation made by pool code?  `None` = unknown.
fn rec_owned(addr: usize, len: usize) -> Option<bool> {
    REC.with(|t| {
        if t.overflow {
            return None;
        }
        for i in 0..t.n {
            let (p, s) = t.e[i];
            if addr >= p && addr.saturating_add(len) <= p + s {
                return Some(true);
            }
        }
        Some(false)
    })
}

/// Address of the (only) live recorded allocation of exactly `size` bytes.
fn rec_find_size(size: usize, not: usize) -> Option<usize> {
    REC.with(|t| {
        let mut found = None;
        for i in 0..t.n {
            if t.e[i].1 == size && t.e[i].0 != not {
                if found.is_some() {
                    return None;
                }
                found = Some(t.e[i].0);
            }
        }
        found
    })
}

const SKEW_MAGIC: u64 = 0x5a76_6572_6966_5f43; // "Zverif_C"
const SKEW_OFF: usize = 16;
const SKEW_PAD: usize = 64;

struct Env;

impl Env {
    #[inline]
    unsafe fn is_skewed(p: *mut u8) -> bool {
        if (p as usize) % 64 != SKEW_OFF {
            return false;
        }
        let base = p.sub(SKEW_OFF);
        std::ptr::read_volatile(base as *const u64) == SKEW_MAGIC ^ (base as u64)
    }
}

unsafe impl GlobalAlloc for Env {
    unsafe fn alloc(&self, layout: Layout) -> *mut u8 {
        let fl = env_flags();
        let p = if fl & F_SKEW != 0 && layout.align() <= 16 && layout.size() >= 64 {
            match Layout::from_size_align(layout.size() + SKEW_PAD, 64) {
                Ok(big) => {
                    let base = System.alloc(big);
                    if base.is_null() {
                        base
                    } else {
                        std::ptr::write(base as *mut u64, SKEW_MAGIC ^ (base as u64));
                        std::ptr::write((base as *mut u64).add(1), layout.size() as u64);
                        base.add(SKEW_OFF)
                    }
                }
                Err(_) => System.alloc(layout),
            }
        } else {
            System.alloc(layout)
        };
        if fl & F_REC != 0 && !p.is_null() {
            rec_insert(p as usize, layout.size());
        }
        p
    }

    unsafe fn dealloc(&self, p: *mut u8, layout: Layout) {
        if env_flags() & F_REC != 0 {
            rec_remove(p as usize);
        }
        if Env::is_skewed(p) {
            let base = p.sub(SKEW_OFF);
            let size = std::ptr::read((base as *const u64).add(1)) as usize;
            std::ptr::write(base as *mut u64, 0);
            System.dealloc(base, Layout::from_size_align_unchecked(size + SKEW_PAD, 64));
        } else {
            System.dealloc(p, layout);
        }
    }

    unsafe fn realloc(&self, p: *mut u8, layout: Layout, new_size: usize) -> *mut u8 {
        if env_flags() != 0 || Env::is_skewed(p) {
            let nl = Layout::from_size_align_unchecked(new_size, layout.align());
            let np = self.alloc(nl);
            if !np.is_null() {
                std::ptr::copy_nonoverlapping(p, np, layout.size().min(new_size));
                self.dealloc(p, layout);
            }
            np
        } else {
            System.realloc(p, layout, new_size)
        }
    }
}

#[global_allocator]
static ENV: Env = Env;

// =================================================================================================
// Adapter interface
// =================================================================================================

#[derive(Clone, Debug)]
pub struct Issued {
    /// adapter-side handle of the block
    pub token: u64,
    /// pointer address, or offset for offset pools
    pub addr: usize,
    /// size the pool reports for the block (the request where it reports none)
    pub usable: usize,
    /// block lives in memory obtained through the global allocator (ownership check applies)
    pub heap: bool,
    /// where the pool says the block came from, when its public API tells ("" otherwise)
    pub origin: &'static str,
}

pub trait PoolLike {
    fn alloc(&mut self, size: usize, align: usize) -> Result<Issued, String>;
    fn free(&mut self, token: u64) -> Result<(), String>;
    /// free a block that was already freed (token of the dead block); `None` = API cannot express it
    fn free_again(&mut self, _token: u64) -> Option<Result<(), String>> {
        None
    }
    /// free a pointer the pool never issued (outside its memory)
    fn free_foreign(&mut self) -> Option<Result<(), String>> {
        None
    }
    fn open_scope(&mut self) {}
    fn close_scope(&mut self) {}
    fn reset(&mut self) {}
    /// allocate until the pool creates fresh memory; returns the recycled addresses obtained before that
    fn drain(&mut self, _max: usize) -> Option<Vec<usize>> {
        None
    }
    /// offset pools: offsets must stay below this
    fn total_capacity(&self) -> Option<usize> {
        None
    }
    // ---- added by the coverage audit -----------------------------------------------------------
    /// the pool's own "clear / clear_cache(s)" entry point, called while blocks may be live
    fn clear(&mut self) -> Option<Result<(), String>> {
        None
    }
    /// the pool's bulk allocation entry point
    fn alloc_bulk(&mut self, _sizes: &[usize]) -> Option<Result<Vec<Issued>, String>> {
        None
    }
    /// free a pointer just outside the pool's region (`hi`: one past its end, else 8 bytes in front of it)
    fn free_edge(&mut self, _hi: bool) -> Option<Result<(), String>> {
        None
    }
    /// drop the pool object itself while the RAII guards of the live blocks stay alive
    fn drop_pool_keep_live(&mut self) -> bool {
        false
    }
}

#[derive(Debug)]
enum Cmd {
    Alloc(usize, usize),
    Free(u64),
    FreeAgain(u64),
    FreeForeign,
    OpenScope,
    CloseScope,
    Reset,
    Drain(usize),
    TotalCap,
    DropPool,
    Clear,
    AllocBulk(Vec<usize>),
    FreeEdge(bool),
    DropPoolKeepLive,
}

#[derive(Debug)]
enum Rep {
    Alloc(Result<Issued, String>),
    Unit(Result<(), String>),
    Opt(Option<Result<(), String>>),
    Drain(Option<Vec<usize>>),
    Cap(Option<usize>),
    Done,
    Bulk(Option<Result<Vec<Issued>, String>>),
    Flag(bool),
}

fn exec(slot: &mut Option<Box<dyn PoolLike>>, cmd: Cmd) -> Rep {
    if let Cmd::DropPool = cmd {
        *slot = None;
        return Rep::Done;
    }
    let pool = slot.as_mut().expect("pool already dropped");
    match cmd {
        Cmd::Alloc(s, a) => Rep::Alloc(pool.alloc(s, a)),
        Cmd::Free(t) => Rep::Unit(pool.free(t)),
        Cmd::FreeAgain(t) => Rep::Opt(pool.free_again(t)),
        Cmd::FreeForeign => Rep::Opt(pool.free_foreign()),
        Cmd::OpenScope => {
            pool.open_scope();
            Rep::Done
        }
        Cmd::CloseScope => {
            pool.close_scope();
            Rep::Done
        }
        Cmd::Reset => {
            pool.reset();
            Rep::Done
        }
        Cmd::Drain(n) => Rep::Drain(pool.drain(n)),
        Cmd::TotalCap => Rep::Cap(pool.total_capacity()),
        Cmd::Clear => Rep::Opt(pool.clear()),
        Cmd::AllocBulk(sizes) => Rep::Bulk(pool.alloc_bulk(&sizes)),
        Cmd::FreeEdge(hi) => Rep::Opt(pool.free_edge(hi)),
        Cmd::DropPoolKeepLive => Rep::Flag(pool.drop_pool_keep_live()),
        Cmd::DropPool => unreachable!(),
    }
}

type MakeFn = Arc<dyn Fn() -> Result<Box<dyn PoolLike>, String> + Send + Sync>;

/// Where the pool lives: on the engine thread, or on a worker thread of its own (pools with thread_local state).
enum Host {
    Local { pool: Option<Box<dyn PoolLike>>, flags: u8 },
    Remote { tx: Sender<Cmd>, rx: Receiver<Result<Rep, Fail>>, join: Option<std::thread::JoinHandle<()>> },
}

impl Host {
    fn start(make: &MakeFn, threaded: bool, flags: u8) -> Result<Host, Fail> {
        if !threaded {
            let r = with_env(flags, || catch(|| make()))?;
            let pool = r.map_err(|e| Fail::new("construct", e))?;
            return Ok(Host::Local { pool: Some(pool), flags });
        }
        let (tx, crx) = channel::<Cmd>();
        let (rtx, rx) = channel::<Result<Rep, Fail>>();
        let (itx, irx) = channel::<Result<(), Fail>>();
        let make = make.clone();
        let join = std::thread::Builder::new()
            .name("c07-pool".into())
            .spawn(move || {
                let made = with_env(flags, || catch(|| make()));
                let mut slot: Option<Box<dyn PoolLike>> = match made {
                    Ok(Ok(p)) => {
                        let _ = itx.send(Ok(()));
                        Some(p)
                    }
                    Ok(Err(e)) => {
                        let _ = itx.send(Err(Fail::new("construct", e)));
                        return;
                    }
                    Err(f) => {
                        let _ = itx.send(Err(f));
                        return;
                    }
                };
                while let Ok(cmd) = crx.recv() {
                    let last = matches!(cmd, Cmd::DropPool);
                    let r = with_env(flags, || catch(|| exec(&mut slot, cmd)));
                    let _ = rtx.send(r);
                    if last {
                        break;
                    }
                }
                // a history that ended early: drop what is left, quietly
                let _ = with_env(flags, || catch(|| drop(slot.take())));
            })
            .map_err(|e| Fail::new("machinery", format!("spawn: {e}")))?;
        match irx.recv() {
            Ok(Ok(())) => Ok(Host::Remote { tx, rx, join: Some(join) }),
            Ok(Err(f)) => {
                let _ = join.join();
                Err(f)
            }
            Err(_) => {
                let _ = join.join();
                Err(Fail::new("machinery", "worker died during construction"))
            }
        }
    }

    /// `Err(Fail{clause:"panic"})` if pool code panicked.
    fn call(&mut self, cmd: Cmd) -> Result<Rep, Fail> {
        match self {
            Host::Local { pool, flags } => {
                let fl = *flags;
                with_env(fl, || catch(|| exec(pool, cmd)))
            }
            Host::Remote { tx, rx, .. } => {
                tx.send(cmd).map_err(|_| Fail::new("machinery", "worker gone"))?;
                rx.recv().map_err(|_| Fail::new("machinery", "worker died"))?
            }
        }
    }
}

impl Drop for Host {
    fn drop(&mut self) {
        match self {
            Host::Local { pool, flags } => {
                let fl = *flags;
                let p = pool.take();
                let _ = with_env(fl, || catch(|| drop(p)));
            }
            Host::Remote { tx, join, .. } => {
                let _ = tx.send(Cmd::DropPool);
                if let Some(j) = join.take() {
                    let _ = j.join();
                }
            }
        }
    }
}

// =================================================================================================
// The spec
// =================================================================================================

#[derive(Clone, Copy, PartialEq, Eq)]
pub struct Req {
    pub size: usize,
    /// 0 = the pool's configured alignment
    pub align: usize,
}

#[derive(Clone)]
pub enum Op {
    Alloc(Req),
    Free(usize),
    FreeAgain,
    FreeForeign,
    OpenScope,
    CloseScope,
    Reset,
    // appended by the coverage audit
    /// the pool's clear()/clear_cache()/clear_caches() while blocks may be live
    Clear,
    /// the pool's bulk entry point with k sizes (the request list, cycled)
    AllocBulk(usize),
    /// free of a pointer just outside the pool's region (true = one past the end)
    FreeEdge(bool),
}

impl fmt::Debug for Op {
    fn fmt(&self, f: &mut fmt::Formatter<'_>) -> fmt::Result {
        match self {
            Op::Alloc(r) if r.align == 0 => write!(f, "Alloc({})", r.size),
            Op::Alloc(r) => write!(f, "Alloc({}@{})", r.size, r.align),
            Op::Free(j) => write!(f, "Free({j})"),
            Op::FreeAgain => write!(f, "FreeAgain"),
            Op::FreeForeign => write!(f, "FreeForeign"),
            Op::OpenScope => write!(f, "OpenScope"),
            Op::CloseScope => write!(f, "CloseScope"),
            Op::Reset => write!(f, "Reset"),
            Op::Clear => write!(f, "Clear"),
            Op::AllocBulk(k) => write!(f, "AllocBulk({k})"),
            Op::FreeEdge(hi) => write!(f, "FreeEdge({})", if *hi { "hi" } else { "lo" }),
        }
    }
}

#[derive(Clone, Copy, PartialEq, Eq)]
pub enum Kind {
    /// addresses are pointers: contents are written and re-verified
    Memory,
    /// addresses are offsets into memory the API does not expose: judged on offsets only
    Offsets,
}

pub struct PoolSpec {
    pub name: String,
    pub make: MakeFn,
    pub threaded: bool,
    pub skew: bool,
    pub kind: Kind,
    /// configured alignment (used when `Req.align == 0`)
    pub align: usize,
    pub reqs: Vec<Req>,
    pub prefill: Vec<Op>,
    /// `Alloc` is enabled while fewer than this many blocks are live
    pub max_live: usize,
    pub per_block_free: bool,
    /// the API takes pointers back and the pool validates them
    pub validates: bool,
    pub scopes: bool,
    pub reset: bool,
    pub drain: bool,
    /// refusal model: a request with (sum of live request sizes + size) above this cannot be satisfied
    pub cap_bytes: Option<usize>,
    pub cap_blocks: Option<usize>,
    pub max_req: Option<usize>,
    pub depth_q: usize,
    pub depth_t: usize,
    pub note: &'static str,
    /// alphabet / finish extensions added by the coverage audit
    pub x: Extra,
}

#[derive(Clone, Default)]
pub struct Extra {
    /// `Clear` is in the alphabet
    pub clear: bool,
    /// `AllocBulk(k)` for these k
    pub bulk: Vec<usize>,
    /// `FreeEdge(lo/hi)` (validating pointer pools)
    pub edges: bool,
    /// finish: drop the pool object first, re-verify the live blocks, then drop their guards
    pub drop_pool_first: bool,
    /// extra text for bound()
    pub note: &'static str,
}

struct Live {
    token: u64,
    addr: usize,
    req: usize,
    seq: u64,
    heap: bool,
    origin: &'static str,
}

pub struct St {
    host: Host,
    live: Vec<Live>,
    /// every (addr, request size) ever issued in this history that has been freed since
    freed: Vec<(usize, usize)>,
    last_freed: Option<u64>,
    prev_was_free: bool,
    scopes: Vec<u64>,
    seq: u64,
    total_cap: Option<usize>,
    refused: u64,
    /// refused requests of >= 2^31 bytes (u32 offset arithmetic)
    refused_huge: u64,
    /// number of `Clear` operations so far
    cleared: u64,
    /// the pool object was dropped in front of its guards (finish variant)
    pool_gone: bool,
}

fn pat(seq: u64, i: usize) -> u8 {
    (seq as u8).wrapping_mul(131).wrapping_add((i as u8).wrapping_mul(7)).wrapping_add(1)
}

const FULL_FILL: usize = 4096;
const EDGE: usize = 2048;

fn touched(len: usize) -> impl Iterator<Item = usize> {
    let (a, b) = if len <= FULL_FILL { (len, len) } else { (EDGE, len - EDGE) };
    (0..a).chain(b..len)
}

unsafe fn fill(addr: usize, len: usize, seq: u64) {
    let p = addr as *mut u8;
    for i in touched(len) {
        std::ptr::write_volatile(p.add(i), pat(seq, i));
    }
}

unsafe fn verify(addr: usize, len: usize, seq: u64) -> Option<(usize, u8, u8)> {
    let p = addr as *const u8;
    for i in touched(len) {
        let got = std::ptr::read_volatile(p.add(i));
        if got != pat(seq, i) {
            return Some((i, pat(seq, i), got));
        }
    }
    None
}

fn fail(clause: &str, class: impl Into<String>, detail: impl Into<String>) -> Fail {
    Fail::new(clause, detail).with_class(class)
}

/// A panic caught by the engine has class `file:line`; line numbers move with every edit of the file, so the
/// class used here is `file: message`.
fn panic_as(clause: &str, f: Fail) -> Fail {
    if f.clause == "panic" {
        let file = f.class.rsplit_once(':').map(|(a, _)| a.to_string()).unwrap_or_else(|| f.class.clone());
        let msg = f.detail.splitn(2, ": ").nth(1).unwrap_or("").to_string();
        let msg: String = msg.chars().take(80).collect();
        Fail { clause: clause.to_string(), class: format!("{file}: {msg}"), detail: f.detail }
    } else {
        f
    }
}

impl PoolSpec {
    fn flags(&self) -> u8 {
        F_REC | if self.skew { F_SKEW } else { 0 }
    }

    fn align_of(&self, r: &Req) -> usize {
        if r.align != 0 {
            r.align
        } else {
            self.align
        }
    }

    fn must_refuse(&self, st: &St, r: &Req) -> Option<String> {
        if let Some(m) = self.max_req {
            if r.size > m {
                return Some(format!("request {} > largest block the pool can serve ({m})", r.size));
            }
        }
        if let Some(b) = self.cap_blocks {
            if st.live.len() >= b {
                return Some(format!("{} blocks live, pool capacity is {b} blocks", st.live.len()));
            }
        }
        if let Some(c) = self.cap_bytes {
            let used: usize = st.live.iter().map(|l| l.req).sum();
            if used.saturating_add(r.size) > c {
                return Some(format!("{used} bytes live + request {} > pool memory {c}", r.size));
            }
        }
        None
    }

    /// ownership + content of every live block
    fn check_live(&self, st: &St, when: &str) -> Result<(), Fail> {
        for (j, l) in st.live.iter().enumerate() {
            match self.kind {
                Kind::Memory => {
                    if l.heap && rec_owned(l.addr, l.req) == Some(false) {
                        return Err(fail(
                            "outside_pool_memory",
                            "released_or_never_owned",
                            format!("{when}: live block #{j} ({} bytes) is not inside any live system allocation made by the pool (memory released while the block is live?)", l.req),
                        ));
                    }
                    if let Some((i, want, got)) = unsafe { verify(l.addr, l.req, l.seq) } {
                        return Err(fail(
                            "content",
                            "content",
                            format!("{when}: live block #{j} ({} bytes) byte {i} is {got:#04x}, written {want:#04x}", l.req),
                        ));
                    }
                }
                Kind::Offsets => {
                    if let Some(c) = st.total_cap {
                        if l.addr.saturating_add(l.req) > c {
                            return Err(fail(
                                "outside_pool_memory",
                                "beyond_total_capacity",
                                format!("{when}: live block #{j} offset {}+{} exceeds total_capacity {c}", l.addr, l.req),
                            ));
                        }
                    }
                }
            }
        }
        Ok(())
    }

    fn on_issued(&self, st: &mut St, r: &Req, is: Issued) -> Result<(), Fail> {
        let align = self.align_of(r);
        if let Some(why) = self.must_refuse(st, r) {
            // do not touch the memory
            st.live.push(Live { token: is.token, addr: is.addr, req: 0, seq: 0, heap: false, origin: is.origin });
            return Err(fail("capacity", "ok_beyond_capacity", format!("alloc({}) returned a block although {why}", r.size)));
        }
        let seq = st.seq;
        st.seq += 1;
        let new = Live { token: is.token, addr: is.addr, req: r.size, seq, heap: is.heap, origin: is.origin };
        // every check happens before the block is written
        let mut err: Option<Fail> = None;
        if is.usable < r.size {
            err = Some(fail("size", "short_block", format!("alloc({}) returned a block of {} bytes", r.size, is.usable)));
        }
        if err.is_none() {
            for (j, l) in st.live.iter().enumerate() {
                if l.addr < new.addr + new.req && new.addr < l.addr + l.req {
                    // a block may legitimately span its request rounded up to the alignment it was served with
                    let up = |n: usize| if align > 1 { (n + align - 1) / align * align } else { n };
                    let recycled = |x: &Live| st.freed.iter().rev().find(|(a, s)| *a == x.addr && up(*s) < x.req).map(|(_, s)| (*s, x.req));
                    let class = if !l.origin.is_empty() && !new.origin.is_empty() && l.origin != new.origin {
                        let (a, b) = if l.origin < new.origin { (l.origin, new.origin) } else { (new.origin, l.origin) };
                        format!("origin:{a}/{b}")
                    } else if let Some((old, now)) = recycled(&new).or_else(|| recycled(l)) {
                        // one of the two blocks sits at an address that was freed under a smaller request
                        { let _ = (old, now); "reuse_under_larger_size".to_string() }
                    } else if st.refused_huge > 0 {
                        "after_refused_huge_request".to_string()
                    } else if l.addr == new.addr {
                        "dup_addr".to_string()
                    } else {
                        "partial".to_string()
                    };
                    let rel = new.addr as i128 - l.addr as i128;
                    err = Some(fail(
                        "overlap",
                        class,
                        format!(
                            "new block ({} bytes) starts {rel:+} bytes from live block #{j} ({} bytes): ranges intersect",
                            new.req, l.req
                        ),
                    ));
                    break;
                }
            }
        }
        if err.is_none() && align > 1 && new.addr % align != 0 {
            err = Some(fail(
                "alignment",
                "misaligned",
                format!("alloc({}) with alignment {align}: address % {align} = {}", r.size, new.addr % align),
            ));
        }
        if err.is_none() {
            match self.kind {
                Kind::Memory => {
                    if new.heap && rec_owned(new.addr, new.req) == Some(false) {
                        err = Some(fail(
                            "outside_pool_memory",
                            "never_owned",
                            format!("alloc({}) returned a block that is not inside any live system allocation made by the pool", r.size),
                        ));
                    }
                }
                Kind::Offsets => {
                    if let Some(c) = st.total_cap {
                        if new.addr.saturating_add(new.req) > c {
                            err = Some(fail(
                                "outside_pool_memory",
                                "beyond_total_capacity",
                                format!("alloc({}) returned offset {} beyond total_capacity {c}", r.size, new.addr),
                            ));
                        }
                    }
                }
            }
        }
        if let Some(e) = err {
            // keep the handle so that the drop path releases it, but never touch its memory
            st.live.push(Live { req: 0, heap: false, ..new });
            return Err(e);
        }
        if self.kind == Kind::Memory {
            unsafe { fill(new.addr, new.req, seq) };
        }
        st.live.push(new);
        Ok(())
    }

    fn do_free(&self, st: &mut St, j: usize, when: &str) -> Result<(), Fail> {
        let l = st.live.remove(j);
        let r = st.host.call(Cmd::Free(l.token)).map_err(|f| panic_as("free_panic", f))?;
        match r {
            Rep::Unit(Ok(())) => {}
            Rep::Unit(Err(e)) => return Err(fail("free_err", "free_err", format!("{when}: free of live block #{j} ({} bytes) failed: {e}", l.req))),
            other => return Err(Fail::new("machinery", format!("unexpected reply {other:?}"))),
        }
        st.freed.push((l.addr, l.req));
        st.last_freed = Some(l.token);
        Ok(())
    }
}

impl SeqSpec for PoolSpec {
    type Op = Op;
    type St = St;

    fn name(&self) -> String {
        self.name.clone()
    }
    fn depth(&self, tier: Tier) -> usize {
        tier.pick(self.depth_q, self.depth_t)
    }
    fn bound(&self, tier: Tier) -> String {
        let reqs: Vec<String> = self.reqs.iter().map(|r| format!("{:?}", Op::Alloc(*r))).collect();
        format!(
            "all histories of <= {} mutators from {{{}{}{}{}{}}} with <= {} live blocks, after a scripted prefix of {} ops; after every step all live blocks are re-verified (ownership, contents); at the end all blocks are freed and the pool dropped. {}",
            self.depth(tier),
            reqs.join(", "),
            if self.per_block_free { ", Free(j-th live block)" } else { "" },
            if self.validates { ", FreeAgain (block just freed), FreeForeign (pointer outside the pool)" } else { "" },
            if self.scopes { ", OpenScope, CloseScope" } else { "" },
            if self.reset { ", Reset" } else { "" },
            self.max_live,
            self.prefill.len(),
            self.note
        ) + &{
            let mut t = String::new();
            if self.x.clear {
                t.push_str(" + Clear (the pool's own clear/clear_cache(s) entry point, also while blocks are live: they must stay valid and freeable).");
            }
            if !self.x.bulk.is_empty() {
                t.push_str(&format!(" + AllocBulk(k) for k in {:?} (the pool's bulk entry point with the request list cycled; every returned block is judged like a single allocation).", self.x.bulk));
            }
            if self.x.edges {
                t.push_str(" + FreeEdge(lo/hi): free of a pointer 8 bytes in front of / one past the end of the pool's region must be refused.");
            }
            if self.x.drop_pool_first {
                t.push_str(" At the end the pool object is dropped BEFORE the guards of the live blocks, which must stay intact until their own drop.");
            }
            if !self.x.note.is_empty() {
                t.push(' ');
                t.push_str(self.x.note);
            }
            t
        }
    }

    fn init(&self, _scratch: &Path) -> Result<St, Fail> {
        rec_clear();
        let host = Host::start(&self.make, self.threaded, self.flags())?;
        let mut st = St {
            host,
            live: Vec::new(),
            freed: Vec::new(),
            last_freed: None,
            prev_was_free: false,
            scopes: Vec::new(),
            seq: 1,
            total_cap: None,
            refused: 0,
            refused_huge: 0,
            cleared: 0,
            pool_gone: false,
        };
        if self.kind == Kind::Offsets {
            if let Rep::Cap(c) = st.host.call(Cmd::TotalCap)? {
                st.total_cap = c;
            }
        }
        for op in &self.prefill {
            self.apply(&mut st, op)?;
            self.check_live(&st, "prefill")?;
        }
        Ok(st)
    }

    fn ops(&self, st: &St) -> Vec<Op> {
        let mut v = Vec::new();
        if st.live.len() < self.max_live {
            for r in &self.reqs {
                v.push(Op::Alloc(*r));
            }
        }
        if self.per_block_free {
            for j in 0..st.live.len() {
                v.push(Op::Free(j));
            }
        }
        if self.validates {
            if st.prev_was_free {
                v.push(Op::FreeAgain);
            }
            v.push(Op::FreeForeign);
        }
        if self.scopes {
            if st.scopes.len() < 2 {
                v.push(Op::OpenScope);
            }
            if !st.scopes.is_empty() {
                v.push(Op::CloseScope);
            }
        }
        if self.reset && !st.live.is_empty() {
            v.push(Op::Reset);
        }
        if self.x.clear {
            v.push(Op::Clear);
        }
        for &k in &self.x.bulk {
            if st.live.len() + k <= self.max_live {
                v.push(Op::AllocBulk(k));
            }
        }
        if self.x.edges {
            v.push(Op::FreeEdge(false));
            v.push(Op::FreeEdge(true));
        }
        v
    }

    fn apply(&self, st: &mut St, op: &Op) -> Result<(), Fail> {
        let r = self.apply_inner(st, op);
        r.map_err(|f| after_clear(st.cleared, f))
    }

    fn observe(&self, st: &mut St, h: &mut DefaultHasher) -> Result<(), Fail> {
        // model state: request sizes of the live blocks in allocation order, their address order, #refusals
        let mut order: Vec<usize> = (0..st.live.len()).collect();
        order.sort_by_key(|&i| st.live[i].addr);
        for l in &st.live {
            l.req.hash(h);
        }
        order.hash(h);
        st.refused.hash(h);
        st.scopes.len().hash(h);
        st.freed.len().hash(h);
        st.cleared.hash(h);
        self.check_live(st, "after step").map_err(|f| after_clear(st.cleared, f))
    }

    fn finish(&self, st: St) -> Result<(), Fail> {
        let cleared = st.cleared;
        self.finish_inner(st).map_err(|f| after_clear(cleared, f))
    }
}

impl PoolSpec {
    fn finish_inner(&self, mut st: St) -> Result<(), Fail> {
        while !st.scopes.is_empty() {
            self.apply(&mut st, &Op::CloseScope)?;
        }
        if self.drain && !st.freed.is_empty() {
            // blocks freed by the history itself (not the final frees below) that are not live again
            let mut want: Vec<usize> = st.freed.iter().map(|(a, _)| *a).filter(|a| !st.live.iter().any(|l| l.addr == *a)).collect();
            want.sort_unstable();
            want.dedup();
            // what the pool has already released to the system (clear()) is not lost; decided BEFORE the drain, because the
            // fresh chunk the drain ends with may be placed at the address of a chunk released earlier
            want.retain(|a| rec_owned(*a, 1) == Some(true));
            match st.host.call(Cmd::Drain(want.len() + 1)).map_err(|f| panic_as("alloc_panic", f))? {
                Rep::Drain(Some(got)) => {
                    let lost: Vec<usize> = want.iter().copied().filter(|a| !got.contains(a) && rec_owned(*a, 1) == Some(true)).collect();
                    if !lost.is_empty() {
                        return Err(fail(
                            "lost_block",
                            "lost",
                            format!(
                                "{} of the {} blocks freed by this history are neither handed out again (the pool created fresh memory after recycling {}) nor released to the system",
                                lost.len(),
                                want.len(),
                                got.len()
                            ),
                        ));
                    }
                }
                Rep::Drain(None) => {}
                other => return Err(Fail::new("machinery", format!("unexpected reply {other:?}"))),
            }
        }
        if self.x.drop_pool_first {
            match st.host.call(Cmd::DropPoolKeepLive).map_err(|f| panic_as("drop_panic", f))? {
                Rep::Flag(true) => st.pool_gone = true,
                Rep::Flag(false) => return Err(Fail::new("machinery", "adapter cannot drop the pool in front of its guards")),
                other => return Err(Fail::new("machinery", format!("unexpected reply {other:?}"))),
            }
            self.check_live(&st, "after the pool object was dropped")?;
        }
        if self.per_block_free {
            while !st.live.is_empty() {
                self.do_free(&mut st, 0, "final free")?;
                self.check_live(&st, "after final free")?;
            }
        }
        st.host.call(Cmd::DropPool).map_err(|f| panic_as("drop_panic", f))?;
        drop(st);
        Ok(())
    }
}

impl PoolSpec {
    fn apply_inner(&self, st: &mut St, op: &Op) -> Result<(), Fail> {
        let was_free = matches!(op, Op::Free(_));
        match op {
            Op::Alloc(r) => {
                let rep = st.host.call(Cmd::Alloc(r.size, self.align_of(r))).map_err(|f| panic_as("alloc_panic", f))?;
                match rep {
                    Rep::Alloc(Ok(is)) => self.on_issued(st, r, is)?,
                    Rep::Alloc(Err(_)) => {
                        // (a refusal is always safe for C07; whether a bump allocator has room left depends on the alignment of its
                        // backing buffer's ADDRESS, so refusals are not comparable between runs and no refusal profile is kept here)
                        st.refused += 1;
                        if r.size >= 1 << 31 {
                            st.refused_huge += 1;
                        }
                    }
                    other => return Err(Fail::new("machinery", format!("unexpected reply {other:?}"))),
                }
            }
            Op::Free(j) => {
                if *j >= st.live.len() {
                    return Err(Fail::new("machinery", "Free index out of range"));
                }
                self.do_free(st, *j, "free")?;
            }
            Op::FreeAgain => {
                let Some(t) = st.last_freed else { return Err(Fail::new("machinery", "FreeAgain without a freed block")) };
                match st.host.call(Cmd::FreeAgain(t)).map_err(|f| panic_as("free_panic", f))? {
                    Rep::Opt(Some(Ok(()))) => {
                        return Err(fail("double_free_accepted", "accepted", "second free of the block that was just freed returned Ok"));
                    }
                    Rep::Opt(_) => {}
                    other => return Err(Fail::new("machinery", format!("unexpected reply {other:?}"))),
                }
            }
            Op::FreeForeign => match st.host.call(Cmd::FreeForeign).map_err(|f| panic_as("free_panic", f))? {
                Rep::Opt(Some(Ok(()))) => {
                    return Err(fail("foreign_free_accepted", "accepted", "free of a pointer outside the pool's memory returned Ok"));
                }
                Rep::Opt(_) => {}
                other => return Err(Fail::new("machinery", format!("unexpected reply {other:?}"))),
            },
            Op::OpenScope => {
                st.host.call(Cmd::OpenScope)?;
                st.scopes.push(st.seq);
            }
            Op::CloseScope => {
                let Some(mark) = st.scopes.pop() else { return Err(Fail::new("machinery", "CloseScope without scope")) };
                st.host.call(Cmd::CloseScope).map_err(|f| panic_as("free_panic", f))?;
                // documented: the arena "resets to the current position" of the scope's creation
                let (dead, keep): (Vec<Live>, Vec<Live>) = std::mem::take(&mut st.live).into_iter().partition(|l| l.seq >= mark);
                st.live = keep;
                for l in dead {
                    st.freed.push((l.addr, l.req));
                }
            }
            Op::Reset => {
                st.host.call(Cmd::Reset).map_err(|f| panic_as("free_panic", f))?;
                for l in std::mem::take(&mut st.live) {
                    st.freed.push((l.addr, l.req));
                }
                st.scopes.clear();
            }
            Op::Clear => {
                // Err from clear() itself is not judged; what is judged is that the live blocks survive it
                st.cleared += 1;
                match st.host.call(Cmd::Clear).map_err(|f| panic_as("clear_panic", f))? {
                    Rep::Opt(_) => {}
                    other => return Err(Fail::new("machinery", format!("unexpected reply {other:?}"))),
                }
            }
            Op::AllocBulk(k) => {
                let reqs: Vec<Req> = (0..*k).map(|i| self.reqs[i % self.reqs.len()]).collect();
                let sizes: Vec<usize> = reqs.iter().map(|r| r.size).collect();
                match st.host.call(Cmd::AllocBulk(sizes)).map_err(|f| panic_as("alloc_panic", f))? {
                    Rep::Bulk(Some(Ok(blocks))) => {
                        let n = blocks.len();
                        let mut first: Option<Fail> = None;
                        for (r, is) in reqs.iter().zip(blocks) {
                            // every handle is kept (so that the drop path releases it) even after a failure
                            if let Err(e) = self.on_issued(st, r, is) {
                                first.get_or_insert(e);
                            }
                        }
                        if let Some(e) = first {
                            return Err(e);
                        }
                        if n != *k {
                            return Err(fail("size", "bulk_count", format!("bulk allocation of {k} sizes returned Ok with {n} blocks")));
                        }
                    }
                    Rep::Bulk(Some(Err(_))) => st.refused += 1,
                    Rep::Bulk(None) => return Err(Fail::new("machinery", "AllocBulk on a pool without a bulk entry point")),
                    other => return Err(Fail::new("machinery", format!("unexpected reply {other:?}"))),
                }
            }
            Op::FreeEdge(hi) => match st.host.call(Cmd::FreeEdge(*hi)).map_err(|f| panic_as("free_panic", f))? {
                Rep::Opt(Some(Ok(()))) => {
                    return Err(fail(
                        "foreign_free_accepted",
                        if *hi { "edge_hi" } else { "edge_lo" },
                        if *hi { "free of the address one past the end of the pool's region returned Ok" } else { "free of an address 8 bytes in front of the pool's region returned Ok" },
                    ));
                }
                Rep::Opt(Some(Err(_))) => {}
                Rep::Opt(None) => return Err(Fail::new("machinery", "FreeEdge: the pool's region was not identified")),
                other => return Err(Fail::new("machinery", format!("unexpected reply {other:?}"))),
            },
        }
        st.prev_was_free = was_free;
        Ok(())
    }
}

/// Failures observed after a `Clear` get a class of their own, so that a recorded finding about clear() does not
/// hide a different defect of the same clause (and the other way round).
fn after_clear(cleared: u64, f: Fail) -> Fail {
    if cleared > 0 && f.clause != "machinery" {
        Fail { class: format!("{}@after_clear", f.class), ..f }
    } else {
        f
    }
}

// =================================================================================================
// Adapters
// =================================================================================================

fn es<E: fmt::Display>(e: E) -> String {
    e.to_string()
}

// ---- SecureMemoryPool (RAII guard, one chunk size) ----------------------------------------------

struct SecureAd {
    live: HashMap<u64, SecurePooledPtr>,
    /// `None` after `drop_pool_keep_live`
    pool: Option<Arc<SecureMemoryPool>>,
    /// allocate through `allocate_with_hint(true)`
    hot: bool,
    next: u64,
}

impl SecureAd {
    fn issue(&mut self, g: SecurePooledPtr) -> Issued {
        let is = Issued { token: self.next, addr: g.as_ptr() as usize, usable: g.size(), heap: true, origin: "" };
        self.live.insert(self.next, g);
        self.next += 1;
        is
    }
}

impl PoolLike for SecureAd {
    fn alloc(&mut self, size: usize, _a: usize) -> Result<Issued, String> {
        let pool = self.pool.as_ref().ok_or("adapter: pool already dropped")?;
        if size != pool.config().chunk_size {
            return Err("adapter: size is not the chunk size".into());
        }
        let g = if self.hot { pool.allocate_with_hint(true) } else { pool.allocate() }.map_err(es)?;
        Ok(self.issue(g))
    }
    fn free(&mut self, token: u64) -> Result<(), String> {
        let g = self.live.remove(&token).ok_or("adapter: unknown token")?;
        let Some(pool) = self.pool.as_ref() else {
            // the pool is gone: the guard releases its chunk itself
            drop(g);
            return Ok(());
        };
        let b = pool.stats();
        drop(g);
        let a = pool.stats();
        if a.double_free_detected != b.double_free_detected || a.corruption_detected != b.corruption_detected {
            return Err(format!(
                "pool counted the free of a live block as an error (double_free_detected {}->{}, corruption_detected {}->{})",
                b.double_free_detected, a.double_free_detected, b.corruption_detected, a.corruption_detected
            ));
        }
        Ok(())
    }
    fn drain(&mut self, max: usize) -> Option<Vec<usize>> {
        let pool = self.pool.as_ref()?;
        let mut got = Vec::new();
        let mut keep = Vec::new();
        for _ in 0..max {
            let before = pool.stats().pool_misses;
            match pool.allocate() {
                Ok(g) => {
                    let fresh = pool.stats().pool_misses != before;
                    let a = g.as_ptr() as usize;
                    keep.push(g);
                    if fresh {
                        break;
                    }
                    got.push(a);
                }
                Err(_) => break,
            }
        }
        drop(keep);
        Some(got)
    }
    fn clear(&mut self) -> Option<Result<(), String>> {
        let pool = self.pool.as_ref()?;
        Some(pool.clear().map_err(es))
    }
    fn alloc_bulk(&mut self, sizes: &[usize]) -> Option<Result<Vec<Issued>, String>> {
        let pool = self.pool.as_ref()?.clone();
        Some(match pool.allocate_bulk_with_prefetch(sizes) {
            Ok(v) => Ok(v.into_iter().map(|g| self.issue(g)).collect()),
            Err(e) => Err(es(e)),
        })
    }
    fn drop_pool_keep_live(&mut self) -> bool {
        self.pool = None;
        true
    }
}

impl Drop for SecureAd {
    fn drop(&mut self) {
        self.live.clear();
    }
}

fn secure(name: &str, cfg: fn() -> SecurePoolConfig, prefill_allocs: usize, prefill_frees: usize, dq: usize, dt: usize) -> Seq<PoolSpec> {
    secure_with(name, cfg, prefill_allocs, prefill_frees, dq, dt, false)
}

fn secure_with(name: &str, cfg: fn() -> SecurePoolConfig, prefill_allocs: usize, prefill_frees: usize, dq: usize, dt: usize, hot: bool) -> Seq<PoolSpec> {
    let c = cfg();
    let mut prefill = Vec::new();
    for _ in 0..prefill_allocs {
        prefill.push(Op::Alloc(Req { size: c.chunk_size, align: 0 }));
    }
    for _ in 0..prefill_frees {
        prefill.push(Op::Free(0));
    }
    Seq(PoolSpec {
        name: name.to_string(),
        make: Arc::new(move || {
            let pool = SecureMemoryPool::new(cfg()).map_err(es)?;
            Ok(Box::new(SecureAd { live: HashMap::new(), pool: Some(pool), hot, next: 0 }) as Box<dyn PoolLike>)
        }),
        threaded: false,
        skew: true,
        kind: Kind::Memory,
        align: c.alignment,
        reqs: vec![Req { size: c.chunk_size, align: 0 }],
        prefill,
        max_live: prefill_allocs - prefill_frees + 4,
        per_block_free: true,
        validates: false,
        scopes: false,
        reset: false,
        drain: true,
        cap_bytes: None,
        cap_blocks: None,
        max_req: None,
        depth_q: dq,
        depth_t: dt,
        x: Extra::default(),
        note: "SecureMemoryPool hands out RAII guards, so a second free / a foreign pointer cannot be expressed through its API; chunk size is fixed by the config.",
    })
}

// ---- LockFreeMemoryPool (raw pointers, validates the range) --------------------------------------

struct LockFreeAd {
    pool: Arc<LockFreeMemoryPool>,
    memory_size: usize,
    live: HashMap<u64, (usize, usize)>,
    dead: HashMap<u64, (usize, usize)>,
    foreign: Box<[u64; 64]>,
    with_zero: bool,
    /// free through the RAII wrapper `LockFreeAllocation`
    raii: bool,
    next: u64,
}

impl LockFreeAd {
    fn issue(&mut self, p: NonNull<u8>, size: usize) -> Issued {
        let is = Issued { token: self.next, addr: p.as_ptr() as usize, usable: size, heap: true, origin: "" };
        self.live.insert(self.next, (is.addr, size));
        self.next += 1;
        is
    }
}

impl PoolLike for LockFreeAd {
    fn alloc(&mut self, size: usize, _a: usize) -> Result<Issued, String> {
        let p = self.pool.allocate(size).map_err(es)?;
        Ok(self.issue(p, size))
    }
    fn free(&mut self, token: u64) -> Result<(), String> {
        let (a, s) = self.live.remove(&token).ok_or("adapter: unknown token")?;
        self.dead.insert(token, (a, s));
        let p = NonNull::new(a as *mut u8).unwrap();
        if self.raii {
            let mut g = LockFreeAllocation::new(p, s, self.pool.clone());
            if g.size() != s || g.as_ptr() as usize != a || g.as_mut_slice().len() != s || g.as_slice().as_ptr() as usize != a {
                return Err("LockFreeAllocation reports another pointer/size than it was built with".into());
            }
            drop(g);
            return Ok(());
        }
        if self.with_zero { self.pool.deallocate_with_zero(p, s) } else { self.pool.deallocate(p, s) }.map_err(es)
    }
    fn free_again(&mut self, token: u64) -> Option<Result<(), String>> {
        let (a, s) = *self.dead.get(&token)?;
        Some(self.pool.deallocate(NonNull::new(a as *mut u8).unwrap(), s).map_err(es))
    }
    fn free_foreign(&mut self) -> Option<Result<(), String>> {
        let p = NonNull::new(self.foreign.as_mut_ptr() as *mut u8).unwrap();
        Some(self.pool.deallocate(p, 64).map_err(es))
    }
    fn alloc_bulk(&mut self, sizes: &[usize]) -> Option<Result<Vec<Issued>, String>> {
        Some(match self.pool.allocate_bulk_simd(sizes) {
            Ok(v) => Ok(v.into_iter().zip(sizes).map(|(p, &s)| self.issue(p, s)).collect()),
            Err(e) => Err(es(e)),
        })
    }
    fn free_edge(&mut self, hi: bool) -> Option<Result<(), String>> {
        // the backing region is the one system allocation of exactly memory_size bytes the pool made
        let base = rec_find_size(self.memory_size, self.foreign.as_ptr() as usize)?;
        let addr = if hi { base + self.memory_size } else { base - 8 };
        Some(self.pool.deallocate(NonNull::new(addr as *mut u8)?, 64).map_err(es))
    }
}

fn lockfree(name: &str, cfg: fn() -> LockFreePoolConfig, sizes: &[usize], validates: bool, with_zero: bool, dq: usize, dt: usize) -> Seq<PoolSpec> {
    lockfree_with(name, cfg, sizes, validates, with_zero, dq, dt, false)
}

#[allow(clippy::too_many_arguments)]
fn lockfree_with(name: &str, cfg: fn() -> LockFreePoolConfig, sizes: &[usize], validates: bool, with_zero: bool, dq: usize, dt: usize, raii: bool) -> Seq<PoolSpec> {
    let c = cfg();
    Seq(PoolSpec {
        name: name.to_string(),
        make: Arc::new(move || {
            let c = cfg();
            let memory_size = c.memory_size;
            let pool = Arc::new(LockFreeMemoryPool::new(c).map_err(es)?);
            Ok(Box::new(LockFreeAd { pool, memory_size, live: HashMap::new(), dead: HashMap::new(), foreign: Box::new([0; 64]), with_zero, raii, next: 0 }) as Box<dyn PoolLike>)
        }),
        threaded: false,
        skew: true,
        kind: Kind::Memory,
        align: 8,
        reqs: sizes.iter().map(|&s| Req { size: s, align: 0 }).collect(),
        prefill: vec![],
        max_live: 4,
        per_block_free: true,
        validates,
        scopes: false,
        reset: false,
        drain: false,
        cap_bytes: Some(c.memory_size),
        cap_blocks: None,
        max_req: None,
        depth_q: dq,
        depth_t: dt,
        x: Extra::default(),
        note: "memory_size is reduced so that exhaustion is reached; alignment judged is ALIGN_SIZE = 8.",
    })
}

// ---- memory::ThreadLocalMemoryPool (RAII guard, thread_local cache: worker thread) --------------

struct TlmAd {
    live: HashMap<u64, ThreadLocalAllocation>,
    pool: Arc<ThreadLocalMemoryPool>,
    next: u64,
}

impl PoolLike for TlmAd {
    fn alloc(&mut self, size: usize, _a: usize) -> Result<Issued, String> {
        let g = self.pool.allocate(size).map_err(es)?;
        let is = Issued { token: self.next, addr: g.as_ptr() as usize, usable: g.size(), heap: true, origin: "" };
        self.live.insert(self.next, g);
        self.next += 1;
        Ok(is)
    }
    fn free(&mut self, token: u64) -> Result<(), String> {
        self.live.remove(&token).ok_or("adapter: unknown token")?;
        Ok(())
    }
    fn clear(&mut self) -> Option<Result<(), String>> {
        self.pool.clear_caches();
        Some(Ok(()))
    }
}

impl Drop for TlmAd {
    fn drop(&mut self) {
        self.live.clear();
        self.pool.clear_caches();
    }
}

fn tlm(name: &str, cfg: fn() -> ThreadLocalPoolConfig, sizes: &[usize], max_live: usize, dq: usize, dt: usize) -> Seq<PoolSpec> {
    Seq(PoolSpec {
        name: name.to_string(),
        make: Arc::new(move || {
            let pool = ThreadLocalMemoryPool::new(cfg()).map_err(es)?;
            Ok(Box::new(TlmAd { live: HashMap::new(), pool, next: 0 }) as Box<dyn PoolLike>)
        }),
        threaded: true,
        skew: true,
        kind: Kind::Memory,
        align: 8,
        reqs: sizes.iter().map(|&s| Req { size: s, align: 0 }).collect(),
        prefill: vec![],
        max_live,
        per_block_free: true,
        validates: false,
        scopes: false,
        reset: false,
        drain: false,
        cap_bytes: None,
        cap_blocks: None,
        max_req: None,
        depth_q: dq,
        depth_t: dt,
        x: Extra::default(),
        note: "RAII guards; the pool keeps its cache in a thread_local, so every history runs on a fresh worker thread.",
    })
}

// ---- FixedCapacityMemoryPool (RAII guard) -------------------------------------------------------

struct FixedAd {
    live: HashMap<u64, FixedCapacityAllocation>,
    pool: Box<FixedCapacityMemoryPool>,
    next: u64,
}

impl PoolLike for FixedAd {
    fn alloc(&mut self, size: usize, _a: usize) -> Result<Issued, String> {
        let g = self.pool.allocate(size).map_err(es)?;
        let is = Issued { token: self.next, addr: g.as_ptr() as usize, usable: g.size(), heap: true, origin: "" };
        self.live.insert(self.next, g);
        self.next += 1;
        Ok(is)
    }
    fn free(&mut self, token: u64) -> Result<(), String> {
        self.live.remove(&token).ok_or("adapter: unknown token")?;
        Ok(())
    }
}

impl Drop for FixedAd {
    fn drop(&mut self) {
        self.live.clear(); // guards point into the pool: release them first
    }
}

fn fixedcap(name: &str, cfg: fn() -> FixedCapacityPoolConfig, sizes: &[usize], dq: usize, dt: usize) -> Seq<PoolSpec> {
    let c = cfg();
    Seq(PoolSpec {
        name: name.to_string(),
        make: Arc::new(move || {
            let pool = Box::new(FixedCapacityMemoryPool::new(cfg()).map_err(es)?);
            Ok(Box::new(FixedAd { live: HashMap::new(), pool, next: 0 }) as Box<dyn PoolLike>)
        }),
        threaded: false,
        skew: true,
        kind: Kind::Memory,
        align: c.alignment,
        reqs: sizes.iter().map(|&s| Req { size: s, align: 0 }).collect(),
        prefill: vec![],
        max_live: c.total_blocks + 1,
        per_block_free: true,
        validates: false,
        scopes: false,
        reset: false,
        drain: false,
        cap_bytes: Some(c.total_blocks * c.max_block_size),
        cap_blocks: Some(c.total_blocks),
        max_req: Some(c.max_block_size),
        depth_q: dq,
        depth_t: dt,
        x: Extra::default(),
        note: "RAII guards (deallocate/verify_pointer are private, so a second free / a foreign pointer cannot be expressed); total_blocks reduced so that exhaustion is reached.",
    })
}

// ---- MemoryPool (raw pointers, one chunk size, documents that it does not validate) -------------

struct MemPoolAd {
    pool: MemoryPool,
    live: HashMap<u64, usize>,
    next: u64,
}

impl PoolLike for MemPoolAd {
    fn alloc(&mut self, size: usize, _a: usize) -> Result<Issued, String> {
        if size != self.pool.config().chunk_size {
            return Err("adapter: size is not the chunk size".into());
        }
        let p = self.pool.allocate().map_err(es)?;
        let is = Issued { token: self.next, addr: p.as_ptr() as usize, usable: size, heap: true, origin: "" };
        self.live.insert(self.next, is.addr);
        self.next += 1;
        Ok(is)
    }
    fn free(&mut self, token: u64) -> Result<(), String> {
        let a = self.live.remove(&token).ok_or("adapter: unknown token")?;
        self.pool.deallocate(NonNull::new(a as *mut u8).unwrap()).map_err(es)
    }
    fn clear(&mut self) -> Option<Result<(), String>> {
        Some(self.pool.clear().map_err(es))
    }
}

impl Drop for MemPoolAd {
    fn drop(&mut self) {
        for (_, a) in self.live.drain() {
            let _ = self.pool.deallocate(NonNull::new(a as *mut u8).unwrap());
        }
    }
}

fn mempool(name: &str, cfg: fn() -> PoolConfig, dq: usize, dt: usize) -> Seq<PoolSpec> {
    let c = cfg();
    Seq(PoolSpec {
        name: name.to_string(),
        make: Arc::new(move || {
            let pool = MemoryPool::new(cfg()).map_err(es)?;
            Ok(Box::new(MemPoolAd { pool, live: HashMap::new(), next: 0 }) as Box<dyn PoolLike>)
        }),
        threaded: false,
        skew: true,
        kind: Kind::Memory,
        align: c.alignment,
        reqs: vec![Req { size: c.chunk_size, align: 0 }],
        prefill: vec![],
        max_live: 5,
        per_block_free: true,
        validates: false,
        scopes: false,
        reset: false,
        drain: false,
        cap_bytes: None,
        cap_blocks: None,
        max_req: None,
        depth_q: dq,
        depth_t: dt,
        x: Extra::default(),
        note: "MemoryPool documents that deallocate does not validate: no FreeAgain/FreeForeign.",
    })
}

// ---- PooledBuffer (global MemoryPools behind a sized buffer) -------------------------------------

struct PooledBufAd {
    live: HashMap<u64, PooledBuffer>,
    next: u64,
}

impl PoolLike for PooledBufAd {
    fn alloc(&mut self, size: usize, _a: usize) -> Result<Issued, String> {
        let b = PooledBuffer::new(size).map_err(es)?;
        let is = Issued { token: self.next, addr: b.as_slice().as_ptr() as usize, usable: b.len(), heap: false, origin: "" };
        self.live.insert(self.next, b);
        self.next += 1;
        Ok(is)
    }
    fn free(&mut self, token: u64) -> Result<(), String> {
        self.live.remove(&token).ok_or("adapter: unknown token")?;
        Ok(())
    }
}

fn pooled_buffer(dq: usize, dt: usize) -> Seq<PoolSpec> {
    Seq(PoolSpec {
        name: "PooledBuffer[global pools]".to_string(),
        make: Arc::new(|| Ok(Box::new(PooledBufAd { live: HashMap::new(), next: 0 }) as Box<dyn PoolLike>)),
        threaded: false,
        skew: false,
        kind: Kind::Memory,
        align: 8,
        reqs: [1usize, 1024, 1025, 65536, 65537, 1024 * 1024 + 1].iter().map(|&s| Req { size: s, align: 0 }).collect(),
        prefill: vec![],
        max_live: 3,
        per_block_free: true,
        validates: false,
        scopes: false,
        reset: false,
        drain: false,
        cap_bytes: None,
        cap_blocks: None,
        // the largest global pool has 1 MiB chunks and a buffer is exactly one chunk
        max_req: Some(1024 * 1024),
        depth_q: dq,
        depth_t: dt,
        x: Extra::default(),
        note: "The global pools survive between histories, so the ownership check is off; a request above the largest chunk (1 MiB) must be refused and is judged before any byte is written.",
    })
}

// ---- TieredMemoryAllocator (thread_local medium pools: worker thread) ---------------------------

struct TieredAd {
    /// `None`: the process-global allocator behind tiered_allocate / tiered_deallocate
    alloc: Option<TieredMemoryAllocator>,
    live: HashMap<u64, TieredAllocation>,
    next: u64,
}

impl TieredAd {
    fn dealloc(&self, a: TieredAllocation) -> zipora::Result<()> {
        match &self.alloc {
            Some(t) => t.deallocate(a),
            None => zipora::memory::tiered_deallocate(a),
        }
    }
}

impl PoolLike for TieredAd {
    fn alloc(&mut self, size: usize, _a: usize) -> Result<Issued, String> {
        let a = match &self.alloc {
            Some(t) => t.allocate(size),
            None => zipora::memory::tiered_allocate(size),
        }
        .map_err(es)?;
        let own = self.alloc.is_some();
        let (heap, origin) = match &a {
            TieredAllocation::Small(..) => (own, "small"),
            TieredAllocation::Medium(..) => (own, "medium"),
            TieredAllocation::Large(..) => (false, "large"),
            #[allow(unreachable_patterns)]
            _ => (false, "huge"),
        };
        let is = Issued { token: self.next, addr: a.as_ptr::<u8>() as usize, usable: a.size(), heap, origin };
        self.live.insert(self.next, a);
        self.next += 1;
        Ok(is)
    }
    fn free(&mut self, token: u64) -> Result<(), String> {
        let a = self.live.remove(&token).ok_or("adapter: unknown token")?;
        self.dealloc(a).map_err(es)
    }
}

impl Drop for TieredAd {
    fn drop(&mut self) {
        let all: Vec<TieredAllocation> = self.live.drain().map(|(_, a)| a).collect();
        for a in all {
            let _ = self.dealloc(a);
        }
    }
}

fn tiered(name: &str, cfg: fn() -> TieredConfig, sizes: &[usize], dq: usize, dt: usize) -> Seq<PoolSpec> {
    tiered_with(name, Some(cfg), sizes, dq, dt)
}

/// `cfg = None`: the process-global allocator (tiered_allocate / tiered_deallocate)
fn tiered_with(name: &str, cfg: Option<fn() -> TieredConfig>, sizes: &[usize], dq: usize, dt: usize) -> Seq<PoolSpec> {
    Seq(PoolSpec {
        name: name.to_string(),
        make: Arc::new(move || {
            let alloc = match cfg {
                Some(c) => Some(TieredMemoryAllocator::new(c()).map_err(es)?),
                None => None,
            };
            Ok(Box::new(TieredAd { alloc, live: HashMap::new(), next: 0 }) as Box<dyn PoolLike>)
        }),
        threaded: true,
        skew: true,
        kind: Kind::Memory,
        align: 8,
        reqs: sizes.iter().map(|&s| Req { size: s, align: 0 }).collect(),
        prefill: vec![],
        max_live: 4,
        per_block_free: true,
        validates: false,
        scopes: false,
        reset: false,
        drain: false,
        cap_bytes: None,
        cap_blocks: None,
        max_req: None,
        depth_q: dq,
        depth_t: dt,
        x: Extra::default(),
        note: "hugepages are disabled in the configs (none configured on this machine); medium pools are thread_local, so every history runs on a fresh worker thread.",
    })
}

// ---- BumpAllocator / BumpArena + BumpScope --------------------------------------------------------

/// The typed entry points `alloc::<T>()` / `alloc_slice::<T>(n)`, selected by the (size, align) pair of the request.
/// Returns (address, bytes the typed pointer spans).
#[repr(align(64))]
#[allow(dead_code)]
struct Over64([u8; 64]);

macro_rules! typed_alloc {
    ($target:expr, $size:expr, $align:expr) => {{
        let t = $target;
        let one = |r: zipora::Result<(usize, usize)>| r.map_err(es);
        match ($size, $align) {
            (8, 8) => one(t.alloc::<u64>().map(|p| (p.as_ptr() as usize, std::mem::size_of::<u64>()))),
            (64, 64) => one(t.alloc::<Over64>().map(|p| (p.as_ptr() as usize, std::mem::size_of::<Over64>()))),
            (3, 1) => one(t.alloc_slice::<u8>(3).map(|p| (p.as_ptr() as *mut u8 as usize, p.len()))),
            (6, 2) => one(t.alloc_slice::<u16>(3).map(|p| (p.as_ptr() as *mut u8 as usize, p.len() * 2))),
            (20, 4) => one(t.alloc_slice::<u32>(5).map(|p| (p.as_ptr() as *mut u8 as usize, p.len() * 4))),
            (48, 16) => one(t.alloc_slice::<u128>(3).map(|p| (p.as_ptr() as *mut u8 as usize, p.len() * 16))),
            (s, a) => Err(format!("adapter: no typed request for {s}@{a}")),
        }
    }};
}

struct BumpAd {
    a: BumpAllocator,
    typed: bool,
    next: u64,
}

impl PoolLike for BumpAd {
    fn alloc(&mut self, size: usize, align: usize) -> Result<Issued, String> {
        self.next += 1;
        if self.typed {
            let (addr, usable) = typed_alloc!(&self.a, size, align)?;
            return Ok(Issued { token: self.next, addr, usable, heap: true, origin: "" });
        }
        let p = self.a.alloc_bytes(size, align).map_err(es)?;
        Ok(Issued { token: self.next, addr: p.as_ptr() as usize, usable: size, heap: true, origin: "" })
    }
    fn free(&mut self, _t: u64) -> Result<(), String> {
        Err("adapter: bump allocators have no per-block free".into())
    }
    fn reset(&mut self) {
        unsafe { self.a.reset() }
    }
}

struct ArenaAd {
    scopes: Vec<BumpScope<'static>>,
    arena: Box<BumpArena>,
    typed: bool,
    next: u64,
}

impl PoolLike for ArenaAd {
    fn alloc(&mut self, size: usize, align: usize) -> Result<Issued, String> {
        self.next += 1;
        if self.typed {
            let (addr, usable) = match self.scopes.last() {
                Some(sc) => typed_alloc!(sc, size, align)?,
                None => typed_alloc!(&*self.arena, size, align)?,
            };
            return Ok(Issued { token: self.next, addr, usable, heap: true, origin: "" });
        }
        let p = match self.scopes.last() {
            Some(s) => s.alloc_bytes(size, align),
            None => self.arena.alloc_bytes(size, align),
        }
        .map_err(es)?;
        Ok(Issued { token: self.next, addr: p.as_ptr() as usize, usable: size, heap: true, origin: "" })
    }
    fn free(&mut self, _t: u64) -> Result<(), String> {
        Err("adapter: bump arenas have no per-block free".into())
    }
    fn open_scope(&mut self) {
        // the scope borrows the boxed arena, which outlives it (scopes are dropped first)
        let s: BumpScope<'_> = self.arena.scope();
        let s: BumpScope<'static> = unsafe { std::mem::transmute(s) };
        self.scopes.push(s);
    }
    fn close_scope(&mut self) {
        self.scopes.pop();
    }
}

impl Drop for ArenaAd {
    fn drop(&mut self) {
        while self.scopes.pop().is_some() {}
    }
}

fn bump_typed_reqs() -> Vec<Req> {
    vec![Req { size: 3, align: 1 }, Req { size: 6, align: 2 }, Req { size: 8, align: 8 }, Req { size: 20, align: 4 }, Req { size: 48, align: 16 }, Req { size: 64, align: 64 }]
}

fn bump_tiny_reqs() -> Vec<Req> {
    vec![Req { size: 1, align: 1 }, Req { size: 7, align: 8 }, Req { size: 16, align: 16 }, Req { size: 24, align: 8 }, Req { size: 33, align: 1 }]
}

fn bump_reqs() -> Vec<Req> {
    vec![Req { size: 1, align: 1 }, Req { size: 7, align: 8 }, Req { size: 64, align: 64 }, Req { size: 100, align: 4096 }, Req { size: 4000, align: 8 }]
}

fn bump(name: &str, capacity: usize, arena: bool, dq: usize, dt: usize) -> Seq<PoolSpec> {
    bump_with(name, capacity, arena, dq, dt, bump_reqs(), false)
}

fn bump_with(name: &str, capacity: usize, arena: bool, dq: usize, dt: usize, reqs: Vec<Req>, typed: bool) -> Seq<PoolSpec> {
    Seq(PoolSpec {
        name: name.to_string(),
        make: Arc::new(move || {
            if arena {
                let arena = Box::new(BumpArena::new(capacity).map_err(es)?);
                Ok(Box::new(ArenaAd { scopes: Vec::new(), arena, typed, next: 0 }) as Box<dyn PoolLike>)
            } else {
                Ok(Box::new(BumpAd { a: BumpAllocator::new(capacity).map_err(es)?, typed, next: 0 }) as Box<dyn PoolLike>)
            }
        }),
        threaded: false,
        skew: true,
        kind: Kind::Memory,
        align: 1,
        reqs,
        prefill: vec![],
        max_live: 6,
        per_block_free: false,
        validates: false,
        scopes: arena,
        reset: !arena,
        drain: false,
        cap_bytes: Some(capacity),
        cap_blocks: None,
        max_req: None,
        depth_q: dq,
        depth_t: dt,
        x: Extra::default(),
        note: "alloc_bytes(size, align) with (size@align) pairs; CloseScope frees every block allocated since the scope was opened (documented: the scope resets to the position of its creation), scopes are closed innermost first.",
    })
}

// ---- five-level family (offsets) -------------------------------------------------------------------

fn off(o: MemOffset) -> usize {
    // MemOffset is #[repr(transparent)] over u32 and exposes no accessor
    let v: u32 = unsafe { std::mem::transmute(o) };
    v as usize
}

trait Five {
    fn alloc5(&mut self, size: usize) -> zipora::Result<MemOffset>;
    fn free5(&mut self, o: MemOffset, size: usize) -> zipora::Result<()>;
    fn cap5(&self) -> usize;
    fn used5(&self) -> usize;
}

macro_rules! five_impl {
    ($t:ty) => {
        impl Five for $t {
            fn alloc5(&mut self, size: usize) -> zipora::Result<MemOffset> {
                self.alloc(size)
            }
            fn free5(&mut self, o: MemOffset, size: usize) -> zipora::Result<()> {
                self.free(o, size)
            }
            fn cap5(&self) -> usize {
                self.stats().total_capacity
            }
            fn used5(&self) -> usize {
                self.stats().used_memory
            }
        }
    };
}
five_impl!(NoLockingPool);
five_impl!(MutexBasedPool);
five_impl!(LockFreePool);
five_impl!(ThreadLocalPool);
five_impl!(FixedCapacityPool);
five_impl!(AdaptiveFiveLevelPool);

/// An adaptive pool used through both of its entry points in turn: the pool itself and a `FiveLevelPoolHandle` to it.
struct WithHandle {
    pool: AdaptiveFiveLevelPool,
    handle: FiveLevelPoolHandle,
    calls: u64,
}

impl Five for WithHandle {
    fn alloc5(&mut self, size: usize) -> zipora::Result<MemOffset> {
        self.calls += 1;
        if self.calls % 2 == 1 { self.handle.alloc(size) } else { self.pool.alloc(size) }
    }
    fn free5(&mut self, o: MemOffset, size: usize) -> zipora::Result<()> {
        self.calls += 1;
        if self.calls % 2 == 1 { self.handle.free(o, size) } else { self.pool.free(o, size) }
    }
    fn cap5(&self) -> usize {
        self.handle.stats().total_capacity
    }
    fn used5(&self) -> usize {
        self.handle.stats().used_memory
    }
}

struct FiveAd {
    p: Box<dyn Five>,
    live: HashMap<u64, (MemOffset, usize)>,
    /// ThreadLocalPool: tell arena offsets from global-pool offsets through stats().used_memory
    tag_origin: bool,
    region: bool,
    next: u64,
}

impl PoolLike for FiveAd {
    fn alloc(&mut self, size: usize, _a: usize) -> Result<Issued, String> {
        let before = self.p.used5();
        let o = self.p.alloc5(size).map_err(es)?;
        let origin = if !self.tag_origin {
            ""
        } else if self.p.used5() != before {
            "global"
        } else {
            "thread_cache"
        };
        let is = Issued { token: self.next, addr: off(o), usable: size, heap: false, origin };
        self.live.insert(self.next, (o, size));
        self.next += 1;
        Ok(is)
    }
    fn free(&mut self, token: u64) -> Result<(), String> {
        let (o, s) = self.live.remove(&token).ok_or("adapter: unknown token")?;
        self.p.free5(o, s).map_err(es)
    }
    fn total_capacity(&self) -> Option<usize> {
        if self.region {
            Some(self.p.cap5())
        } else {
            None
        }
    }
}

#[derive(Clone, Copy)]
enum FiveKind {
    NoLocking,
    Mutex,
    LockFree,
    ThreadLocal,
    Fixed,
    Adaptive(Option<ConcurrencyLevel>),
    /// `AdaptiveFiveLevelPool::new` with `fixed_capacity: None`: the level is chosen from the CPU count
    Auto,
    /// `with_level(l)` used through the pool and through `get_handle()` in turn
    Handle(ConcurrencyLevel),
}

/// The level `AdaptiveFiveLevelPool::new` selects for this configuration on this machine.
fn auto_level(cfg: fn() -> FiveLevelPoolConfig) -> Option<ConcurrencyLevel> {
    AdaptiveFiveLevelPool::new(cfg()).ok().map(|p| p.current_level())
}

fn five(name: &str, which: FiveKind, cfg: fn() -> FiveLevelPoolConfig, sizes: &[usize], dq: usize, dt: usize) -> Seq<PoolSpec> {
    let c = cfg();
    let tl = matches!(which, FiveKind::ThreadLocal | FiveKind::Adaptive(Some(ConcurrencyLevel::ThreadLocal)) | FiveKind::Handle(ConcurrencyLevel::ThreadLocal))
        || (matches!(which, FiveKind::Auto) && auto_level(cfg) == Some(ConcurrencyLevel::ThreadLocal));
    let fixed = matches!(which, FiveKind::Fixed | FiveKind::Adaptive(Some(ConcurrencyLevel::FixedCapacity)) | FiveKind::Adaptive(None));
    let cap = if fixed { c.fixed_capacity.unwrap_or(c.initial_capacity) } else { c.initial_capacity };
    Seq(PoolSpec {
        name: name.to_string(),
        make: Arc::new(move || {
            let p: Box<dyn Five> = match which {
                FiveKind::NoLocking => Box::new(NoLockingPool::new(cfg()).map_err(es)?),
                FiveKind::Mutex => Box::new(MutexBasedPool::new(cfg()).map_err(es)?),
                FiveKind::LockFree => Box::new(LockFreePool::new(cfg()).map_err(es)?),
                FiveKind::ThreadLocal => Box::new(ThreadLocalPool::new(cfg()).map_err(es)?),
                FiveKind::Fixed => Box::new(FixedCapacityPool::new(cfg()).map_err(es)?),
                FiveKind::Adaptive(Some(l)) => Box::new(AdaptiveFiveLevelPool::with_level(cfg(), l).map_err(es)?),
                FiveKind::Adaptive(None) | FiveKind::Auto => Box::new(AdaptiveFiveLevelPool::new(cfg()).map_err(es)?),
                FiveKind::Handle(l) => {
                    let pool = AdaptiveFiveLevelPool::with_level(cfg(), l).map_err(es)?;
                    let handle = pool.get_handle().map_err(es)?;
                    Box::new(WithHandle { pool, handle, calls: 0 })
                }
            };
            Ok(Box::new(FiveAd { p, live: HashMap::new(), tag_origin: tl, region: !tl, next: 0 }) as Box<dyn PoolLike>)
        }),
        threaded: tl,
        skew: false,
        kind: Kind::Offsets,
        align: c.alignment,
        reqs: sizes.iter().map(|&s| Req { size: s, align: 0 }).collect(),
        prefill: vec![],
        max_live: 4,
        per_block_free: true,
        validates: false,
        scopes: false,
        reset: false,
        drain: false,
        cap_bytes: Some(if tl { cap + c.arena_size } else { cap }),
        cap_blocks: None,
        max_req: None,
        depth_q: dq,
        depth_t: dt,
        x: Extra::default(),
        note: "the five-level pools return opaque offsets and expose no memory: judged on offsets (disjoint, aligned, below stats().total_capacity); capacities reduced so that exhaustion is reached.",
    })
}

// ---- MemoryMappedAllocator -------------------------------------------------------------------------

struct MmapAd {
    a: MemoryMappedAllocator,
    live: HashMap<u64, MmapAllocation>,
    next: u64,
}

impl PoolLike for MmapAd {
    fn alloc(&mut self, size: usize, _a: usize) -> Result<Issued, String> {
        let m = self.a.allocate(size).map_err(es)?;
        let is = Issued { token: self.next, addr: m.as_ptr::<u8>() as usize, usable: m.size(), heap: false, origin: "" };
        self.live.insert(self.next, m);
        self.next += 1;
        Ok(is)
    }
    fn free(&mut self, token: u64) -> Result<(), String> {
        let m = self.live.remove(&token).ok_or("adapter: unknown token")?;
        self.a.deallocate(m).map_err(es)
    }
    fn clear(&mut self) -> Option<Result<(), String>> {
        Some(self.a.clear_cache().map_err(es))
    }
}

impl Drop for MmapAd {
    fn drop(&mut self) {
        for (_, m) in self.live.drain() {
            let _ = self.a.deallocate(m);
        }
    }
}

fn mmap_alloc(name: &str, min: usize, sizes: &[usize], prefill_allocs: usize, dq: usize, dt: usize) -> Seq<PoolSpec> {
    let first = sizes[1];
    Seq(PoolSpec {
        name: name.to_string(),
        make: Arc::new(move || Ok(Box::new(MmapAd { a: MemoryMappedAllocator::new(min), live: HashMap::new(), next: 0 }) as Box<dyn PoolLike>)),
        threaded: false,
        skew: false,
        kind: Kind::Memory,
        align: 4096,
        reqs: sizes.iter().map(|&s| Req { size: s, align: 0 }).collect(),
        prefill: (0..prefill_allocs).map(|_| Op::Alloc(Req { size: first, align: 0 })).collect(),
        max_live: prefill_allocs + 3,
        per_block_free: true,
        validates: false,
        scopes: false,
        reset: false,
        drain: false,
        cap_bytes: None,
        cap_blocks: None,
        max_req: None,
        depth_q: dq,
        depth_t: dt,
        x: Extra::default(),
        note: "regions come from mmap (page aligned); the region cache holds 4 regions per size, the prefix makes the 5th free reachable.",
    })
}

// ---- numa_alloc_aligned / numa_dealloc (the allocator behind CacheAlignedVec) --------------------

struct NumaAd {
    live: HashMap<u64, (usize, usize, usize)>,
    /// `init_numa_pools()` was called: numa_dealloc takes its per-node pool branch
    pooled: bool,
    next: u64,
}

impl NumaAd {
    fn new(pooled: bool) -> Self {
        // the per-node pools are process-global: put them into the state this subject is about
        let _ = zipora::memory::clear_numa_pools();
        if pooled {
            let _ = zipora::memory::init_numa_pools();
        }
        NumaAd { live: HashMap::new(), pooled, next: 0 }
    }
}

impl PoolLike for NumaAd {
    fn alloc(&mut self, size: usize, align: usize) -> Result<Issued, String> {
        let p = zipora::memory::numa_alloc_aligned(size, align, 0).map_err(es)?;
        let is = Issued { token: self.next, addr: p.as_ptr() as usize, usable: size, heap: true, origin: "" };
        self.live.insert(self.next, (is.addr, size, align));
        self.next += 1;
        Ok(is)
    }
    fn free(&mut self, token: u64) -> Result<(), String> {
        let (a, s, al) = self.live.remove(&token).ok_or("adapter: unknown token")?;
        zipora::memory::numa_dealloc(NonNull::new(a as *mut u8).unwrap(), s, al, 0).map_err(es)
    }
    fn clear(&mut self) -> Option<Result<(), String>> {
        // drops the per-node pools (and what they cached); with `pooled` they are set up again
        let r = zipora::memory::clear_numa_pools().map_err(es);
        if self.pooled {
            let _ = zipora::memory::init_numa_pools();
        }
        Some(r)
    }
}

impl Drop for NumaAd {
    fn drop(&mut self) {
        for (_, (a, s, al)) in self.live.drain() {
            let _ = zipora::memory::numa_dealloc(NonNull::new(a as *mut u8).unwrap(), s, al, 0);
        }
        if self.pooled {
            let _ = zipora::memory::clear_numa_pools();
        }
    }
}

fn numa(dq: usize, dt: usize) -> Seq<PoolSpec> {
    numa_with("numa_alloc_aligned/numa_dealloc", false, dq, dt)
}

fn numa_with(name: &str, pooled: bool, dq: usize, dt: usize) -> Seq<PoolSpec> {
    Seq(PoolSpec {
        name: name.to_string(),
        make: Arc::new(move || Ok(Box::new(NumaAd::new(pooled)) as Box<dyn PoolLike>)),
        threaded: false,
        skew: true,
        kind: Kind::Memory,
        align: 64,
        reqs: vec![Req { size: 1, align: 64 }, Req { size: 1000, align: 64 }, Req { size: 1024, align: 128 }, Req { size: 65536, align: 4096 }],
        prefill: vec![],
        max_live: 4,
        per_block_free: true,
        validates: false,
        scopes: false,
        reset: false,
        drain: false,
        cap_bytes: None,
        cap_blocks: None,
        max_req: None,
        depth_q: dq,
        depth_t: dt,
        x: Extra::default(),
        note: "the exposed allocation functions behind CacheAlignedVec; alignment judged is max(align, CACHE_LINE_SIZE) as documented.",
    })
}

// ---- CacheOptimizedAllocator::allocate_aligned / deallocate_aligned -----------------------------------

struct CacheOptAd {
    a: CacheOptimizedAllocator,
    hot: bool,
    live: HashMap<u64, (usize, usize, usize)>,
    next: u64,
}

impl PoolLike for CacheOptAd {
    fn alloc(&mut self, size: usize, align: usize) -> Result<Issued, String> {
        self.hot = !self.hot;
        let p = self.a.allocate_aligned(size, align, self.hot).map_err(es)?;
        let is = Issued { token: self.next, addr: p.as_ptr() as usize, usable: size, heap: true, origin: "" };
        self.live.insert(self.next, (is.addr, size, align));
        self.next += 1;
        Ok(is)
    }
    fn free(&mut self, token: u64) -> Result<(), String> {
        let (a, s, al) = self.live.remove(&token).ok_or("adapter: unknown token")?;
        self.a.deallocate_aligned(NonNull::new(a as *mut u8).unwrap(), s, al).map_err(es)
    }
}

impl Drop for CacheOptAd {
    fn drop(&mut self) {
        for (_, (a, s, al)) in self.live.drain() {
            let _ = self.a.deallocate_aligned(NonNull::new(a as *mut u8).unwrap(), s, al);
        }
    }
}

fn cache_opt(name: &str, cfg: fn() -> CacheLayoutConfig, dq: usize, dt: usize) -> Seq<PoolSpec> {
    Seq(PoolSpec {
        name: name.to_string(),
        make: Arc::new(move || Ok(Box::new(CacheOptAd { a: CacheOptimizedAllocator::new(cfg()), hot: false, live: HashMap::new(), next: 0 }) as Box<dyn PoolLike>)),
        threaded: false,
        skew: true,
        kind: Kind::Memory,
        align: 64,
        reqs: vec![Req { size: 1, align: 1 }, Req { size: 64, align: 64 }, Req { size: 65, align: 8 }, Req { size: 100, align: 128 }, Req { size: 5000, align: 4096 }],
        prefill: vec![],
        max_live: 4,
        per_block_free: true,
        validates: false,
        scopes: false,
        reset: false,
        drain: false,
        cap_bytes: None,
        cap_blocks: None,
        max_req: None,
        depth_q: dq,
        depth_t: dt,
        x: Extra::default(),
        note: "allocate_aligned(size, align, hot/cold alternating) / deallocate_aligned; alignment judged is the requested one (the allocator documents max(align, cache line)).",
    })
}

// ---- the global SecureMemoryPools behind get_global_pool_for_size --------------------------------------

struct GlobalSecureAd {
    live: HashMap<u64, SecurePooledPtr>,
    next: u64,
}

impl PoolLike for GlobalSecureAd {
    fn alloc(&mut self, size: usize, _a: usize) -> Result<Issued, String> {
        let g = zipora::memory::secure_pool::get_global_pool_for_size(size).allocate().map_err(es)?;
        let is = Issued { token: self.next, addr: g.as_ptr() as usize, usable: g.size(), heap: false, origin: "" };
        self.live.insert(self.next, g);
        self.next += 1;
        Ok(is)
    }
    fn free(&mut self, token: u64) -> Result<(), String> {
        self.live.remove(&token).ok_or("adapter: unknown token")?;
        Ok(())
    }
}

fn global_secure(dq: usize, dt: usize) -> Seq<PoolSpec> {
    Seq(PoolSpec {
        name: "SecureMemoryPool[get_global_pool_for_size]".to_string(),
        make: Arc::new(|| Ok(Box::new(GlobalSecureAd { live: HashMap::new(), next: 0 }) as Box<dyn PoolLike>)),
        threaded: false,
        skew: false,
        kind: Kind::Memory,
        align: 8,
        reqs: [1usize, 1024, 1025, 65536, 65537, 1024 * 1024].iter().map(|&s| Req { size: s, align: 0 }).collect(),
        prefill: vec![],
        max_live: 3,
        per_block_free: true,
        validates: false,
        scopes: false,
        reset: false,
        drain: false,
        cap_bytes: None,
        cap_blocks: None,
        max_req: None,
        depth_q: dq,
        depth_t: dt,
        x: Extra::default(),
        note: "get_global_pool_for_size(size).allocate(): the chunk of the pool chosen for `size` must hold `size` bytes (sizes up to the largest chunk, 1 MiB); the global pools and their thread caches survive between histories, so the ownership check is off.",
    })
}

// =================================================================================================
// Configurations
// =================================================================================================

fn sec_small_c0() -> SecurePoolConfig {
    SecurePoolConfig::small_secure().with_local_cache_size(0)
}
fn sec_small_c1() -> SecurePoolConfig {
    SecurePoolConfig::small_secure().with_local_cache_size(1)
}
fn sec_small_c2() -> SecurePoolConfig {
    SecurePoolConfig::small_secure().with_local_cache_size(2)
}
fn sec_small_c2_zero() -> SecurePoolConfig {
    SecurePoolConfig::small_secure().with_local_cache_size(2).with_zero_on_alloc(true).with_zero_on_free(false)
}
fn sec_small_a64() -> SecurePoolConfig {
    SecurePoolConfig::small_secure().with_alignment(64).with_local_cache_size(2)
}
fn sec_medium_a8() -> SecurePoolConfig {
    SecurePoolConfig::medium_secure().with_alignment(8)
}
fn sec_large_a8() -> SecurePoolConfig {
    SecurePoolConfig::large_secure().with_alignment(8)
}
fn sec_new_a8() -> SecurePoolConfig {
    SecurePoolConfig::new(256, 4, 8).with_local_cache_size(1)
}

fn lf_compact_512() -> LockFreePoolConfig {
    LockFreePoolConfig { memory_size: 512, ..LockFreePoolConfig::compact() }
}
fn lf_default_512() -> LockFreePoolConfig {
    LockFreePoolConfig { memory_size: 512, ..LockFreePoolConfig::default() }
}
fn lf_hiperf_1024() -> LockFreePoolConfig {
    LockFreePoolConfig { memory_size: 1024, ..LockFreePoolConfig::high_performance() }
}
fn lf_zero_512() -> LockFreePoolConfig {
    LockFreePoolConfig { memory_size: 512, zero_on_free: true, ..LockFreePoolConfig::default() }
}
fn lf_large() -> LockFreePoolConfig {
    LockFreePoolConfig { memory_size: 40 * 1024, ..LockFreePoolConfig::compact() }
}

fn tlm_compact_tiny() -> ThreadLocalPoolConfig {
    ThreadLocalPoolConfig { arena_size: 256, max_cached_chunks: 2, ..ThreadLocalPoolConfig::compact() }
}
fn tlm_compact_128() -> ThreadLocalPoolConfig {
    ThreadLocalPoolConfig { arena_size: 128, ..ThreadLocalPoolConfig::compact() }
}
fn tlm_default() -> ThreadLocalPoolConfig {
    ThreadLocalPoolConfig::default()
}
fn tlm_hiperf_tiny() -> ThreadLocalPoolConfig {
    ThreadLocalPoolConfig { arena_size: 1024, max_cached_chunks: 1, ..ThreadLocalPoolConfig::high_performance() }
}

fn fc_small3() -> FixedCapacityPoolConfig {
    FixedCapacityPoolConfig { total_blocks: 3, ..FixedCapacityPoolConfig::small_objects() }
}
fn fc_medium2() -> FixedCapacityPoolConfig {
    FixedCapacityPoolConfig { total_blocks: 2, ..FixedCapacityPoolConfig::medium_objects() }
}
fn fc_realtime3() -> FixedCapacityPoolConfig {
    FixedCapacityPoolConfig { total_blocks: 3, ..FixedCapacityPoolConfig::realtime() }
}
fn fc_secure3_lazy() -> FixedCapacityPoolConfig {
    FixedCapacityPoolConfig { total_blocks: 3, eager_allocation: false, ..FixedCapacityPoolConfig::secure() }
}
// lazy backing memory (allocated by the first allocate(), a copy of the eager set-up code) with an alignment above what
// malloc gives anyway: the configured alignment must hold on this path too
fn fc_realtime3_lazy() -> FixedCapacityPoolConfig {
    FixedCapacityPoolConfig { total_blocks: 3, eager_allocation: false, ..FixedCapacityPoolConfig::realtime() }
}
fn fc_page3_lazy() -> FixedCapacityPoolConfig {
    FixedCapacityPoolConfig { total_blocks: 3, max_block_size: 4096, alignment: 4096, eager_allocation: false, ..FixedCapacityPoolConfig::default() }
}
fn fc_page3() -> FixedCapacityPoolConfig {
    FixedCapacityPoolConfig { total_blocks: 3, max_block_size: 4096, alignment: 4096, ..FixedCapacityPoolConfig::default() }
}
fn fc_default1() -> FixedCapacityPoolConfig {
    FixedCapacityPoolConfig { total_blocks: 1, ..FixedCapacityPoolConfig::default() }
}
fn fc_min16() -> FixedCapacityPoolConfig {
    FixedCapacityPoolConfig { total_blocks: 3, max_block_size: 16, ..FixedCapacityPoolConfig::default() }
}

fn mp_small2() -> PoolConfig {
    PoolConfig { max_chunks: 2, ..PoolConfig::small() }
}
fn mp_medium1() -> PoolConfig {
    PoolConfig { max_chunks: 1, ..PoolConfig::medium() }
}
fn mp_large0() -> PoolConfig {
    PoolConfig { max_chunks: 0, ..PoolConfig::large() }
}
fn mp_a64() -> PoolConfig {
    PoolConfig::new(96, 2, 64)
}

fn tiered_nohuge() -> TieredConfig {
    TieredConfig { enable_hugepages: false, ..TieredConfig::default() }
}
fn tiered_nosmall() -> TieredConfig {
    TieredConfig { enable_hugepages: false, enable_small_pools: false, ..TieredConfig::default() }
}
fn tiered_nomedium() -> TieredConfig {
    TieredConfig { enable_hugepages: false, enable_medium_pools: false, ..TieredConfig::default() }
}

fn five_tiny() -> FiveLevelPoolConfig {
    FiveLevelPoolConfig { max_fast_block_size: 64, alignment: 8, initial_capacity: 256, arena_size: 64, ..FiveLevelPoolConfig::default() }
}
fn five_tiny16() -> FiveLevelPoolConfig {
    FiveLevelPoolConfig { max_fast_block_size: 64, initial_capacity: 256, arena_size: 64, ..FiveLevelPoolConfig::performance_optimized() }
}
fn five_memopt() -> FiveLevelPoolConfig {
    FiveLevelPoolConfig { initial_capacity: 128, arena_size: 32, ..FiveLevelPoolConfig::memory_optimized() }
}
fn five_realtime() -> FiveLevelPoolConfig {
    FiveLevelPoolConfig { initial_capacity: 4096, arena_size: 64, fixed_capacity: Some(128), ..FiveLevelPoolConfig::realtime() }
}
fn five_fixed_none() -> FiveLevelPoolConfig {
    FiveLevelPoolConfig { max_fast_block_size: 64, initial_capacity: 128, arena_size: 64, fixed_capacity: None, ..FiveLevelPoolConfig::default() }
}

// ---- configurations added by the coverage audit -----------------------------------------------------
fn sec_small_c1_pd1() -> SecurePoolConfig {
    SecurePoolConfig::small_secure().with_local_cache_size(1).with_prefetch_distance(1)
}
fn sec_tiny48_zero() -> SecurePoolConfig {
    // chunk below simd_threshold (64): the plain write_bytes branch of zero_chunk_simd
    SecurePoolConfig::new(48, 4, 8).with_local_cache_size(1).with_zero_on_alloc(true)
}
fn sec_odd104_zero() -> SecurePoolConfig {
    // chunk that is no multiple of a vector width (64 + 32 + 8): the tail of the SIMD fill sits directly in front of the
    // footer canary.  (A chunk size that is no multiple of 8 cannot be run in-process: see notes, "needs child isolation".)
    SecurePoolConfig::new(104, 4, 16).with_local_cache_size(1).with_zero_on_alloc(true)
}
fn lf_compact_2k() -> LockFreePoolConfig {
    LockFreePoolConfig { memory_size: 2048, ..LockFreePoolConfig::compact() }
}
fn lf_default_4k() -> LockFreePoolConfig {
    LockFreePoolConfig { memory_size: 4096, ..LockFreePoolConfig::default() }
}
fn fc_odd100() -> FixedCapacityPoolConfig {
    FixedCapacityPoolConfig { total_blocks: 3, max_block_size: 100, ..FixedCapacityPoolConfig::default() }
}
fn tiered_default() -> TieredConfig {
    TieredConfig::default()
}
fn five_align4() -> FiveLevelPoolConfig {
    FiveLevelPoolConfig { max_fast_block_size: 16, alignment: 4, initial_capacity: 64, arena_size: 32, ..FiveLevelPoolConfig::default() }
}

fn main() {
    zverif::main_with("C07", |reg, _tier| {
        // ---- SecureMemoryPool: the pure presets first (configured alignment), then deep variants with alignment 8
        reg.add(secure("SecureMemoryPool/configured-alignment[medium_secure]", SecurePoolConfig::medium_secure, 0, 0, 2, 3));
        reg.add(secure("SecureMemoryPool/configured-alignment[large_secure]", SecurePoolConfig::large_secure, 0, 0, 2, 3));
        reg.add(secure("SecureMemoryPool/configured-alignment[small_secure,align=64,cache=2]", sec_small_a64, 0, 0, 2, 3));
        reg.add(secure("SecureMemoryPool[small_secure,cache=1]", sec_small_c1, 0, 0, 7, 9));
        reg.add(secure("SecureMemoryPool[small_secure,cache=2]", sec_small_c2, 0, 0, 7, 9));
        reg.add(secure("SecureMemoryPool[small_secure,cache=2,zero_on_alloc]", sec_small_c2_zero, 0, 0, 6, 8));
        reg.add(secure("SecureMemoryPool[small_secure,cache=0]", sec_small_c0, 0, 0, 4, 6));
        reg.add(secure("SecureMemoryPool[new(256,4,8),cache=1]", sec_new_a8, 0, 0, 6, 8));
        // presets with their own cache sizes: the prefix leaves (cache_size - 1) chunks cached and 2 live
        reg.add(secure("SecureMemoryPool[small_secure]/prefill", SecurePoolConfig::small_secure, 65, 63, 4, 5));
        reg.add(secure("SecureMemoryPool[medium_secure,align=8]/prefill", sec_medium_a8, 33, 31, 4, 5));
        reg.add(secure("SecureMemoryPool[large_secure,align=8]/prefill", sec_large_a8, 17, 15, 3, 4));

        // ---- LockFreeMemoryPool: bins ..,128,144,160,..: 136 and 144 share a bin; 4 blocks of 152 exhaust 512 bytes
        let lf = [128usize, 136, 144, 152];
        reg.add(lockfree("LockFreeMemoryPool[compact,512B]", lf_compact_512, &lf, true, false, 5, 7));
        reg.add(lockfree("LockFreeMemoryPool[default,512B]", lf_default_512, &lf, false, false, 4, 5));
        reg.add(lockfree("LockFreeMemoryPool[high_performance,1KiB]", lf_hiperf_1024, &[1, 8, 9, 16], false, false, 4, 5));
        reg.add(lockfree("LockFreeMemoryPool[default,512B,zero_on_free]", lf_zero_512, &[56, 64, 65, 72], false, true, 4, 5));
        // sizes around FAST_BIN_THRESHOLD = 8192 (skip-list path) and offsets kept in u32
        reg.add(lockfree("LockFreeMemoryPool[compact,40KiB]/large", lf_large, &[8185, 8192, 8193, 0xFFFF_FFF8], false, false, 4, 5));

        // ---- memory::ThreadLocalMemoryPool: classes 16,32,48,64,..; requests are rounded to 8 on allocation only
        reg.add(tlm("ThreadLocalMemoryPool[compact,arena=256]", tlm_compact_tiny, &[16, 17, 32, 64], 4, 5, 7));
        // 4 x 32 bytes fill the 128-byte hot area; the 5th block needs a new one
        reg.add(tlm("ThreadLocalMemoryPool[compact,arena=128]", tlm_compact_128, &[16, 32], 5, 5, 6));
        reg.add(tlm("ThreadLocalMemoryPool[default]", tlm_default, &[1, 48, 49, 4096, 4097], 4, 4, 5));
        reg.add(tlm("ThreadLocalMemoryPool[high_performance,arena=1KiB]", tlm_hiperf_tiny, &[96, 97, 128, 257], 4, 4, 5));

        // ---- FixedCapacityMemoryPool
        reg.add(fixedcap("FixedCapacityMemoryPool[small_objects,3 blocks]", fc_small3, &[1, 128, 129, 1024, 1025], 5, 7));
        reg.add(fixedcap("FixedCapacityMemoryPool[medium_objects,2 blocks]", fc_medium2, &[1, 16, 17, 65536, 65537], 4, 5));
        reg.add(fixedcap("FixedCapacityMemoryPool[realtime,3 blocks]", fc_realtime3, &[64, 127, 8192, 8193], 5, 6));
        reg.add(fixedcap("FixedCapacityMemoryPool[secure,3 blocks,lazy]", fc_secure3_lazy, &[8, 127, 192, 4096], 5, 6));
        reg.add(fixedcap("FixedCapacityMemoryPool[realtime,3 blocks,lazy]", fc_realtime3_lazy, &[64, 127, 8192, 8193], 4, 5));
        reg.add(fixedcap("FixedCapacityMemoryPool[align=4096,3 blocks,lazy]", fc_page3_lazy, &[1, 4096, 4097], 4, 5));
        reg.add(fixedcap("FixedCapacityMemoryPool[align=4096,3 blocks]", fc_page3, &[1, 4096, 4097], 4, 5));
        reg.add(fixedcap("FixedCapacityMemoryPool[default,1 block]", fc_default1, &[1, 4096, 4097], 4, 5));
        reg.add(fixedcap("FixedCapacityMemoryPool[max_block=16,3 blocks]", fc_min16, &[1, 8, 9, 16, 17], 5, 6));

        // ---- MemoryPool / PooledBuffer
        reg.add(mempool("MemoryPool[small,max_chunks=2]", mp_small2, 7, 9));
        reg.add(mempool("MemoryPool[medium,max_chunks=1]", mp_medium1, 6, 8));
        reg.add(mempool("MemoryPool[large,max_chunks=0]", mp_large0, 5, 6));
        reg.add(mempool("MemoryPool[new(96,2,64)]", mp_a64, 6, 8));
        reg.add(pooled_buffer(3, 4));

        // ---- TieredMemoryAllocator: thresholds 1024 / 16384 (2 MiB tier needs hugepages: not configured here)
        reg.add(tiered("TieredMemoryAllocator[default,no hugepages]", tiered_nohuge, &[1024, 1025, 16384, 16385], 4, 5));
        reg.add(tiered("TieredMemoryAllocator[no small pools]", tiered_nosmall, &[1, 1024, 2048, 2049], 4, 5));
        reg.add(tiered("TieredMemoryAllocator[no medium pools]", tiered_nomedium, &[1024, 1025, 16384, 2 * 1024 * 1024], 3, 4));

        // ---- bump allocators
        reg.add(bump("BumpAllocator[8256B]", 8256, false, 4, 5));
        reg.add(bump("BumpArena+BumpScope[8256B]", 8256, true, 4, 5));

        // ---- five-level family
        let f8 = [8usize, 9, 64, 65];
        reg.add(five("five_level::NoLockingPool[tiny]", FiveKind::NoLocking, five_tiny, &f8, 5, 7));
        reg.add(five("five_level::NoLockingPool[tiny,align16]", FiveKind::NoLocking, five_tiny16, &[1, 16, 17, 80], 4, 5));
        reg.add(five("five_level::NoLockingPool[memory_optimized,128B]", FiveKind::NoLocking, five_memopt, &[8, 24, 32, 129], 4, 5));
        // start state "four blocks carved from the end, all live": a hole below the bump pointer (free an early block) followed by
        // the free of a middle block is reachable at depth 2, the allocation that would overlap at depth 3 (seed C07f needed
        // seven operations from the empty pool, beyond the quick depth)
        for (nm, kind) in [
            ("NoLockingPool", FiveKind::NoLocking),
            ("MutexBasedPool", FiveKind::Mutex),
            ("LockFreePool", FiveKind::LockFree),
            ("FixedCapacityPool", FiveKind::Fixed),
            ("AdaptiveFiveLevelPool[SingleThread]", FiveKind::Adaptive(Some(ConcurrencyLevel::SingleThread))),
        ] {
            let mut sp = five(&format!("five_level::{nm}[tiny]/start: 4 live blocks"), kind, five_tiny, &[16, 24, 40], 4, 5);
            sp.0.prefill = vec![Op::Alloc(Req { size: 16, align: 0 }), Op::Alloc(Req { size: 24, align: 0 }), Op::Alloc(Req { size: 16, align: 0 }), Op::Alloc(Req { size: 24, align: 0 })];
            sp.0.max_live = 6;
            reg.add(sp);
        }
        reg.add(five("five_level::MutexBasedPool[tiny]", FiveKind::Mutex, five_tiny, &f8, 5, 7));
        reg.add(five("five_level::LockFreePool[tiny]", FiveKind::LockFree, five_tiny, &f8, 5, 7));
        reg.add(five("five_level::ThreadLocalPool[tiny]", FiveKind::ThreadLocal, five_tiny, &[8, 16, 65], 5, 6));
        reg.add(five("five_level::FixedCapacityPool[realtime,128B]", FiveKind::Fixed, five_realtime, &[8, 64, 65, 129], 5, 7));
        reg.add(five("five_level::FixedCapacityPool[fixed_capacity=None]", FiveKind::Fixed, five_fixed_none, &f8, 4, 5));
        reg.add(five("five_level::AdaptiveFiveLevelPool[new,realtime]", FiveKind::Adaptive(None), five_realtime, &[8, 64, 65, 129], 4, 5));
        reg.add(five("five_level::AdaptiveFiveLevelPool[SingleThread]", FiveKind::Adaptive(Some(ConcurrencyLevel::SingleThread)), five_tiny, &f8, 4, 5));
        reg.add(five("five_level::AdaptiveFiveLevelPool[MultiThreadMutex]", FiveKind::Adaptive(Some(ConcurrencyLevel::MultiThreadMutex)), five_tiny, &f8, 4, 5));
        reg.add(five("five_level::AdaptiveFiveLevelPool[MultiThreadLockFree]", FiveKind::Adaptive(Some(ConcurrencyLevel::MultiThreadLockFree)), five_tiny, &f8, 4, 5));
        reg.add(five("five_level::ThreadLocalPool via AdaptiveFiveLevelPool[ThreadLocal]", FiveKind::Adaptive(Some(ConcurrencyLevel::ThreadLocal)), five_tiny, &[8, 16, 65], 4, 5));
        reg.add(five("five_level::AdaptiveFiveLevelPool[FixedCapacity]", FiveKind::Adaptive(Some(ConcurrencyLevel::FixedCapacity)), five_tiny, &f8, 4, 5));

        // ---- MemoryMappedAllocator, numa functions
        reg.add(mmap_alloc("MemoryMappedAllocator[min=16KiB]", 16 * 1024, &[16383, 16384, 16385, 20480], 0, 4, 5));
        reg.add(mmap_alloc("MemoryMappedAllocator[min=16KiB]/prefill5", 16 * 1024, &[16383, 16384, 20481], 5, 4, 6));
        // five regions of one size live at once, four of them already freed (= the region cache is full): the next free
        // overflows the cache and the allocation after it must not be handed an unmapped region
        {
            let mut s = mmap_alloc("MemoryMappedAllocator[min=16KiB]/prefill5,freed4", 16 * 1024, &[16383, 16384, 20481], 5, 4, 5);
            for _ in 0..4 {
                s.0.prefill.push(Op::Free(0));
            }
            reg.add(s);
        }
        reg.add(numa(4, 5));

        // =========================================================================================
        // Coverage audit: entry points, presets and thresholds the subjects above do not reach
        // =========================================================================================
        // SecureMemoryPool: clear() with live guards, bulk entry point, hot hint, pool dropped in front of its guards,
        // chunk sizes below / off the SIMD widths with zero_on_alloc, the global pools
        let mut s = secure("SecureMemoryPool[small_secure,cache=1]/clear", sec_small_c1, 0, 0, 5, 6);
        s.0.x.clear = true;
        reg.add(s);
        let mut s = secure("SecureMemoryPool[small_secure,cache=1,prefetch=1]/bulk", sec_small_c1_pd1, 0, 0, 4, 5);
        s.0.x.bulk = vec![3];
        s.0.max_live = 5;
        reg.add(s);
        let mut s = secure("SecureMemoryPool[small_secure,cache=1]/pool-dropped-first", sec_small_c1, 0, 0, 5, 6);
        s.0.x.drop_pool_first = true;
        reg.add(s);
        reg.add(secure_with("SecureMemoryPool[small_secure,cache=2]/allocate_with_hint(hot)", sec_small_c2, 0, 0, 5, 7, true));
        reg.add(secure("SecureMemoryPool[new(48,4,8),cache=1,zero_on_alloc]", sec_tiny48_zero, 0, 0, 5, 7));
        reg.add(secure("SecureMemoryPool[new(104,4,16),cache=1,zero_on_alloc]", sec_odd104_zero, 0, 0, 5, 7));
        reg.add(global_secure(3, 4));

        // LockFreeMemoryPool: the bin table changes its step at 128/256/512..: 256 is a bin, 257..288 share the next one;
        // bulk entry point (10 sizes reach its look-ahead branch); RAII wrapper; pointers just outside the region
        reg.add(lockfree("LockFreeMemoryPool[compact,2KiB]/bins-256-288", lf_compact_2k, &[248, 256, 257, 288, 289], false, false, 4, 4));
        let mut s = lockfree("LockFreeMemoryPool[default,4KiB]/allocate_bulk_simd", lf_default_4k, &[8, 24, 100, 129], false, false, 3, 3);
        s.0.x.bulk = vec![2, 10];
        s.0.max_live = 12;
        reg.add(s);
        reg.add(lockfree_with("LockFreeMemoryPool[compact,512B]/LockFreeAllocation", lf_compact_512, &lf, false, false, 4, 5, true));
        let mut s = lockfree("LockFreeMemoryPool[compact,512B]/edges", lf_compact_512, &[128, 152], false, false, 4, 5);
        s.0.x.edges = true;
        reg.add(s);

        // memory::ThreadLocalMemoryPool: requests above arena_size/4 with use_secure_memory (chunk of the secure pool,
        // 64 KiB) — no subject above reaches this branch; clear_caches() with live blocks
        reg.add(tlm("ThreadLocalMemoryPool[compact,arena=256]/global-fallback", tlm_compact_tiny, &[64, 65, 4096, 65536, 65537], 4, 4, 4));
        let mut s = tlm("ThreadLocalMemoryPool[compact,arena=256]/clear_caches", tlm_compact_tiny, &[16, 64], 3, 4, 5);
        s.0.x.clear = true;
        reg.add(s);

        // FixedCapacityMemoryPool: block stride (max_block_size) that is no multiple of the alignment
        // (a pool that refuses this configuration — the repair of the misaligned-stride defect does — has nothing to explore)
        if FixedCapacityMemoryPool::new(fc_odd100()).is_ok() {
            reg.add(fixedcap("FixedCapacityMemoryPool[max_block=100,3 blocks]", fc_odd100, &[1, 96, 97, 100, 101], 4, 5));
        }

        // MemoryPool / MemoryMappedAllocator: clear() / clear_cache() in the middle of a history
        let mut s = mempool("MemoryPool[small,max_chunks=2]/clear", mp_small2, 5, 6);
        s.0.x.clear = true;
        reg.add(s);
        let mut s = mmap_alloc("MemoryMappedAllocator[min=16KiB]/clear_cache", 16 * 1024, &[16384, 16385, 20480], 0, 4, 5);
        s.0.x.clear = true;
        reg.add(s);

        // TieredMemoryAllocator: the inner medium classes, the real default preset (hugepages on), the global functions
        reg.add(tiered("TieredMemoryAllocator[default,no hugepages]/medium-classes", tiered_nohuge, &[2049, 4096, 4097, 8192, 8193], 3, 4));
        reg.add(tiered("TieredMemoryAllocator[TieredConfig::default]", tiered_default, &[1024, 16384, 16385, 2 * 1024 * 1024 - 1, 2 * 1024 * 1024], 3, 4));
        reg.add(tiered_with("tiered_allocate/tiered_deallocate[global allocator]", None, &[1, 1025, 16385, 2 * 1024 * 1024], 3, 4));

        // bump allocators: a capacity small enough that requests end exactly at / just past the end; typed entry points
        reg.add(bump_with("BumpAllocator[64B]/exact-fit", 64, false, 5, 5, bump_tiny_reqs(), false));
        reg.add(bump_with("BumpArena+BumpScope[64B]/exact-fit", 64, true, 4, 4, bump_tiny_reqs(), false));
        reg.add(bump_with("BumpAllocator[256B]/alloc<T>+alloc_slice<T>", 256, false, 4, 4, bump_typed_reqs(), true));
        reg.add(bump_with("BumpArena+BumpScope[256B]/alloc<T>+alloc_slice<T>", 256, true, 4, 4, bump_typed_reqs(), true));

        // five-level family: smallest legal alignment (the free-list link fills the whole block), level chosen by
        // AdaptiveFiveLevelPool::new, pool and FiveLevelPoolHandle used in turn
        reg.add(five("five_level::NoLockingPool[align4,64B]", FiveKind::NoLocking, five_align4, &[1, 4, 5, 16, 17], 4, 4));
        reg.add(five("five_level::LockFreePool[align4,64B]", FiveKind::LockFree, five_align4, &[1, 4, 5, 16, 17], 4, 4));
        match auto_level(five_tiny) {
            Some(ConcurrencyLevel::ThreadLocal) => reg.add(five("five_level::ThreadLocalPool via AdaptiveFiveLevelPool[new,level by CPU count]", FiveKind::Auto, five_tiny, &[8, 16, 65], 4, 5)),
            _ => reg.add(five("five_level::AdaptiveFiveLevelPool[new,level by CPU count]", FiveKind::Auto, five_tiny, &f8, 4, 5)),
        }
        reg.add(five("five_level::FiveLevelPoolHandle+AdaptiveFiveLevelPool[MultiThreadMutex]", FiveKind::Handle(ConcurrencyLevel::MultiThreadMutex), five_tiny, &f8, 4, 5));
        reg.add(five("five_level::FiveLevelPoolHandle+AdaptiveFiveLevelPool[MultiThreadLockFree]", FiveKind::Handle(ConcurrencyLevel::MultiThreadLockFree), five_tiny, &f8, 4, 5));

        // numa functions with the per-node pools set up (numa_dealloc then takes its pool branch); CacheOptimizedAllocator
        let mut s = numa_with("numa_alloc_aligned/numa_dealloc[init_numa_pools]", true, 4, 4);
        s.0.x.clear = true;
        reg.add(s);
        reg.add(cache_opt("CacheOptimizedAllocator[CacheLayoutConfig::new]", CacheLayoutConfig::new, 4, 4));
    });
}
