//! FastStr (a byte-slice view: `FastStr::new(&[u8])`) against the same operations on `&[u8]`.

use crate::{ensure, fam, R};
use serde::{Deserialize, Serialize};
use std::cmp::Ordering;
use std::collections::hash_map::DefaultHasher;
use std::hash::{Hash, Hasher};
use zipora::FastStr;
use zverif::util::{all_strings, brief, catch, hex, unhex};
use zverif::{Outcome, Registry, Tier};

const ALPHA: [u8; 4] = [0x00, 0x61, 0x80, 0xFF];

#[derive(Serialize, Deserialize, Hash, Clone, Debug)]
pub enum FsCase {
    /// both operands as hex
    Small(String, String),
    /// grid: length n, fill kind, position of the differing byte, (byte in a, byte in b); b_short = b is the prefix a[..n-1]
    Grid { n: usize, fill: u8, pos: usize, x: u8, y: u8, b_short: bool },
}

fn fill(n: usize, kind: u8) -> Vec<u8> {
    match kind {
        0 => vec![0x61; n],
        1 => vec![0xFF; n],
        2 => vec![0x00; n],
        _ => (0..n).map(|i| (i * 37 + 11) as u8).collect(),
    }
}

impl FsCase {
    fn operands(&self) -> (Vec<u8>, Vec<u8>) {
        match self {
            FsCase::Small(a, b) => (unhex(a).unwrap(), unhex(b).unwrap()),
            FsCase::Grid { n, fill: k, pos, x, y, b_short } => {
                let mut a = fill(*n, *k);
                let mut b = a.clone();
                a[*pos] = *x;
                b[*pos] = *y;
                if *b_short {
                    b.truncate(*n - 1);
                }
                (a, b)
            }
        }
    }
}

fn gen_fs(_tier: Tier, f: &mut dyn FnMut(FsCase) -> bool) {
    let mut small: Vec<Vec<u8>> = Vec::new();
    all_strings(&ALPHA, 4, &mut |s| {
        small.push(s.to_vec());
        true
    });
    for a in &small {
        for b in &small {
            if !f(FsCase::Small(hex(a), hex(b))) {
                return;
            }
        }
    }
    for n in [15usize, 16, 17, 31, 32, 33, 63, 64, 65] {
        for fill in 0..4u8 {
            let mut poss = vec![0usize, 7, 8, n / 2, n - 2, n - 1];
            poss.sort_unstable();
            poss.dedup();
            for pos in poss {
                for (x, y) in [(0x61u8, 0x61u8), (0x61, 0x62), (0x62, 0x61), (0x7F, 0x80), (0x80, 0x7F), (0x00, 0xFF), (0xFF, 0x00), (0x00, 0x01)] {
                    for b_short in [false, true] {
                        if !f(FsCase::Grid { n, fill, pos, x, y, b_short }) {
                            return;
                        }
                    }
                }
            }
        }
    }
}

/// `v` copied so that it starts `al` bytes after an 8-byte boundary
struct Aligned {
    buf: Vec<u64>,
    al: usize,
    len: usize,
}
impl Aligned {
    fn new(v: &[u8], al: usize) -> Aligned {
        let mut buf = vec![0xA5A5_A5A5_A5A5_A5A5u64; (v.len() + al) / 8 + 2];
        let bytes = unsafe { std::slice::from_raw_parts_mut(buf.as_mut_ptr() as *mut u8, buf.len() * 8) };
        bytes[al..al + v.len()].copy_from_slice(v);
        Aligned { buf, al, len: v.len() }
    }
    fn bytes(&self) -> &[u8] {
        let all = unsafe { std::slice::from_raw_parts(self.buf.as_ptr() as *const u8, self.buf.len() * 8) };
        &all[self.al..self.al + self.len]
    }
}

fn std_hash<T: Hash>(t: &T) -> u64 {
    let mut h = DefaultHasher::new();
    t.hash(&mut h);
    h.finish()
}

fn naive_find(h: &[u8], n: &[u8]) -> Option<usize> {
    if n.is_empty() {
        return Some(0);
    }
    if n.len() > h.len() {
        return None;
    }
    (0..=h.len() - n.len()).find(|&i| &h[i..i + n.len()] == n)
}

fn len_class(a: &[u8], b: &[u8]) -> &'static str {
    let m = a.len().max(b.len());
    if m <= 4 { "len<=4" } else if m < 32 { "len<32" } else if m < 64 { "len<64" } else { "len>=64" }
}

/// the documented-by-test semantics of `FastStr::split`: pieces between delimiters, with a final empty piece dropped
/// (fast_str.rs test_split_edge_cases: "a,,b,c," → a, "", b, c; "" → nothing)
fn ref_split(a: &[u8], d: u8) -> Vec<Vec<u8>> {
    let mut v: Vec<Vec<u8>> = a.split(|&b| b == d).map(|p| p.to_vec()).collect();
    if v.last().map_or(false, |l| l.is_empty()) {
        v.pop();
    }
    v
}

fn unary(a: &[u8], fa: FastStr, lc: &str) -> Result<(), zverif::Fail> {
    let n = a.len();
    ensure!(fa.len() == n && fa.is_empty() == a.is_empty() && fa.as_bytes() == a && fa.as_ref() == a, "slicing", format!("accessors/{lc}"), "len/as_bytes differ for {}", brief(a));
    ensure!(fa.as_str() == std::str::from_utf8(a).ok(), "slicing", format!("as_str/{lc}"), "as_str() for {}", brief(a));
    ensure!(fa.into_string() == String::from_utf8_lossy(a) && fa.to_cow_str() == String::from_utf8_lossy(a), "slicing", format!("into_string/{lc}"), "lossy conversion for {}", brief(a));
    ensure!(fa == *a && fa == a, "eq", format!("eq_slice/{lc}"), "FastStr != its own bytes");
    for i in 0..=n + 1 {
        ensure!(fa.get_byte(i) == a.get(i).copied(), "slicing", format!("get_byte/{lc}"), "get_byte({i}) of {}", brief(a));
    }
    for &byte in &[0x00u8, 0x61, 0x62, 0x7F, 0x80, 0xFF] {
        let want = a.iter().position(|&x| x == byte);
        ensure!(fa.find_byte(byte) == want, "find", format!("find_byte/{lc}"), "find_byte({byte:#x}) in {} = {:?} want {:?}", brief(a), fa.find_byte(byte), want);
        ensure!(fa.find_byte_optimized(byte) == want, "find", format!("find_byte_optimized/{lc}"), "find_byte_optimized({byte:#x}) in {} = {:?} want {:?}", brief(a), fa.find_byte_optimized(byte), want);
        let got: Vec<Vec<u8>> = fa.split(byte).map(|p| p.as_bytes().to_vec()).collect();
        ensure!(got == ref_split(a, byte), "split", format!("split/{lc}"), "split({byte:#x}) of {} = {:?} want {:?}", brief(a), got, ref_split(a, byte));
    }
    let lens: Vec<usize> = if n <= 8 { (0..=n + 1).chain([usize::MAX]).collect() } else { vec![0, 1, 7, 8, 9, n - 1, n, n + 1, usize::MAX] };
    for &k in &lens {
        ensure!(fa.prefix(k).as_bytes() == &a[..k.min(n)], "slicing", format!("prefix/{lc}"), "prefix({k}) of {}", brief(a));
        ensure!(fa.suffix(k).as_bytes() == &a[n - k.min(n)..], "slicing", format!("suffix/{lc}"), "suffix({k}) of {}", brief(a));
        ensure!(fa.substring_from(k).as_bytes() == &a[k.min(n)..], "slicing", format!("substring_from/{lc}"), "substring_from({k}) of {}", brief(a));
        for &l in &lens {
            // the slice operation a[start..] itself refuses start > len; so may substring (a panic there is "refused")
            match catch(|| fa.substring(k, l).as_bytes().to_vec()) {
                Ok(got) => {
                    let s = k.min(n);
                    let e = k.saturating_add(l).min(n).max(s);
                    ensure!(got == a[s..e], "slicing", format!("substring/{lc}"), "substring({k},{l}) of {} = {}", brief(a), brief(&got));
                }
                Err(_) => ensure!(k > n, "slicing", format!("substring_panic/{lc}"), "substring({k},{l}) panicked on a {n}-byte string"),
            }
        }
    }
    Ok(())
}

fn run_fs(c: &FsCase) -> R {
    let (a, b) = c.operands();
    let lc = len_class(&a, &b);
    let want_cmp = a.cmp(&b);
    let want_eq = a == b;
    let a_copies: Vec<Aligned> = (0..8).map(|al| Aligned::new(&a, al)).collect();
    let b_copies: Vec<Aligned> = (0..8).map(|al| Aligned::new(&b, al)).collect();
    // hashing: every aligned copy of equal contents hashes equally (hash_fast and the Hash impl)
    let ha0 = FastStr::new(a_copies[0].bytes()).hash_fast();
    let hs0 = std_hash(&FastStr::new(a_copies[0].bytes()));
    for (al, ca) in a_copies.iter().enumerate() {
        let fa = FastStr::new(ca.bytes());
        ensure!(fa.hash_fast() == ha0, "hash", format!("hash_fast_alignment/{lc}"), "hash_fast of {} differs between alignment 0 and {al}", brief(&a));
        ensure!(std_hash(&fa) == hs0, "hash", format!("hash_trait_alignment/{lc}"), "Hash of {} differs between alignment 0 and {al}", brief(&a));
    }
    for (ala, ca) in a_copies.iter().enumerate() {
        let fa = FastStr::new(ca.bytes());
        for (alb, cb) in b_copies.iter().enumerate() {
            let fb = FastStr::new(cb.bytes());
            let ctx = || format!("a={} (alignment {ala}) b={} (alignment {alb})", brief(&a), brief(&b));
            ensure!((fa == fb) == want_eq && (fa != fb) != want_eq, "eq", format!("eq/{lc}"), "== is {} for {}", fa == fb, ctx());
            ensure!(fa.cmp(&fb) == want_cmp && fa.partial_cmp(&fb) == Some(want_cmp) && fa.compare(fb) == want_cmp, "cmp", format!("cmp/{lc}"), "cmp = {:?}, unsigned byte order says {:?} for {}", fa.cmp(&fb), want_cmp, ctx());
            ensure!((fa < fb) == (want_cmp == Ordering::Less) && (fa >= fb) == (want_cmp != Ordering::Less), "cmp", format!("operators/{lc}"), "< / >= disagree with cmp for {}", ctx());
            if want_eq {
                ensure!(fa.hash_fast() == fb.hash_fast() && std_hash(&fa) == std_hash(&fb), "hash", format!("eq_implies_hash_eq/{lc}"), "equal strings hash differently: {}", ctx());
            }
            ensure!(fa.starts_with(fb) == a.starts_with(&b), "prefix_suffix", format!("starts_with/{lc}"), "starts_with = {} for {}", fa.starts_with(fb), ctx());
            ensure!(fa.ends_with(fb) == a.ends_with(&b), "prefix_suffix", format!("ends_with/{lc}"), "ends_with = {} for {}", fa.ends_with(fb), ctx());
            ensure!(fa.find(fb) == naive_find(&a, &b), "find", format!("find/{lc}"), "find = {:?} want {:?} for {}", fa.find(fb), naive_find(&a, &b), ctx());
            let cpl = a.iter().zip(b.iter()).take_while(|(x, y)| x == y).count();
            ensure!(fa.common_prefix_len(fb) == cpl, "prefix_suffix", format!("common_prefix_len/{lc}"), "common_prefix_len = {} want {cpl} for {}", fa.common_prefix_len(fb), ctx());
        }
    }
    // substring search of pieces of a (needle lengths 1, 4, 5 hit the single-byte, >=4 and general paths)
    let fa = FastStr::new(a_copies[3].bytes());
    if a.len() >= 5 {
        for (s, l) in [(0usize, 1usize), (a.len() - 1, 1), (0, 4), (a.len() - 4, 4), (a.len() / 2, 5.min(a.len() - a.len() / 2)), (a.len() - 5, 5)] {
            let needle = &a[s..s + l];
            ensure!(fa.find(FastStr::new(needle)) == naive_find(&a, needle), "find", format!("find_piece/{lc}"), "find(a[{s}..{}]) in {} = {:?} want {:?}", s + l, brief(&a), fa.find(FastStr::new(needle)), naive_find(&a, needle));
        }
        let mut absent = a[a.len() - 4..].to_vec();
        absent[3] ^= 0x55;
        ensure!(fa.find(FastStr::new(&absent)) == naive_find(&a, &absent), "find", format!("find_absent/{lc}"), "find of an altered suffix");
    }
    // unary operations once per first operand (when the second is empty / grid: when b is the short variant)
    let do_unary = match c {
        FsCase::Small(_, bh) => bh.is_empty(),
        FsCase::Grid { b_short, x, y, .. } => *b_short && x == y,
    };
    if do_unary {
        unary(&a, FastStr::new(a_copies[1].bytes()), lc)?;
        // from_raw_parts / From impls
        let ca = &a_copies[5];
        let fr = unsafe { FastStr::from_raw_parts(ca.bytes().as_ptr(), a.len()) };
        ensure!(fr.as_bytes() == &a[..] && FastStr::from(&a[..]) == fr, "slicing", format!("from_raw_parts/{lc}"), "from_raw_parts view differs");
        if let Ok(s) = std::str::from_utf8(&a) {
            ensure!(FastStr::from_string(s) == fr && FastStr::from(s) == fr && fr == s && fr == *s && fr == s.to_string(), "eq", format!("from_string/{lc}"), "from_string view differs");
        }
    }
    Ok(if a.is_empty() && b.is_empty() { Outcome::trivial("both-empty") } else { Outcome::pass(&format!("{lc}/{:?}", want_cmp)) })
}

pub fn register(reg: &mut Registry) {
    reg.add(fam(
        "FastStr",
        "all 341^2 ordered pairs of byte strings of length <=4 over {00,61,80,FF}, plus a grid: lengths {15,16,17,31,32,33,63,64,65} x 4 fills x differing position {0,7,8,n/2,n-2,n-1} x byte pairs {equal, 61/62, 7F/80, 00/FF, 00/01 and reversed} x {same length, b = a[..n-1]}; each operand copied to all 8 alignments (64 combinations per pair) for ==, cmp, hash_fast/Hash, starts_with, ends_with, find, common_prefix_len; per first operand: accessors, get_byte, find_byte(_optimized), split on 6 bytes, prefix/suffix/substring_from/substring over all (start,len) incl. usize::MAX",
        gen_fs,
        run_fs,
    ));
}
