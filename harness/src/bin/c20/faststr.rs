//! FastStr (a byte-slice view: `FastStr::new(&[u8])`) against the same operations on `&[u8]`.

use crate::{ensure, fam, R};
use serde::{Deserialize, Serialize};
use std::cmp::Ordering;
use std::collections::hash_map::DefaultHasher;
use std::hash::{Hash, Hasher};
use zipora::FastStr;
use zverif::util::{all_strings, brief, catch, hex, unhex};
use zverif::{Outcome, Registry, Tier};

const ALPHA: [u8; 4] = [0x00, 0x61, 0x80, 0xFF];

#[derive(Serialize, Deserialize, Hash, Clone, Debug)]
pub enum FsCase {
    /// both operands as hex
    Small(String, String),
    /// grid: length n, fill kind, position of the differing byte, (byte in a, byte in b); b_short = b is the prefix a[..n-1]
    Grid { n: usize, fill: u8, pos: usize, x: u8, y: u8, b_short: bool },
    /// substring search grid (coverage audit): haystack of length n; kind 0 = pairwise distinct bytes (unique occurrence),
    /// kind 1 = all 0x61 with a single 0x62 at start+len-1 (every earlier window is a near miss: the needle a..ab occurs
    /// first exactly at `start`), kind 2 = period-3 bytes 61 62 63 (many occurrences, the first one counts);
    /// needle = haystack[start..start+len], with its last byte altered when `absent`
    Find { n: usize, kind: u8, start: usize, len: usize, absent: bool },
}

fn fill(n: usize, kind: u8) -> Vec<u8> {
    match kind {
        0 => vec![0x61; n],
        1 => vec![0xFF; n],
        2 => vec![0x00; n],
        _ => (0..n).map(|i| (i * 37 + 11) as u8).collect(),
    }
}

fn find_hay(n: usize, kind: u8, start: usize, len: usize) -> Vec<u8> {
    match kind {
        0 => (0..n).map(|i| (i * 37 + 11) as u8).collect(),
        1 => {
            let mut h = vec![0x61u8; n];
            h[start + len - 1] = 0x62;
            h
        }
        _ => (0..n).map(|i| 0x61 + (i % 3) as u8).collect(),
    }
}

impl FsCase {
    fn operands(&self) -> (Vec<u8>, Vec<u8>) {
        match self {
            FsCase::Find { n, kind, start, len, absent } => {
                let h = find_hay(*n, *kind, *start, *len);
                let mut nd = h[*start..*start + *len].to_vec();
                if *absent {
                    // 0x7E occurs in no haystack of kind 1/2; for kind 0 the altered needle is looked up by the reference anyway
                    *nd.last_mut().unwrap() = 0x7E;
                }
                (h, nd)
            }
            FsCase::Small(a, b) => (unhex(a).unwrap(), unhex(b).unwrap()),
            FsCase::Grid { n, fill: k, pos, x, y, b_short } => {
                let mut a = fill(*n, *k);
                let mut b = a.clone();
                a[*pos] = *x;
                b[*pos] = *y;
                if *b_short {
                    b.truncate(*n - 1);
                }
                (a, b)
            }
        }
    }
}

fn gen_fs(_tier: Tier, f: &mut dyn FnMut(FsCase) -> bool) {
    let mut small: Vec<Vec<u8>> = Vec::new();
    all_strings(&ALPHA, 4, &mut |s| {
        small.push(s.to_vec());
        true
    });
    for a in &small {
        for b in &small {
            if !f(FsCase::Small(hex(a), hex(b))) {
                return;
            }
        }
    }
    for n in [15usize, 16, 17, 31, 32, 33, 63, 64, 65] {
        for fill in 0..4u8 {
            let mut poss = vec![0usize, 7, 8, n / 2, n - 2, n - 1];
            poss.sort_unstable();
            poss.dedup();
            for pos in poss {
                for (x, y) in [(0x61u8, 0x61u8), (0x61, 0x62), (0x62, 0x61), (0x7F, 0x80), (0x80, 0x7F), (0x00, 0xFF), (0xFF, 0x00), (0x00, 0x01)] {
                    for b_short in [false, true] {
                        if !f(FsCase::Grid { n, fill, pos, x, y, b_short }) {
                            return;
                        }
                    }
                }
            }
        }
    }
    // ---- coverage audit: lengths around the 8-byte word tail of the hash loops (hash_avx2: 32-byte blocks, then 8-byte
    // words, then single bytes; hash_sse2: 16-byte blocks) and beyond two/four SIMD blocks
    for n in [5usize, 7, 8, 9, 23, 24, 25, 39, 40, 41, 47, 48, 49, 95, 96, 97, 127, 128, 129] {
        for fill in 0..4u8 {
            let mut poss = vec![0usize, 7.min(n - 1), 8.min(n - 1), n / 2, 31.min(n - 1), 32.min(n - 1), n - 2, n - 1];
            poss.sort_unstable();
            poss.dedup();
            for pos in poss {
                for (x, y) in [(0x61u8, 0x61u8), (0x61, 0x62), (0x80, 0x7F), (0x00, 0xFF), (0x00, 0x01)] {
                    for b_short in [false, true] {
                        if !f(FsCase::Grid { n, fill, pos, x, y, b_short }) {
                            return;
                        }
                    }
                }
            }
        }
    }
    // ---- coverage audit: substring search with needles that start in one 16/32/64-byte block and end in the next
    for n in [15usize, 16, 17, 31, 32, 33, 34, 48, 63, 64, 65, 66, 96, 127, 128, 129, 130] {
        for len in [1usize, 2, 3, 4, 5, 8, 15, 16, 17, 31, 32, 33, 63, 64, 65] {
            if len > n {
                continue;
            }
            let last = n - len;
            let mut starts = vec![0usize, 1, 7, 8, 9, 13, 14, 15, 16, 17, 29, 30, 31, 32, 33, 47, 48, 61, 62, 63, 64, 65, last.saturating_sub(1), last];
            starts.retain(|&s| s <= last);
            starts.sort_unstable();
            starts.dedup();
            for start in starts {
                for kind in 0..3u8 {
                    for absent in [false, true] {
                        if !f(FsCase::Find { n, kind, start, len, absent }) {
                            return;
                        }
                    }
                }
            }
        }
    }
}

/// `v` copied so that it starts `al` bytes after an 8-byte boundary
struct Aligned {
    buf: Vec<u64>,
    al: usize,
    len: usize,
}
impl Aligned {
    fn new(v: &[u8], al: usize) -> Aligned {
        // (audit) 8 whole words of padding after the string, and padding bytes that differ from copy to copy: a hash or
        // compare that reads past the end (or before the start) of the view sees different bytes in different copies
        let mut buf = vec![0u64; (v.len() + al) / 8 + 10];
        let bytes = unsafe { std::slice::from_raw_parts_mut(buf.as_mut_ptr() as *mut u8, buf.len() * 8) };
        bytes.fill(0xA5 ^ (al as u8).wrapping_mul(0x1B));
        bytes[al..al + v.len()].copy_from_slice(v);
        Aligned { buf, al, len: v.len() }
    }
    fn bytes(&self) -> &[u8] {
        let all = unsafe { std::slice::from_raw_parts(self.buf.as_ptr() as *const u8, self.buf.len() * 8) };
        &all[self.al..self.al + self.len]
    }
}

fn std_hash<T: Hash>(t: &T) -> u64 {
    let mut h = DefaultHasher::new();
    t.hash(&mut h);
    h.finish()
}

fn naive_find(h: &[u8], n: &[u8]) -> Option<usize> {
    if n.is_empty() {
        return Some(0);
    }
    if n.len() > h.len() {
        return None;
    }
    (0..=h.len() - n.len()).find(|&i| &h[i..i + n.len()] == n)
}

fn len_class(a: &[u8], b: &[u8]) -> &'static str {
    let m = a.len().max(b.len());
    if m <= 4 { "len<=4" } else if m < 32 { "len<32" } else if m < 64 { "len<64" } else { "len>=64" }
}

/// the documented-by-test semantics of `FastStr::split`: pieces between delimiters, with a final empty piece dropped
/// (fast_str.rs test_split_edge_cases: "a,,b,c," → a, "", b, c; "" → nothing)
fn ref_split(a: &[u8], d: u8) -> Vec<Vec<u8>> {
    let mut v: Vec<Vec<u8>> = a.split(|&b| b == d).map(|p| p.to_vec()).collect();
    if v.last().map_or(false, |l| l.is_empty()) {
        v.pop();
    }
    v
}

fn unary(a: &[u8], fa: FastStr, lc: &str) -> Result<(), zverif::Fail> {
    let n = a.len();
    ensure!(fa.len() == n && fa.is_empty() == a.is_empty() && fa.as_bytes() == a && fa.as_ref() == a, "slicing", format!("accessors/{lc}"), "len/as_bytes differ for {}", brief(a));
    ensure!(fa.as_str() == std::str::from_utf8(a).ok(), "slicing", format!("as_str/{lc}"), "as_str() for {}", brief(a));
    ensure!(fa.into_string() == String::from_utf8_lossy(a) && fa.to_cow_str() == String::from_utf8_lossy(a), "slicing", format!("into_string/{lc}"), "lossy conversion for {}", brief(a));
    ensure!(fa == *a && fa == a, "eq", format!("eq_slice/{lc}"), "FastStr != its own bytes");
    for i in 0..=n + 1 {
        ensure!(fa.get_byte(i) == a.get(i).copied(), "slicing", format!("get_byte/{lc}"), "get_byte({i}) of {}", brief(a));
    }
    for &byte in &[0x00u8, 0x61, 0x62, 0x7F, 0x80, 0xFF] {
        let want = a.iter().position(|&x| x == byte);
        ensure!(fa.find_byte(byte) == want, "find", format!("find_byte/{lc}"), "find_byte({byte:#x}) in {} = {:?} want {:?}", brief(a), fa.find_byte(byte), want);
        ensure!(fa.find_byte_optimized(byte) == want, "find", format!("find_byte_optimized/{lc}"), "find_byte_optimized({byte:#x}) in {} = {:?} want {:?}", brief(a), fa.find_byte_optimized(byte), want);
        let got: Vec<Vec<u8>> = fa.split(byte).map(|p| p.as_bytes().to_vec()).collect();
        ensure!(got == ref_split(a, byte), "split", format!("split/{lc}"), "split({byte:#x}) of {} = {:?} want {:?}", brief(a), got, ref_split(a, byte));
    }
    let lens: Vec<usize> = if n <= 8 { (0..=n + 1).chain([usize::MAX]).collect() } else { vec![0, 1, 7, 8, 9, n - 1, n, n + 1, usize::MAX] };
    for &k in &lens {
        ensure!(fa.prefix(k).as_bytes() == &a[..k.min(n)], "slicing", format!("prefix/{lc}"), "prefix({k}) of {}", brief(a));
        ensure!(fa.suffix(k).as_bytes() == &a[n - k.min(n)..], "slicing", format!("suffix/{lc}"), "suffix({k}) of {}", brief(a));
        ensure!(fa.substring_from(k).as_bytes() == &a[k.min(n)..], "slicing", format!("substring_from/{lc}"), "substring_from({k}) of {}", brief(a));
        for &l in &lens {
            // the slice operation a[start..] itself refuses start > len; so may substring (a panic there is "refused")
            match catch(|| fa.substring(k, l).as_bytes().to_vec()) {
                Ok(got) => {
                    let s = k.min(n);
                    let e = k.saturating_add(l).min(n).max(s);
                    ensure!(got == a[s..e], "slicing", format!("substring/{lc}"), "substring({k},{l}) of {} = {}", brief(a), brief(&got));
                }
                Err(_) => ensure!(k > n, "slicing", format!("substring_panic/{lc}"), "substring({k},{l}) panicked on a {n}-byte string"),
            }
        }
    }
    Ok(())
}

/// (audit) substring search grid: haystack at all 8 alignments x needle at alignments {0, 3}
fn run_find(c: &FsCase) -> R {
    let (h, nd) = c.operands();
    let FsCase::Find { n, len, absent, kind, .. } = c else { unreachable!() };
    let want = naive_find(&h, &nd);
    let class = format!("find_grid/hay{}/needle{}", if *n < 32 { "<32" } else if *n < 64 { "<64" } else { ">=64" }, if *len == 1 { "=1" } else if *len < 4 { "<4" } else if *len <= 16 { "<=16" } else { ">16" });
    let n_copies = [Aligned::new(&nd, 0), Aligned::new(&nd, 3)];
    for al in 0..8 {
        let hc = Aligned::new(&h, al);
        let fh = FastStr::new(hc.bytes());
        for nc in &n_copies {
            let fnd = FastStr::new(nc.bytes());
            let got = fh.find(fnd);
            ensure!(got == want, "find", class.clone(), "find(needle of {} bytes) in a {}-byte haystack (kind {kind}, alignment {al}) = {:?} want {:?}; needle {}", nd.len(), h.len(), got, want, brief(&nd));
            ensure!(fh.starts_with(fnd) == h.starts_with(&nd) && fh.ends_with(fnd) == h.ends_with(&nd), "prefix_suffix", "find_grid/starts_ends", "starts_with/ends_with differ for needle {} in a {}-byte haystack", brief(&nd), h.len());
        }
        if nd.len() == 1 {
            ensure!(fh.find_byte(nd[0]) == want && fh.find_byte_optimized(nd[0]) == want, "find", "find_grid/find_byte", "find_byte({:#x}) in a {}-byte haystack (alignment {al}) want {:?}", nd[0], h.len(), want);
        }
        // the part of the haystack from the match on / the part before it: views into the middle of a buffer
        if let Some(p) = want {
            let tail = fh.substring_from(p);
            ensure!(tail.starts_with(FastStr::new(&nd)) && tail.find(FastStr::new(&nd)) == Some(0), "find", "find_grid/tail", "the haystack from the match position on does not start with the needle");
            let head = fh.prefix(p + nd.len() - 1);
            ensure!(head.find(FastStr::new(&nd)) == None, "find", "find_grid/head", "a match is reported in the part of the haystack that ends one byte before the first occurrence ends");
        }
    }
    Ok(Outcome::pass(&format!("{class}/{}", if want.is_none() { "absent" } else if *absent { "altered-but-present" } else { "present" })))
}

fn run_fs(c: &FsCase) -> R {
    if matches!(c, FsCase::Find { .. }) {
        return run_find(c);
    }
    let (a, b) = c.operands();
    let lc = len_class(&a, &b);
    let want_cmp = a.cmp(&b);
    let want_eq = a == b;
    let a_copies: Vec<Aligned> = (0..8).map(|al| Aligned::new(&a, al)).collect();
    let b_copies: Vec<Aligned> = (0..8).map(|al| Aligned::new(&b, al)).collect();
    // hashing: every aligned copy of equal contents hashes equally (hash_fast and the Hash impl)
    let ha0 = FastStr::new(a_copies[0].bytes()).hash_fast();
    let hs0 = std_hash(&FastStr::new(a_copies[0].bytes()));
    for (al, ca) in a_copies.iter().enumerate() {
        let fa = FastStr::new(ca.bytes());
        ensure!(fa.hash_fast() == ha0, "hash", format!("hash_fast_alignment/{lc}"), "hash_fast of {} differs between alignment 0 and {al}", brief(&a));
        ensure!(std_hash(&fa) == hs0, "hash", format!("hash_trait_alignment/{lc}"), "Hash of {} differs between alignment 0 and {al}", brief(&a));
    }
    for (ala, ca) in a_copies.iter().enumerate() {
        let fa = FastStr::new(ca.bytes());
        for (alb, cb) in b_copies.iter().enumerate() {
            let fb = FastStr::new(cb.bytes());
            let ctx = || format!("a={} (alignment {ala}) b={} (alignment {alb})", brief(&a), brief(&b));
            ensure!((fa == fb) == want_eq && (fa != fb) != want_eq, "eq", format!("eq/{lc}"), "== is {} for {}", fa == fb, ctx());
            ensure!(fa.cmp(&fb) == want_cmp && fa.partial_cmp(&fb) == Some(want_cmp) && fa.compare(fb) == want_cmp, "cmp", format!("cmp/{lc}"), "cmp = {:?}, unsigned byte order says {:?} for {}", fa.cmp(&fb), want_cmp, ctx());
            ensure!((fa < fb) == (want_cmp == Ordering::Less) && (fa >= fb) == (want_cmp != Ordering::Less), "cmp", format!("operators/{lc}"), "< / >= disagree with cmp for {}", ctx());
            if want_eq {
                ensure!(fa.hash_fast() == fb.hash_fast() && std_hash(&fa) == std_hash(&fb), "hash", format!("eq_implies_hash_eq/{lc}"), "equal strings hash differently: {}", ctx());
            }
            ensure!(fa.starts_with(fb) == a.starts_with(&b), "prefix_suffix", format!("starts_with/{lc}"), "starts_with = {} for {}", fa.starts_with(fb), ctx());
            ensure!(fa.ends_with(fb) == a.ends_with(&b), "prefix_suffix", format!("ends_with/{lc}"), "ends_with = {} for {}", fa.ends_with(fb), ctx());
            ensure!(fa.find(fb) == naive_find(&a, &b), "find", format!("find/{lc}"), "find = {:?} want {:?} for {}", fa.find(fb), naive_find(&a, &b), ctx());
            let cpl = a.iter().zip(b.iter()).take_while(|(x, y)| x == y).count();
            ensure!(fa.common_prefix_len(fb) == cpl, "prefix_suffix", format!("common_prefix_len/{lc}"), "common_prefix_len = {} want {cpl} for {}", fa.common_prefix_len(fb), ctx());
        }
    }
    // substring search of pieces of a (needle lengths 1, 4, 5 hit the single-byte, >=4 and general paths)
    let fa = FastStr::new(a_copies[3].bytes());
    if a.len() >= 5 {
        for (s, l) in [(0usize, 1usize), (a.len() - 1, 1), (0, 4), (a.len() - 4, 4), (a.len() / 2, 5.min(a.len() - a.len() / 2)), (a.len() - 5, 5)] {
            let needle = &a[s..s + l];
            ensure!(fa.find(FastStr::new(needle)) == naive_find(&a, needle), "find", format!("find_piece/{lc}"), "find(a[{s}..{}]) in {} = {:?} want {:?}", s + l, brief(&a), fa.find(FastStr::new(needle)), naive_find(&a, needle));
        }
        let mut absent = a[a.len() - 4..].to_vec();
        absent[3] ^= 0x55;
        ensure!(fa.find(FastStr::new(&absent)) == naive_find(&a, &absent), "find", format!("find_absent/{lc}"), "find of an altered suffix");
    }
    // unary operations once per first operand (when the second is empty / grid: when b is the short variant)
    let do_unary = match c {
        FsCase::Small(_, bh) => bh.is_empty(),
        FsCase::Grid { b_short, x, y, .. } => *b_short && x == y,
        FsCase::Find { .. } => false,
    };
    if do_unary {
        unary(&a, FastStr::new(a_copies[1].bytes()), lc)?;
        // from_raw_parts / From impls
        let ca = &a_copies[5];
        let fr = unsafe { FastStr::from_raw_parts(ca.bytes().as_ptr(), a.len()) };
        ensure!(fr.as_bytes() == &a[..] && FastStr::from(&a[..]) == fr, "slicing", format!("from_raw_parts/{lc}"), "from_raw_parts view differs");
        if let Ok(s) = std::str::from_utf8(&a) {
            ensure!(FastStr::from_string(s) == fr && FastStr::from(s) == fr && fr == s && fr == *s && fr == s.to_string(), "eq", format!("from_string/{lc}"), "from_string view differs");
        }
    }
    Ok(if a.is_empty() && b.is_empty() { Outcome::trivial("both-empty") } else { Outcome::pass(&format!("{lc}/{:?}", want_cmp)) })
}

pub fn register(reg: &mut Registry) {
    reg.add(fam(
        "FastStr",
        "all 341^2 ordered pairs of byte strings of length <=4 over {00,61,80,FF}, plus a grid: lengths {15,16,17,31,32,33,63,64,65} x 4 fills x differing position {0,7,8,n/2,n-2,n-1} x byte pairs {equal, 61/62, 7F/80, 00/FF, 00/01 and reversed} x {same length, b = a[..n-1]}; each operand copied to all 8 alignments (64 combinations per pair) for ==, cmp, hash_fast/Hash, starts_with, ends_with, find, common_prefix_len; per first operand: accessors, get_byte, find_byte(_optimized), split on 6 bytes, prefix/suffix/substring_from/substring over all (start,len) incl. usize::MAX. Coverage audit: the aligned copies are surrounded by padding bytes that differ from copy to copy (a read outside the view changes the hash / answer of some copy); a second length grid {5,7,8,9,23,24,25,39,40,41,47,48,49,95,96,97,127,128,129} (8-byte word tails after 16/32-byte blocks) x 4 fills x differing position {0,7,8,n/2,31,32,n-2,n-1} x 5 byte pairs x {same length, prefix}; a substring-search grid: haystack length {15,16,17,31,32,33,34,48,63,64,65,66,96,127,128,129,130} x needle length {1,2,3,4,5,8,15,16,17,31,32,33,63,64,65} x needle start {0,1,7,8,9,13..17,29..33,47,48,61..65,last-1,last} x haystack kind {distinct bytes, all 61 with one 62 so that every earlier window is a near miss, period 3} x {needle present, last needle byte altered}, haystack at 8 alignments x needle at 2",
        gen_fs,
        run_fs,
    ));
}
