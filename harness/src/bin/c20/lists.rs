//! Lexicographic iterators, SortableStrVec, ZoSortedStrVec, join.

use crate::{bad, ensure, fam, must, R};
use serde::{Deserialize, Serialize};
use std::io::Cursor;
use zipora::containers::{SortableStrVec, ZoSortedStrVec};
use zipora::string::utils::lex_utils;
use zipora::string::{
    join, join_bytes_iter, join_fast_str, join_iter, join_str, JoinBuilder, LexIteratorBuilder, LexicographicIterator, SortedVecLexIterator,
    StreamingLexIterator,
};
use zipora::FastStr;
use zverif::util::all_strings;
use zverif::{Fail, Outcome, Registry, Tier};

const WORDS: [&str; 4] = ["", "a", "ab", "b"];
const PROBES: [&str; 8] = ["", "a", "aa", "ab", "abc", "b", "ba", "c"];

#[derive(Serialize, Deserialize, Hash, Clone, Debug)]
pub struct ListCase {
    list: Vec<String>,
    /// variant selector (line-ending style for the streaming iterator, constructor for the vectors)
    v: u8,
}

fn all_lists(max: usize, sorted_only: bool, f: &mut dyn FnMut(Vec<String>) -> bool) -> bool {
    all_strings(&WORDS, max, &mut |l| {
        if sorted_only && !l.windows(2).all(|w| w[0] <= w[1]) {
            return true;
        }
        f(l.iter().map(|s| s.to_string()).collect())
    })
}

/// larger generated lists (duplicates, shared prefixes, empty strings) for the >=32 radix and >512 block-search paths
fn big_list(n: usize, shape: u8) -> Vec<String> {
    (0..n)
        .map(|i| {
            let k = match shape {
                0 => (i * 7919) % (n / 2 + 1),     // many duplicates
                1 => n - i,                        // descending
                _ => (i * 31 + i / 3) % (2 * n + 1),
            };
            if k % 11 == 0 {
                String::new()
            } else {
                // base-3 digits over {a,b,c}: shared prefixes, varying lengths
                let mut s = String::new();
                let mut x = k;
                while x > 0 {
                    s.push((b'a' + (x % 3) as u8) as char);
                    x /= 3;
                }
                s
            }
        })
        .collect()
}

fn dup_class(list: &[String], target: &str) -> &'static str {
    if list.iter().filter(|s| s.as_str() == target).count() >= 2 { "duplicates_of_target" } else { "no_duplicates_of_target" }
}

// ---------------------------------------------------------------------------------------------
// SortedVecLexIterator (+ LexIteratorBuilder, utils)

fn walk_forward<I: LexicographicIterator>(it: &mut I) -> Result<Vec<String>, Fail> {
    let mut out = Vec::new();
    let mut guard = 0;
    while let Some(s) = it.current() {
        out.push(s.to_string());
        let moved = it.next().map_err(|e| bad("enumeration", "next_err", e.to_string()))?;
        if !moved {
            ensure!(it.current().is_none() && it.is_at_end(), "enumeration", "next_false_not_at_end", "next() returned false but current() = {:?}", it.current());
            break;
        }
        guard += 1;
        ensure!(guard < 10_000, "enumeration", "no_end", "iterator does not terminate");
    }
    Ok(out)
}

fn run_sorted_vec(c: &ListCase) -> R {
    let l = &c.list;
    let mk = || if c.v == 0 { SortedVecLexIterator::new(l) } else { LexIteratorBuilder::new().optimize_for_memory(c.v == 2).buffer_size(16).build_sorted_vec(l) };
    let mut it = mk();
    ensure!(it.current() == l.first().map(|s| s.as_str()) && it.size_hint() == Some(l.len()) && it.is_at_start() == !l.is_empty() && it.is_at_end() == l.is_empty(), "enumeration", "initial", "fresh iterator: current {:?}", it.current());
    let fw = walk_forward(&mut it)?;
    ensure!(&fw == l, "enumeration", "forward", "forward walk yields {:?}, list is {:?}", fw, l);
    let all = must(lex_utils::collect_all(mk()), "enumeration", "collect_all_err")?;
    ensure!(&all == l, "enumeration", "collect_all", "collect_all yields {:?}, list is {:?}", all, l);
    // backward
    let mut it = mk();
    let has = must(it.seek_end(), "enumeration", "seek_end")?;
    ensure!(has == !l.is_empty() && it.current() == l.last().map(|s| s.as_str()), "enumeration", "seek_end", "seek_end: current {:?}", it.current());
    let mut bw = Vec::new();
    while let Some(s) = it.current() {
        bw.push(s.to_string());
        if !must(it.prev(), "enumeration", "prev")? {
            break;
        }
        ensure!(bw.len() <= l.len(), "enumeration", "backward_no_end", "prev() does not terminate");
    }
    bw.reverse();
    ensure!(&bw == l, "enumeration", "backward", "backward walk yields (reversed) {:?}, list is {:?}", bw, l);
    ensure!(must(it.seek_start(), "enumeration", "seek_start")? == !l.is_empty() && it.current() == l.first().map(|s| s.as_str()), "enumeration", "seek_start", "seek_start: current {:?}", it.current());
    // lower bound: "binary search for the first string >= target; true iff exact match"
    for t in PROBES {
        let mut it = mk();
        let exact = must(it.seek_lower_bound(t), "lower_bound", "err")?;
        let idx = l.iter().position(|s| s.as_str() >= t);
        ensure!(exact == l.iter().any(|s| s == t), "lower_bound", format!("exact_flag/{}", dup_class(l, t)), "seek_lower_bound({t:?}) on {:?} returned {exact}", l);
        let cur = it.current().map(|s| s.to_string());
        let rest = walk_forward(&mut it)?;
        ensure!(cur.as_deref() == idx.map(|i| l[i].as_str()) && rest[..] == l[idx.unwrap_or(l.len())..], "lower_bound", dup_class(l, t), "seek_lower_bound({t:?}) on {:?} positions at {:?} and then yields {:?}; the strings >= target are {:?}", l, cur, rest, &l[idx.unwrap_or(l.len())..]);
    }
    // upper bound: "first string > target"
    for t in PROBES {
        let mut it = mk();
        let r = must(it.seek_upper_bound(t), "upper_bound", "err")?;
        let idx = l.iter().position(|s| s.as_str() > t);
        let cur = it.current().map(|s| s.to_string());
        let rest = walk_forward(&mut it)?;
        ensure!(!r, "upper_bound", "flag", "seek_upper_bound returned true");
        ensure!(cur.as_deref() == idx.map(|i| l[i].as_str()) && rest[..] == l[idx.unwrap_or(l.len())..], "upper_bound", dup_class(l, t), "seek_upper_bound({t:?}) on {:?} positions at {:?} and then yields {:?}; the strings > target are {:?}", l, cur, rest, &l[idx.unwrap_or(l.len())..]);
    }
    for p in ["", "a", "ab", "b", "c"] {
        let n = must(lex_utils::count_with_prefix(mk(), p), "count_with_prefix", "err")?;
        let want = l.iter().filter(|s| s.starts_with(p)).count();
        ensure!(n == want, "count_with_prefix", dup_class(l, p), "count_with_prefix({p:?}) on {:?} = {n}, want {want}", l);
    }
    let lcp = must(lex_utils::find_common_prefix(mk()), "common_prefix", "err")?;
    let want = match l.first() {
        None => String::new(),
        Some(f) => {
            let mut k = f.len();
            for s in l {
                k = k.min(f.bytes().zip(s.bytes()).take_while(|(x, y)| x == y).count());
            }
            f[..k].to_string()
        }
    };
    ensure!(lcp == want, "common_prefix", "value", "find_common_prefix({:?}) = {lcp:?} want {want:?}", l);
    Ok(if l.is_empty() { Outcome::trivial("empty") } else { Outcome::pass(if l.windows(2).any(|w| w[0] == w[1]) { "with_duplicates" } else { "unique" }) })
}

// ---------------------------------------------------------------------------------------------
// StreamingLexIterator

fn run_streaming(c: &ListCase) -> R {
    let l = &c.list;
    // one string per line; v: 0 = "\n" after every line, 1 = no newline after the last line, 2 = "\r\n", 3 = via builder
    let mut text = String::new();
    for (i, s) in l.iter().enumerate() {
        text.push_str(s);
        let last = i + 1 == l.len();
        match c.v {
            1 if last => {}
            2 => text.push_str("\r\n"),
            _ => text.push('\n'),
        }
    }
    if c.v == 1 && l.last().map_or(false, |s| s.is_empty()) {
        return Ok(Outcome::skip("an empty last line without newline is not representable"));
    }
    let cur = Cursor::new(text.clone().into_bytes());
    let mut it = if c.v == 3 { LexIteratorBuilder::new().buffer_size(4).build_streaming(cur) } else { StreamingLexIterator::new(cur) };
    ensure!(it.current().is_none(), "enumeration", "streaming/initial", "current() before the first next() = {:?}", it.current());
    let class = if l.iter().any(|s| s.is_empty()) { "list_contains_empty_string" } else { "no_empty_string" };
    let mut got: Vec<String> = Vec::new();
    for _ in 0..=l.len() + 1 {
        if !it.next().map_err(|e| bad("enumeration", "streaming/next_err", e.to_string()))? {
            break;
        }
        match it.current() {
            Some(s) => got.push(s.to_string()),
            None => {
                return Err(bad("enumeration", format!("streaming/{class}"), format!("next() returned true for line {} of {:?} but current() is None (input {:?})", got.len() + 1, l, text)));
            }
        }
    }
    ensure!(&got == l, "enumeration", format!("streaming/{class}"), "streaming iterator over {:?} yields {:?}, want {:?}", text, got, l);
    ensure!(it.is_at_end() && it.current().is_none(), "enumeration", "streaming/end", "after exhaustion is_at_end() = {}", it.is_at_end());
    // backward movement and seeking are documented as unsupported
    ensure!(it.prev().is_err() && it.seek_start().is_err() && it.seek_end().is_err() && it.seek_lower_bound("a").is_err(), "enumeration", "streaming/unsupported_ops", "an unsupported operation returned Ok");
    Ok(if l.is_empty() { Outcome::trivial("empty") } else { Outcome::pass(class) })
}

// ---------------------------------------------------------------------------------------------
// SortableStrVec

fn check_search(v: &SortableStrVec, sorted: &[String], needle: &str) -> Result<(), Fail> {
    match v.binary_search(needle) {
        Ok(i) => ensure!(v.get_sorted(i) == Some(needle), "binary_search", "ok_index", "binary_search({needle:?}) = Ok({i}) but get_sorted({i}) = {:?}", v.get_sorted(i)),
        Err(i) => {
            ensure!(!sorted.iter().any(|s| s == needle), "binary_search", "missed", "binary_search({needle:?}) = Err({i}) but the string is present ({} strings)", sorted.len());
            let want = sorted.iter().filter(|s| s.as_str() < needle).count();
            ensure!(i == want, "binary_search", "insertion_point", "binary_search({needle:?}) = Err({i}), insertion point is {want}");
        }
    }
    Ok(())
}

fn run_sortable(c: &ListCase) -> R {
    let l = &c.list;
    let mut sorted = l.clone();
    sorted.sort();
    let mut v = if c.v % 2 == 0 {
        must(SortableStrVec::from_iter(l.iter()), "construct", "from_iter")?
    } else {
        let mut v = SortableStrVec::new();
        for (i, s) in l.iter().enumerate() {
            let id = if i % 2 == 0 { must(v.push(s.clone()), "construct", "push")? } else { must(v.push_str(s), "construct", "push_str")? };
            ensure!(id == i, "enumeration", "push_id", "push returned id {id} for element {i}");
        }
        v
    };
    let check_insertion = |v: &SortableStrVec, what: &str| -> Result<(), Fail> {
        ensure!(v.len() == l.len() && v.is_empty() == l.is_empty(), "enumeration", format!("len/{what}"), "len() = {} for {} strings", v.len(), l.len());
        let it: Vec<&str> = v.iter().collect();
        ensure!(it == l.iter().map(|s| s.as_str()).collect::<Vec<_>>(), "enumeration", format!("iter/{what}"), "iter() yields {:?} want {:?}", it, l);
        for i in 0..=l.len() {
            ensure!(v.get(i) == l.get(i).map(|s| s.as_str()) && v.get_by_id(i) == v.get(i), "enumeration", format!("get/{what}"), "get({i}) = {:?}", v.get(i));
        }
        Ok(())
    };
    check_insertion(&v, "unsorted")?;
    ensure!(v.iter_sorted().next().is_none() && v.get_sorted(0).is_none(), "enumeration", "sorted_view_before_sort", "an unsorted vector offers a sorted view");
    let check_sorted = |v: &SortableStrVec, want: &[String], what: &str| -> Result<(), Fail> {
        let got: Vec<&str> = v.iter_sorted().collect();
        ensure!(got == want.iter().map(|s| s.as_str()).collect::<Vec<_>>(), "sorted_enumeration", what.to_string(), "{what}: iter_sorted() yields {:?} ({} strings), want {:?} ({} strings)", &got[..got.len().min(12)], got.len(), &want[..want.len().min(12)], want.len());
        for i in [0usize, 1, want.len() / 2, want.len().saturating_sub(1), want.len()] {
            ensure!(v.get_sorted(i) == want.get(i).map(|s| s.as_str()), "sorted_enumeration", format!("{what}/get_sorted"), "get_sorted({i}) = {:?}", v.get_sorted(i));
        }
        Ok(())
    };
    // the sort entry points
    match c.v / 2 {
        0 => must(v.sort(), "sorted_enumeration", "sort_err")?,
        1 => must(v.radix_sort(), "sorted_enumeration", "radix_sort_err")?,
        _ => must(v.sort_lexicographic(), "sorted_enumeration", "sort_err")?,
    }
    let how = ["sort", "radix_sort", "sort_lexicographic"][(c.v / 2) as usize % 3];
    check_sorted(&v, &sorted, how)?;
    check_insertion(&v, "after_sort")?;
    for p in PROBES.iter().copied().chain(l.iter().map(|s| s.as_str()).take(8)) {
        check_search(&v, &sorted, p)?;
    }
    // by length: non-decreasing lengths, same multiset
    must(v.sort_by_length(), "sorted_enumeration", "sort_by_length_err")?;
    let got: Vec<String> = v.iter_sorted().map(|s| s.to_string()).collect();
    ensure!(got.windows(2).all(|w| w[0].len() <= w[1].len()), "sorted_enumeration", "sort_by_length/order", "sort_by_length yields {:?}", &got[..got.len().min(12)]);
    let mut ms = got.clone();
    ms.sort();
    ensure!(ms == sorted, "sorted_enumeration", "sort_by_length/multiset", "sort_by_length lost or repeated strings");
    // custom order: descending
    must(v.sort_by(|a, b| b.cmp(a)), "sorted_enumeration", "sort_by_err")?;
    let mut desc = sorted.clone();
    desc.reverse();
    check_sorted(&v, &desc, "sort_by(desc)")?;
    // pushing after a sort invalidates the sorted view; re-sorting includes the new string
    must(v.push_str("ab"), "construct", "push_str")?;
    ensure!(v.iter_sorted().next().is_none() || l.is_empty(), "sorted_enumeration", "stale_sorted_view", "after push the old sorted view is still served: {:?}", v.iter_sorted().collect::<Vec<_>>());
    must(v.sort(), "sorted_enumeration", "sort_err")?;
    let mut sorted2 = sorted.clone();
    sorted2.push("ab".to_string());
    sorted2.sort();
    check_sorted(&v, &sorted2, "sort_after_push")?;
    // grow again after a sort and re-sort through EVERY sort entry point (a sort that reuses the index list of the
    // previous sort must still cover the strings pushed since)
    for (k, extra) in ["", "b", "aa"].iter().enumerate() {
        must(v.push_str(extra), "construct", "push_str")?;
        sorted2.push(extra.to_string());
        sorted2.sort();
        let how2 = match k {
            0 => {
                must(v.radix_sort(), "sorted_enumeration", "radix_sort_err")?;
                "radix_sort_after_sort_and_push"
            }
            1 => {
                must(v.sort_lexicographic(), "sorted_enumeration", "sort_err")?;
                "sort_lexicographic_after_sort_and_push"
            }
            _ => {
                must(v.radix_sort(), "sorted_enumeration", "radix_sort_err")?;
                "radix_sort_after_radix_sort_and_push"
            }
        };
        check_sorted(&v, &sorted2, how2)?;
        for p in PROBES.iter().copied().take(4) {
            check_search(&v, &sorted2, p)?;
        }
    }
    // clone and clear
    let cl = v.clone();
    check_sorted(&cl, &sorted2, "clone")?;
    v.clear();
    ensure!(v.len() == 0 && v.iter().next().is_none() && v.iter_sorted().next().is_none(), "enumeration", "clear", "clear() leaves content");
    Ok(if l.is_empty() { Outcome::trivial("empty") } else { Outcome::pass(&format!("{how}/{}", if l.len() >= 32 { "n>=32" } else { "n<32" })) })
}

// ---------------------------------------------------------------------------------------------
// ZoSortedStrVec

fn run_zo(c: &ListCase) -> R {
    let l = &c.list;
    let mut sorted = l.clone();
    sorted.sort();
    let is_sorted = l.windows(2).all(|w| w[0] <= w[1]);
    // v: 0 = from_sorted_strings (input as given), 1 = from_strings, 2 = from_sortable_str_vec
    let (z, want, how): (ZoSortedStrVec, Vec<String>, &str) = match c.v {
        0 => match ZoSortedStrVec::from_sorted_strings(l.clone()) {
            Ok(z) => {
                ensure!(is_sorted, "construct", "unsorted_accepted", "from_sorted_strings accepted the unsorted list {:?}", l);
                (z, l.clone(), "from_sorted_strings")
            }
            Err(e) => {
                ensure!(!is_sorted, "construct", "sorted_rejected", "from_sorted_strings({:?}): {e}", l);
                return Ok(Outcome::pass("unsorted_rejected"));
            }
        },
        1 => {
            // documented in the source ("Remove duplicates while preserving order"): sorted and de-duplicated
            let mut d = sorted.clone();
            d.dedup();
            (must(ZoSortedStrVec::from_strings(l.clone()), "construct", "from_strings")?, d, "from_strings")
        }
        _ => {
            let sv = must(SortableStrVec::from_iter(l.iter()), "construct", "from_iter")?;
            (must(ZoSortedStrVec::from_sortable_str_vec(sv), "construct", "from_sortable_str_vec")?, sorted.clone(), "from_sortable_str_vec")
        }
    };
    ensure!(z.len() == want.len() && z.is_empty() == want.is_empty(), "sorted_enumeration", format!("{how}/len"), "len() = {} want {}", z.len(), want.len());
    let got: Vec<&str> = z.iter().collect();
    ensure!(got == want.iter().map(|s| s.as_str()).collect::<Vec<_>>(), "sorted_enumeration", how.to_string(), "{how}({:?}): iter() yields {:?} want {:?}", &l[..l.len().min(12)], &got[..got.len().min(12)], &want[..want.len().min(12)]);
    ensure!(z.iter().len() == want.len(), "sorted_enumeration", format!("{how}/size_hint"), "ExactSizeIterator len {}", z.iter().len());
    for i in 0..=want.len().min(40) {
        ensure!(z.get(i) == want.get(i).map(|s| s.as_str()), "sorted_enumeration", format!("{how}/get"), "get({i}) = {:?}", z.get(i));
    }
    ensure!(z.get(want.len()).is_none(), "sorted_enumeration", format!("{how}/get"), "get(len) is Some");
    for p in PROBES.iter().copied().chain(l.iter().map(|s| s.as_str()).take(8)) {
        match z.binary_search(p) {
            Ok(i) => ensure!(z.get(i) == Some(p), "binary_search", "ok_index", "binary_search({p:?}) = Ok({i}) but get = {:?}", z.get(i)),
            Err(i) => {
                let ip = want.iter().filter(|s| s.as_str() < p).count();
                ensure!(!want.iter().any(|s| s == p) && i == ip, "binary_search", "insertion_point", "binary_search({p:?}) = Err({i}) on {:?}", &want[..want.len().min(12)]);
            }
        }
        ensure!(z.contains(p) == want.iter().any(|s| s == p), "binary_search", "contains", "contains({p:?}) = {}", z.contains(p));
    }
    // range(start, end): "start inclusive, end exclusive"
    for s in PROBES {
        for e in PROBES {
            if s > e {
                continue;
            }
            let got: Vec<&str> = z.range(s, e).collect();
            let exp: Vec<&str> = want.iter().map(|x| x.as_str()).filter(|x| *x >= s && *x < e).collect();
            let class = if want.iter().filter(|x| x.as_str() == s).count() >= 2 || want.iter().filter(|x| x.as_str() == e).count() >= 2 { "duplicates_of_a_bound" } else { "no_duplicates_of_a_bound" };
            ensure!(got == exp, "range", class, "range({s:?}, {e:?}) over {:?} yields {:?}, want {:?}", &want[..want.len().min(12)], got, exp);
        }
    }
    let cl = z.clone();
    ensure!(cl.iter().collect::<Vec<_>>() == got, "sorted_enumeration", format!("{how}/clone"), "clone differs");
    Ok(if want.is_empty() { Outcome::trivial("empty") } else { Outcome::pass(&format!("{how}/{}", if want.windows(2).any(|w| w[0] == w[1]) { "with_duplicates" } else { "unique" })) })
}

// ---------------------------------------------------------------------------------------------
// join

#[derive(Serialize, Deserialize, Hash, Clone, Debug)]
pub struct JoinCase {
    parts: Vec<usize>,
    sep: usize,
}
static JOIN_PARTS: [&str; 5] = ["", "a", "ab", "é", ","];
static JOIN_PARTS_B: [&[u8]; 5] = [b"", b"a", b"ab", "é".as_bytes(), b","];
const SEPS: [&str; 4] = ["", ",", "ab", "é"];

fn run_join(c: &JoinCase) -> R {
    let parts: Vec<&str> = c.parts.iter().map(|&i| JOIN_PARTS[i]).collect();
    let bparts: Vec<&'static [u8]> = c.parts.iter().map(|&i| JOIN_PARTS_B[i]).collect();
    let sep = SEPS[c.sep];
    let want = parts.join(sep);
    let class = format!("n{}/sep{}", parts.len(), sep.len());
    let g = join(sep.as_bytes(), &bparts.iter().map(|b| &b[..]).collect::<Vec<&[u8]>>());
    ensure!(g == want.as_bytes(), "join", format!("join/{class}"), "join({sep:?}, {:?}) = {:?} want {want:?}", parts, String::from_utf8_lossy(&g));
    let g = join_str(sep, &parts);
    ensure!(g == want, "join", format!("join_str/{class}"), "join_str({sep:?}, {:?}) = {g:?} want {want:?}", parts);
    let fs: Vec<FastStr> = parts.iter().map(|p| FastStr::from_string(p)).collect();
    let g = join_fast_str(sep, &fs);
    ensure!(g == want, "join", format!("join_fast_str/{class}"), "join_fast_str({sep:?}, {:?}) = {g:?} want {want:?}", parts);
    let g = join_iter(sep, parts.iter());
    ensure!(g == want, "join", format!("join_iter/{class}"), "join_iter = {g:?} want {want:?}");
    let g = join_iter(sep, parts.iter().map(|s| s.to_string()));
    ensure!(g == want, "join", format!("join_iter/{class}"), "join_iter over Strings = {g:?} want {want:?}");
    let g = join_bytes_iter(sep.as_bytes(), bparts.iter().copied());
    ensure!(g == want.as_bytes(), "join", format!("join_bytes_iter/{class}"), "join_bytes_iter = {:?} want {want:?}", String::from_utf8_lossy(&g));
    for with_cap in [false, true] {
        let mut b = if with_cap { JoinBuilder::with_capacity(sep, 1) } else { JoinBuilder::new(sep) };
        ensure!(b.is_empty() && b.len() == 0, "join", "builder/empty", "fresh builder not empty");
        for p in &parts {
            b.push(p);
        }
        ensure!(b.len() == parts.len() && b.is_empty() == parts.is_empty(), "join", "builder/len", "len() = {}", b.len());
        let g = b.build();
        ensure!(g == want && b.build() == want, "join", format!("JoinBuilder/{class}"), "JoinBuilder.build() = {g:?} want {want:?}");
        ensure!(b.finish() == want, "join", format!("JoinBuilder/{class}"), "finish() differs");
    }
    Ok(if parts.is_empty() { Outcome::trivial("empty") } else { Outcome::pass(&class) })
}

pub fn register(reg: &mut Registry) {
    reg.add(fam(
        "SortedVecLexIterator",
        "all sorted lists (duplicates allowed) of length <=5 (thorough <=7) over {\"\",\"a\",\"ab\",\"b\"} x {direct constructor, LexIteratorBuilder (2 settings)}: forward walk, collect_all, backward walk, seek_start/end, seek_lower_bound/seek_upper_bound for 8 probe targets (then walking to the end), count_with_prefix for 5 prefixes, find_common_prefix",
        |tier, f: &mut dyn FnMut(ListCase) -> bool| {
            all_lists(tier.pick(5, 7), true, &mut |l| (0..3u8).all(|v| f(ListCase { list: l.clone(), v })));
        },
        run_sorted_vec,
    ));
    reg.add(fam(
        "StreamingLexIterator",
        "all sorted lists of length <=5 (thorough <=7) over {\"\",\"a\",\"ab\",\"b\"} written one per line x {LF after every line, no LF after the last, CRLF, via LexIteratorBuilder}: next()/current() protocol yields every line once, in order",
        |tier, f: &mut dyn FnMut(ListCase) -> bool| {
            all_lists(tier.pick(5, 7), true, &mut |l| (0..4u8).all(|v| f(ListCase { list: l.clone(), v })));
        },
        run_streaming,
    ));
    reg.add(fam(
        "SortableStrVec",
        "all lists (any order, duplicates) of length <=4 (thorough <=5) over {\"\",\"a\",\"ab\",\"b\"} + generated lists of n in {31,32,33,100,513,1000} strings x 3 shapes (many duplicates, descending, mixed; empty strings, shared prefixes) x {from_iter, push/push_str} x {sort, radix_sort, sort_lexicographic}: insertion-order access, iter_sorted/get_sorted, binary_search, sort_by_length, sort_by(desc), push after sort followed by a re-sort through sort / radix_sort / sort_lexicographic (three rounds), clone, clear",
        |tier, f: &mut dyn FnMut(ListCase) -> bool| {
            if !all_lists(tier.pick(4, 5), false, &mut |l| (0..6u8).all(|v| f(ListCase { list: l.clone(), v }))) {
                return;
            }
            for n in [31usize, 32, 33, 100, 513, 1000] {
                for shape in 0..3u8 {
                    for v in 0..6u8 {
                        if !f(ListCase { list: big_list(n, shape), v }) {
                            return;
                        }
                    }
                }
            }
        },
        run_sortable,
    ));
    reg.add(fam(
        "ZoSortedStrVec",
        "all lists (any order, duplicates) of length <=4 (thorough <=5) over {\"\",\"a\",\"ab\",\"b\"} + generated lists of n in {33,300} x 3 shapes x {from_sorted_strings (unsorted input must be rejected), from_strings (sorted + de-duplicated, as its source documents), from_sortable_str_vec}: iter, get, len, binary_search, contains, range(start,end) over all ordered pairs of 8 probe strings",
        |tier, f: &mut dyn FnMut(ListCase) -> bool| {
            if !all_lists(tier.pick(4, 5), false, &mut |l| (0..3u8).all(|v| f(ListCase { list: l.clone(), v }))) {
                return;
            }
            for n in [33usize, 300] {
                for shape in 0..3u8 {
                    for v in 0..3u8 {
                        let mut l = big_list(n, shape);
                        if v == 0 {
                            l.sort();
                        }
                        if !f(ListCase { list: l, v }) {
                            return;
                        }
                    }
                }
            }
        },
        run_zo,
    ));
    reg.add(fam(
        "join",
        "all lists of <=3 (thorough <=4) parts over {\"\",\"a\",\"ab\",\"é\",\",\"} x separators {\"\",\",\",\"ab\",\"é\"}: join, join_str, join_fast_str, join_iter (&str and String items), join_bytes_iter, JoinBuilder (new / with_capacity; build twice, finish) against slice::join",
        |tier, f: &mut dyn FnMut(JoinCase) -> bool| {
            all_strings(&[0usize, 1, 2, 3, 4], tier.pick(3, 4), &mut |p| (0..SEPS.len()).all(|sep| f(JoinCase { parts: p.to_vec(), sep })));
        },
        run_join,
    ));
}
