//! Lexicographic iterators, SortableStrVec, ZoSortedStrVec, join.

use crate::{bad, ensure, fam, must, R};
use serde::{Deserialize, Serialize};
use std::io::Cursor;
use zipora::containers::{SortableStrVec, ZoSortedStrVec};
use zipora::string::utils::lex_utils;
use zipora::string::{
    join, join_bytes_iter, join_fast_str, join_iter, join_str, JoinBuilder, LexIteratorBuilder, LexicographicIterator, SortedVecLexIterator,
    StreamingLexIterator,
};
use zipora::FastStr;
use zverif::util::all_strings;
use zverif::{Fail, Outcome, Registry, Tier};

const WORDS: [&str; 4] = ["", "a", "ab", "b"];
const PROBES: [&str; 8] = ["", "a", "aa", "ab", "abc", "b", "ba", "c"];

#[derive(Serialize, Deserialize, Hash, Clone, Debug)]
pub struct ListCase {
    list: Vec<String>,
    /// variant selector (line-ending style for the streaming iterator, constructor for the vectors)
    v: u8,
}

fn all_lists(max: usize, sorted_only: bool, f: &mut dyn FnMut(Vec<String>) -> bool) -> bool {
    all_strings(&WORDS, max, &mut |l| {
        if sorted_only && !l.windows(2).all(|w| w[0] <= w[1]) {
            return true;
        }
        f(l.iter().map(|s| s.to_string()).collect())
    })
}

/// larger generated lists (duplicates, shared prefixes, empty strings) for the >=32 radix and >512 block-search paths
fn big_list(n: usize, shape: u8) -> Vec<String> {
    if shape >= 3 {
        return big_list_audit(n, shape);
    }
    (0..n)
        .map(|i| {
            let k = match shape {
                0 => (i * 7919) % (n / 2 + 1),     // many duplicates
                1 => n - i,                        // descending
                _ => (i * 31 + i / 3) % (2 * n + 1),
            };
            if k % 11 == 0 {
                String::new()
            } else {
                // base-3 digits over {a,b,c}: shared prefixes, varying lengths
                let mut s = String::new();
                let mut x = k;
                while x > 0 {
                    s.push((b'a' + (x % 3) as u8) as char);
                    x /= 3;
                }
                s
            }
        })
        .collect()
}

/// (coverage audit) shapes 3..=5:
/// 3 = every string starts with the same 8 or 16 bytes (the MSD radix recursion has to go deeper than one machine word, a
///     word-wise comparison has to get past equal words) and continues with base-3 digits or a character >= U+0080;
/// 4 = few distinct values, each repeated >= 32 times (a radix bucket of equal strings that is itself above the
///     insertion-sort cut-off), among them the empty string, a prefix pair and multi-byte characters;
/// 5 = lengths 0..=700 (longer than a 256-bit rank/select line of ZoSortedStrVec, longer than any SIMD block)
fn big_list_audit(n: usize, shape: u8) -> Vec<String> {
    (0..n)
        .map(|i| {
            let k = (i * 7919 + i / 5) % (n + 3);
            match shape {
                3 => {
                    let mut s = String::from(if k % 2 == 0 { "abcdefgh" } else { "abcdefghabcdefgh" });
                    let mut x = k / 2;
                    while x > 0 {
                        match x % 4 {
                            0 => s.push('a'),
                            1 => s.push('b'),
                            2 => s.push('\u{7f}'),
                            _ => s.push('\u{e9}'),
                        }
                        x /= 4;
                    }
                    s
                }
                4 => ["", "ab", "abcdefgh", "abcdefgha", "\u{e9}", "abcdefgh\u{e9}", "b"][k % 7].to_string(),
                _ => {
                    let len = (k * 37) % 701;
                    let c = (b'a' + (k % 3) as u8) as char;
                    let mut s: String = std::iter::repeat(c).take(len).collect();
                    if k % 4 == 0 && len > 0 {
                        s.push('\u{10FFFF}');
                    }
                    s
                }
            }
        })
        .collect()
}

fn dup_class(list: &[String], target: &str) -> &'static str {
    if list.iter().filter(|s| s.as_str() == target).count() >= 2 { "duplicates_of_target" } else { "no_duplicates_of_target" }
}

// ---------------------------------------------------------------------------------------------
// SortedVecLexIterator (+ LexIteratorBuilder, utils)

fn walk_forward<I: LexicographicIterator>(it: &mut I) -> Result<Vec<String>, Fail> {
    let mut out = Vec::new();
    let mut guard = 0;
    while let Some(s) = it.current() {
        out.push(s.to_string());
        let moved = it.next().map_err(|e| bad("enumeration", "next_err", e.to_string()))?;
        if !moved {
            ensure!(it.current().is_none() && it.is_at_end(), "enumeration", "next_false_not_at_end", "next() returned false but current() = {:?}", it.current());
            break;
        }
        guard += 1;
        ensure!(guard < 10_000, "enumeration", "no_end", "iterator does not terminate");
    }
    Ok(out)
}

fn run_sorted_vec(c: &ListCase) -> R {
    let l = &c.list;
    let mk = || if c.v == 0 || c.v == 3 { SortedVecLexIterator::new(l) } else { LexIteratorBuilder::new().optimize_for_memory(c.v == 2).buffer_size(16).build_sorted_vec(l) };
    let mut it = mk();
    ensure!(it.current() == l.first().map(|s| s.as_str()) && it.size_hint() == Some(l.len()) && it.is_at_start() == !l.is_empty() && it.is_at_end() == l.is_empty(), "enumeration", "initial", "fresh iterator: current {:?}", it.current());
    let fw = walk_forward(&mut it)?;
    ensure!(&fw == l, "enumeration", "forward", "forward walk yields {:?}, list is {:?}", fw, l);
    let all = must(lex_utils::collect_all(mk()), "enumeration", "collect_all_err")?;
    ensure!(&all == l, "enumeration", "collect_all", "collect_all yields {:?}, list is {:?}", all, l);
    // backward
    let mut it = mk();
    let has = must(it.seek_end(), "enumeration", "seek_end")?;
    ensure!(has == !l.is_empty() && it.current() == l.last().map(|s| s.as_str()), "enumeration", "seek_end", "seek_end: current {:?}", it.current());
    let mut bw = Vec::new();
    while let Some(s) = it.current() {
        bw.push(s.to_string());
        if !must(it.prev(), "enumeration", "prev")? {
            break;
        }
        ensure!(bw.len() <= l.len(), "enumeration", "backward_no_end", "prev() does not terminate");
    }
    bw.reverse();
    ensure!(&bw == l, "enumeration", "backward", "backward walk yields (reversed) {:?}, list is {:?}", bw, l);
    ensure!(must(it.seek_start(), "enumeration", "seek_start")? == !l.is_empty() && it.current() == l.first().map(|s| s.as_str()), "enumeration", "seek_start", "seek_start: current {:?}", it.current());
    // lower bound: "binary search for the first string >= target; true iff exact match"
    let mut probes: Vec<String> = PROBES.iter().map(|s| s.to_string()).collect();
    if c.v >= 3 {
        for s in l.iter() {
            probes.push(s.clone());
            probes.push(format!("{s}\u{1}"));
        }
        probes.extend(UNI_WORDS.iter().map(|s| s.to_string()));
        probes.sort();
        probes.dedup();
    }
    for t in probes.iter().map(|s| s.as_str()) {
        let mut it = mk();
        let exact = must(it.seek_lower_bound(t), "lower_bound", "err")?;
        let idx = l.iter().position(|s| s.as_str() >= t);
        ensure!(exact == l.iter().any(|s| s == t), "lower_bound", format!("exact_flag/{}", dup_class(l, t)), "seek_lower_bound({t:?}) on {:?} returned {exact}", l);
        let cur = it.current().map(|s| s.to_string());
        let rest = walk_forward(&mut it)?;
        ensure!(cur.as_deref() == idx.map(|i| l[i].as_str()) && rest[..] == l[idx.unwrap_or(l.len())..], "lower_bound", dup_class(l, t), "seek_lower_bound({t:?}) on {:?} positions at {:?} and then yields {:?}; the strings >= target are {:?}", l, cur, rest, &l[idx.unwrap_or(l.len())..]);
    }
    // upper bound: "first string > target"
    for t in probes.iter().map(|s| s.as_str()) {
        let mut it = mk();
        let r = must(it.seek_upper_bound(t), "upper_bound", "err")?;
        let idx = l.iter().position(|s| s.as_str() > t);
        let cur = it.current().map(|s| s.to_string());
        let rest = walk_forward(&mut it)?;
        ensure!(!r, "upper_bound", "flag", "seek_upper_bound returned true");
        ensure!(cur.as_deref() == idx.map(|i| l[i].as_str()) && rest[..] == l[idx.unwrap_or(l.len())..], "upper_bound", dup_class(l, t), "seek_upper_bound({t:?}) on {:?} positions at {:?} and then yields {:?}; the strings > target are {:?}", l, cur, rest, &l[idx.unwrap_or(l.len())..]);
    }
    for p in ["", "a", "ab", "b", "c", "a\u{e9}", "\u{e9}", "\u{20ac}"] {
        let n = must(lex_utils::count_with_prefix(mk(), p), "count_with_prefix", "err")?;
        let want = l.iter().filter(|s| s.starts_with(p)).count();
        ensure!(n == want, "count_with_prefix", dup_class(l, p), "count_with_prefix({p:?}) on {:?} = {n}, want {want}", l);
    }
    let lcp = must(lex_utils::find_common_prefix(mk()), "common_prefix", "err")?;
    // (audit: the common prefix in whole characters - identical to the byte-wise one for ASCII)
    let want = match l.first() {
        None => String::new(),
        Some(f) => {
            let mut k = f.chars().count();
            for s in l {
                k = k.min(f.chars().zip(s.chars()).take_while(|(x, y)| x == y).count());
            }
            f.chars().take(k).collect()
        }
    };
    ensure!(lcp == want, "common_prefix", "value", "find_common_prefix({:?}) = {lcp:?} want {want:?}", l);
    // (audit) the helpers position the iterator themselves: hand them one that stands somewhere else
    for moved in 0..3u8 {
        let mk_moved = || -> Result<SortedVecLexIterator, Fail> {
            let mut it = mk();
            match moved {
                0 => {
                    must(it.seek_end(), "enumeration", "seek_end")?;
                }
                1 => {
                    while must(it.next(), "enumeration", "next")? {}
                }
                _ => {
                    must(it.seek_upper_bound("a"), "upper_bound", "err")?;
                }
            }
            Ok(it)
        };
        let all = must(lex_utils::collect_all(mk_moved()?), "enumeration", "collect_all_err")?;
        ensure!(&all == l, "enumeration", "collect_all/moved_iterator", "collect_all on an iterator that is not at the start yields {:?}, list is {:?}", all, l);
        let lcp = must(lex_utils::find_common_prefix(mk_moved()?), "common_prefix", "err")?;
        ensure!(lcp == want, "common_prefix", "moved_iterator", "find_common_prefix on an iterator that is not at the start = {lcp:?} want {want:?} for {:?}", l);
        for p in ["", "a", "b"] {
            let n = must(lex_utils::count_with_prefix(mk_moved()?, p), "count_with_prefix", "err")?;
            ensure!(n == l.iter().filter(|s| s.starts_with(p)).count(), "count_with_prefix", "moved_iterator", "count_with_prefix({p:?}) on an iterator that is not at the start = {n} for {:?}", l);
        }
    }
    Ok(if l.is_empty() { Outcome::trivial("empty") } else { Outcome::pass(if l.windows(2).any(|w| w[0] == w[1]) { "with_duplicates" } else { "unique" }) })
}

// ---------------------------------------------------------------------------------------------
// StreamingLexIterator

fn run_streaming(c: &ListCase) -> R {
    let l = &c.list;
    // one string per line; v: 0 = "\n" after every line, 1 = no newline after the last line, 2 = "\r\n", 3 = via builder
    let mut text = String::new();
    for (i, s) in l.iter().enumerate() {
        text.push_str(s);
        let last = i + 1 == l.len();
        match c.v {
            1 if last => {}
            2 => text.push_str("\r\n"),
            _ => text.push('\n'),
        }
    }
    if c.v == 1 && l.last().map_or(false, |s| s.is_empty()) {
        return Ok(Outcome::skip("an empty last line without newline is not representable"));
    }
    let cur = Cursor::new(text.clone().into_bytes());
    let mut it = if c.v == 3 { LexIteratorBuilder::new().buffer_size(4).build_streaming(cur) } else { StreamingLexIterator::new(cur) };
    ensure!(it.current().is_none(), "enumeration", "streaming/initial", "current() before the first next() = {:?}", it.current());
    let class = if l.iter().any(|s| s.is_empty()) { "list_contains_empty_string" } else { "no_empty_string" };
    let mut got: Vec<String> = Vec::new();
    for _ in 0..=l.len() + 1 {
        if !it.next().map_err(|e| bad("enumeration", "streaming/next_err", e.to_string()))? {
            break;
        }
        match it.current() {
            Some(s) => got.push(s.to_string()),
            None => {
                return Err(bad("enumeration", format!("streaming/{class}"), format!("next() returned true for line {} of {:?} but current() is None (input {:?})", got.len() + 1, l, text)));
            }
        }
    }
    ensure!(&got == l, "enumeration", format!("streaming/{class}"), "streaming iterator over {:?} yields {:?}, want {:?}", text, got, l);
    ensure!(it.is_at_end() && it.current().is_none(), "enumeration", "streaming/end", "after exhaustion is_at_end() = {}", it.is_at_end());
    // backward movement and seeking are documented as unsupported
    ensure!(it.prev().is_err() && it.seek_start().is_err() && it.seek_end().is_err() && it.seek_lower_bound("a").is_err(), "enumeration", "streaming/unsupported_ops", "an unsupported operation returned Ok");
    Ok(if l.is_empty() { Outcome::trivial("empty") } else { Outcome::pass(class) })
}

// ---------------------------------------------------------------------------------------------
// SortableStrVec

fn check_search(v: &SortableStrVec, sorted: &[String], needle: &str) -> Result<(), Fail> {
    match v.binary_search(needle) {
        Ok(i) => ensure!(v.get_sorted(i) == Some(needle), "binary_search", "ok_index", "binary_search({needle:?}) = Ok({i}) but get_sorted({i}) = {:?}", v.get_sorted(i)),
        Err(i) => {
            ensure!(!sorted.iter().any(|s| s == needle), "binary_search", "missed", "binary_search({needle:?}) = Err({i}) but the string is present ({} strings)", sorted.len());
            let want = sorted.iter().filter(|s| s.as_str() < needle).count();
            ensure!(i == want, "binary_search", "insertion_point", "binary_search({needle:?}) = Err({i}), insertion point is {want}");
        }
    }
    Ok(())
}

fn run_sortable(c: &ListCase) -> R {
    let l = &c.list;
    let mut sorted = l.clone();
    sorted.sort();
    let mut v = if c.v % 2 == 0 {
        must(SortableStrVec::from_iter(l.iter()), "construct", "from_iter")?
    } else {
        let mut v = SortableStrVec::new();
        for (i, s) in l.iter().enumerate() {
            let id = if i % 2 == 0 { must(v.push(s.clone()), "construct", "push")? } else { must(v.push_str(s), "construct", "push_str")? };
            ensure!(id == i, "enumeration", "push_id", "push returned id {id} for element {i}");
        }
        v
    };
    let check_insertion = |v: &SortableStrVec, what: &str| -> Result<(), Fail> {
        ensure!(v.len() == l.len() && v.is_empty() == l.is_empty(), "enumeration", format!("len/{what}"), "len() = {} for {} strings", v.len(), l.len());
        let it: Vec<&str> = v.iter().collect();
        ensure!(it == l.iter().map(|s| s.as_str()).collect::<Vec<_>>(), "enumeration", format!("iter/{what}"), "iter() yields {:?} want {:?}", it, l);
        for i in 0..=l.len() {
            ensure!(v.get(i) == l.get(i).map(|s| s.as_str()) && v.get_by_id(i) == v.get(i), "enumeration", format!("get/{what}"), "get({i}) = {:?}", v.get(i));
        }
        Ok(())
    };
    check_insertion(&v, "unsorted")?;
    ensure!(v.iter_sorted().next().is_none() && v.get_sorted(0).is_none(), "enumeration", "sorted_view_before_sort", "an unsorted vector offers a sorted view");
    let check_sorted = |v: &SortableStrVec, want: &[String], what: &str| -> Result<(), Fail> {
        let got: Vec<&str> = v.iter_sorted().collect();
        ensure!(got == want.iter().map(|s| s.as_str()).collect::<Vec<_>>(), "sorted_enumeration", what.to_string(), "{what}: iter_sorted() yields {:?} ({} strings), want {:?} ({} strings)", &got[..got.len().min(12)], got.len(), &want[..want.len().min(12)], want.len());
        for i in [0usize, 1, want.len() / 2, want.len().saturating_sub(1), want.len()] {
            ensure!(v.get_sorted(i) == want.get(i).map(|s| s.as_str()), "sorted_enumeration", format!("{what}/get_sorted"), "get_sorted({i}) = {:?}", v.get_sorted(i));
        }
        Ok(())
    };
    // the sort entry points
    match c.v / 2 {
        0 => must(v.sort(), "sorted_enumeration", "sort_err")?,
        1 => must(v.radix_sort(), "sorted_enumeration", "radix_sort_err")?,
        _ => must(v.sort_lexicographic(), "sorted_enumeration", "sort_err")?,
    }
    let how = ["sort", "radix_sort", "sort_lexicographic"][(c.v / 2) as usize % 3];
    check_sorted(&v, &sorted, how)?;
    check_insertion(&v, "after_sort")?;
    for p in PROBES.iter().copied().chain(l.iter().map(|s| s.as_str()).take(8)) {
        check_search(&v, &sorted, p)?;
    }
    // (audit) every element and a value just above every element: hits each block boundary of the block search (n > 512),
    // the last element of a block, the first of the next one, and every insertion point
    if l.len() >= 31 || l.iter().any(|s| s.len() >= 7) {
        let mut distinct = sorted.clone();
        distinct.dedup();
        for s in &distinct {
            check_search(&v, &sorted, s)?;
            check_search(&v, &sorted, &format!("{s}\u{1}"))?;
        }
        for i in 0..=sorted.len() {
            ensure!(v.get_sorted(i) == sorted.get(i).map(|s| s.as_str()), "sorted_enumeration", format!("{how}/get_sorted"), "get_sorted({i}) = {:?}", v.get_sorted(i));
        }
    }
    // by length: non-decreasing lengths, same multiset
    must(v.sort_by_length(), "sorted_enumeration", "sort_by_length_err")?;
    let got: Vec<String> = v.iter_sorted().map(|s| s.to_string()).collect();
    ensure!(got.windows(2).all(|w| w[0].len() <= w[1].len()), "sorted_enumeration", "sort_by_length/order", "sort_by_length yields {:?}", &got[..got.len().min(12)]);
    let mut ms = got.clone();
    ms.sort();
    ensure!(ms == sorted, "sorted_enumeration", "sort_by_length/multiset", "sort_by_length lost or repeated strings");
    // custom order: descending
    must(v.sort_by(|a, b| b.cmp(a)), "sorted_enumeration", "sort_by_err")?;
    let mut desc = sorted.clone();
    desc.reverse();
    check_sorted(&v, &desc, "sort_by(desc)")?;
    // pushing after a sort invalidates the sorted view; re-sorting includes the new string
    must(v.push_str("ab"), "construct", "push_str")?;
    ensure!(v.iter_sorted().next().is_none() || l.is_empty(), "sorted_enumeration", "stale_sorted_view", "after push the old sorted view is still served: {:?}", v.iter_sorted().collect::<Vec<_>>());
    must(v.sort(), "sorted_enumeration", "sort_err")?;
    let mut sorted2 = sorted.clone();
    sorted2.push("ab".to_string());
    sorted2.sort();
    check_sorted(&v, &sorted2, "sort_after_push")?;
    // grow again after a sort and re-sort through EVERY sort entry point (a sort that reuses the index list of the
    // previous sort must still cover the strings pushed since)
    for (k, extra) in ["", "b", "aa"].iter().enumerate() {
        must(v.push_str(extra), "construct", "push_str")?;
        sorted2.push(extra.to_string());
        sorted2.sort();
        let how2 = match k {
            0 => {
                must(v.radix_sort(), "sorted_enumeration", "radix_sort_err")?;
                "radix_sort_after_sort_and_push"
            }
            1 => {
                must(v.sort_lexicographic(), "sorted_enumeration", "sort_err")?;
                "sort_lexicographic_after_sort_and_push"
            }
            _ => {
                must(v.radix_sort(), "sorted_enumeration", "radix_sort_err")?;
                "radix_sort_after_radix_sort_and_push"
            }
        };
        check_sorted(&v, &sorted2, how2)?;
        for p in PROBES.iter().copied().take(4) {
            check_search(&v, &sorted2, p)?;
        }
    }
    // clone and clear
    let cl = v.clone();
    check_sorted(&cl, &sorted2, "clone")?;
    v.clear();
    ensure!(v.len() == 0 && v.iter().next().is_none() && v.iter_sorted().next().is_none(), "enumeration", "clear", "clear() leaves content");
    Ok(if l.is_empty() { Outcome::trivial("empty") } else { Outcome::pass(&format!("{how}/{}", if l.len() >= 32 { "n>=32" } else { "n<32" })) })
}

// ---------------------------------------------------------------------------------------------
// ZoSortedStrVec

fn run_zo(c: &ListCase) -> R {
    let l = &c.list;
    let mut sorted = l.clone();
    sorted.sort();
    let is_sorted = l.windows(2).all(|w| w[0] <= w[1]);
    // v: 0 = from_sorted_strings (input as given), 1 = from_strings, 2 = from_sortable_str_vec
    let (z, want, how): (ZoSortedStrVec, Vec<String>, &str) = match c.v {
        0 => match ZoSortedStrVec::from_sorted_strings(l.clone()) {
            Ok(z) => {
                ensure!(is_sorted, "construct", "unsorted_accepted", "from_sorted_strings accepted the unsorted list {:?}", l);
                (z, l.clone(), "from_sorted_strings")
            }
            Err(e) => {
                ensure!(!is_sorted, "construct", "sorted_rejected", "from_sorted_strings({:?}): {e}", l);
                return Ok(Outcome::pass("unsorted_rejected"));
            }
        },
        1 => {
            // documented in the source ("Remove duplicates while preserving order"): sorted and de-duplicated
            let mut d = sorted.clone();
            d.dedup();
            (must(ZoSortedStrVec::from_strings(l.clone()), "construct", "from_strings")?, d, "from_strings")
        }
        _ => {
            let sv = must(SortableStrVec::from_iter(l.iter()), "construct", "from_iter")?;
            (must(ZoSortedStrVec::from_sortable_str_vec(sv), "construct", "from_sortable_str_vec")?, sorted.clone(), "from_sortable_str_vec")
        }
    };
    ensure!(z.len() == want.len() && z.is_empty() == want.is_empty(), "sorted_enumeration", format!("{how}/len"), "len() = {} want {}", z.len(), want.len());
    let got: Vec<&str> = z.iter().collect();
    ensure!(got == want.iter().map(|s| s.as_str()).collect::<Vec<_>>(), "sorted_enumeration", how.to_string(), "{how}({:?}): iter() yields {:?} want {:?}", &l[..l.len().min(12)], &got[..got.len().min(12)], &want[..want.len().min(12)]);
    ensure!(z.iter().len() == want.len(), "sorted_enumeration", format!("{how}/size_hint"), "ExactSizeIterator len {}", z.iter().len());
    for i in 0..=want.len() {
        ensure!(z.get(i) == want.get(i).map(|s| s.as_str()), "sorted_enumeration", format!("{how}/get"), "get({i}) = {:?}", z.get(i));
    }
    ensure!(z.get(want.len()).is_none(), "sorted_enumeration", format!("{how}/get"), "get(len) is Some");
    for p in PROBES.iter().copied().chain(l.iter().map(|s| s.as_str()).take(8)) {
        match z.binary_search(p) {
            Ok(i) => ensure!(z.get(i) == Some(p), "binary_search", "ok_index", "binary_search({p:?}) = Ok({i}) but get = {:?}", z.get(i)),
            Err(i) => {
                let ip = want.iter().filter(|s| s.as_str() < p).count();
                ensure!(!want.iter().any(|s| s == p) && i == ip, "binary_search", "insertion_point", "binary_search({p:?}) = Err({i}) on {:?}", &want[..want.len().min(12)]);
            }
        }
        ensure!(z.contains(p) == want.iter().any(|s| s == p), "binary_search", "contains", "contains({p:?}) = {}", z.contains(p));
    }
    // range(start, end): "start inclusive, end exclusive"
    for s in PROBES {
        for e in PROBES {
            if s > e {
                // (audit) an empty interval: nothing lies in [s, e)
                let r = z.range(s, e);
                ensure!(r.len() == 0 && z.range(s, e).next().is_none(), "range", "reversed_bounds", "range({s:?}, {e:?}) (start > end) over {:?} is not empty", &want[..want.len().min(12)]);
                continue;
            }
            ensure!(z.range(s, e).len() == want.iter().filter(|x| x.as_str() >= s && x.as_str() < e).count(), "range", "exact_size", "range({s:?}, {e:?}).len() = {}", z.range(s, e).len());
            let got: Vec<&str> = z.range(s, e).collect();
            let exp: Vec<&str> = want.iter().map(|x| x.as_str()).filter(|x| *x >= s && *x < e).collect();
            let class = if want.iter().filter(|x| x.as_str() == s).count() >= 2 || want.iter().filter(|x| x.as_str() == e).count() >= 2 { "duplicates_of_a_bound" } else { "no_duplicates_of_a_bound" };
            ensure!(got == exp, "range", class, "range({s:?}, {e:?}) over {:?} yields {:?}, want {:?}", &want[..want.len().min(12)], got, exp);
        }
    }
    let cl = z.clone();
    ensure!(cl.iter().collect::<Vec<_>>() == got, "sorted_enumeration", format!("{how}/clone"), "clone differs");
    Ok(if want.is_empty() { Outcome::trivial("empty") } else { Outcome::pass(&format!("{how}/{}", if want.windows(2).any(|w| w[0] == w[1]) { "with_duplicates" } else { "unique" })) })
}

// ---------------------------------------------------------------------------------------------
// join

#[derive(Serialize, Deserialize, Hash, Clone, Debug)]
pub struct JoinCase {
    parts: Vec<usize>,
    sep: usize,
}
static JOIN_PARTS: [&str; 5] = ["", "a", "ab", "é", ","];
static JOIN_PARTS_B: [&[u8]; 5] = [b"", b"a", b"ab", "é".as_bytes(), b","];
const SEPS: [&str; 4] = ["", ",", "ab", "é"];

fn run_join(c: &JoinCase) -> R {
    let parts: Vec<&str> = c.parts.iter().map(|&i| JOIN_PARTS[i]).collect();
    let bparts: Vec<&'static [u8]> = c.parts.iter().map(|&i| JOIN_PARTS_B[i]).collect();
    let sep = SEPS[c.sep];
    let want = parts.join(sep);
    let class = format!("n{}/sep{}", parts.len(), sep.len());
    let g = join(sep.as_bytes(), &bparts.iter().map(|b| &b[..]).collect::<Vec<&[u8]>>());
    ensure!(g == want.as_bytes(), "join", format!("join/{class}"), "join({sep:?}, {:?}) = {:?} want {want:?}", parts, String::from_utf8_lossy(&g));
    let g = join_str(sep, &parts);
    ensure!(g == want, "join", format!("join_str/{class}"), "join_str({sep:?}, {:?}) = {g:?} want {want:?}", parts);
    let fs: Vec<FastStr> = parts.iter().map(|p| FastStr::from_string(p)).collect();
    let g = join_fast_str(sep, &fs);
    ensure!(g == want, "join", format!("join_fast_str/{class}"), "join_fast_str({sep:?}, {:?}) = {g:?} want {want:?}", parts);
    let g = join_iter(sep, parts.iter());
    ensure!(g == want, "join", format!("join_iter/{class}"), "join_iter = {g:?} want {want:?}");
    let g = join_iter(sep, parts.iter().map(|s| s.to_string()));
    ensure!(g == want, "join", format!("join_iter/{class}"), "join_iter over Strings = {g:?} want {want:?}");
    let g = join_bytes_iter(sep.as_bytes(), bparts.iter().copied());
    ensure!(g == want.as_bytes(), "join", format!("join_bytes_iter/{class}"), "join_bytes_iter = {:?} want {want:?}", String::from_utf8_lossy(&g));
    for with_cap in [false, true] {
        let mut b = if with_cap { JoinBuilder::with_capacity(sep, 1) } else { JoinBuilder::new(sep) };
        ensure!(b.is_empty() && b.len() == 0, "join", "builder/empty", "fresh builder not empty");
        for p in &parts {
            b.push(p);
        }
        ensure!(b.len() == parts.len() && b.is_empty() == parts.is_empty(), "join", "builder/len", "len() = {}", b.len());
        let g = b.build();
        ensure!(g == want && b.build() == want, "join", format!("JoinBuilder/{class}"), "JoinBuilder.build() = {g:?} want {want:?}");
        ensure!(b.finish() == want, "join", format!("JoinBuilder/{class}"), "finish() differs");
    }
    Ok(if parts.is_empty() { Outcome::trivial("empty") } else { Outcome::pass(&class) })
}


// =============================================================================================
// Coverage audit: stateful histories, buffer boundaries, long keys, field-width limits, join grid

// ---- one SortedVecLexIterator driven through a history of cursor operations -------------------

#[derive(Serialize, Deserialize, Hash, Clone, Debug)]
pub struct IterHist {
    list: Vec<String>,
    /// 0 next, 1 prev, 2 seek_start, 3 seek_end, 4..=7 seek_lower_bound(T[i-4]), 8..=11 seek_upper_bound(T[i-8])
    ops: Vec<u8>,
}
const HIST_TARGETS: [&str; 4] = ["", "a", "ab", "c"];

fn hist_op_name(op: u8) -> String {
    match op {
        0 => "next".into(),
        1 => "prev".into(),
        2 => "seek_start".into(),
        3 => "seek_end".into(),
        4..=7 => format!("seek_lower_bound({:?})", HIST_TARGETS[op as usize - 4]),
        _ => format!("seek_upper_bound({:?})", HIST_TARGETS[op as usize - 8]),
    }
}

fn run_iter_hist(c: &IterHist) -> R {
    let l = &c.list;
    let n = l.len();
    let mut it = SortedVecLexIterator::new(l);
    // model: index of the current string, None = no current string (past the end / empty collection)
    let mut pos: Option<usize> = if n == 0 { None } else { Some(0) };
    let mut trace = String::new();
    let dups = l.windows(2).any(|w| w[0] == w[1]);
    for (step, &op) in c.ops.iter().enumerate() {
        trace.push_str(&hist_op_name(op));
        trace.push(' ');
        let ret: bool;
        let want_ret: bool;
        match op {
            0 => {
                ret = must(it.next(), "history", "next_err")?;
                match pos {
                    Some(p) if p + 1 < n => {
                        pos = Some(p + 1);
                        want_ret = true;
                    }
                    _ => {
                        pos = None;
                        want_ret = false;
                    }
                }
            }
            1 => {
                if pos.is_none() && n > 0 {
                    // moving back from "past the end" is not specified by the trait ("false if at beginning")
                    return Ok(Outcome::skip("prev() from the past-the-end position is unspecified"));
                }
                ret = must(it.prev(), "history", "prev_err")?;
                match pos {
                    Some(p) if p > 0 => {
                        pos = Some(p - 1);
                        want_ret = true;
                    }
                    _ => want_ret = false, // at the beginning: stays on the first string
                }
            }
            2 => {
                ret = must(it.seek_start(), "history", "seek_err")?;
                pos = if n == 0 { None } else { Some(0) };
                want_ret = n > 0;
            }
            3 => {
                ret = must(it.seek_end(), "history", "seek_err")?;
                pos = n.checked_sub(1);
                want_ret = n > 0;
            }
            4..=7 => {
                let t = HIST_TARGETS[op as usize - 4];
                ret = must(it.seek_lower_bound(t), "history", "seek_err")?;
                pos = l.iter().position(|s| s.as_str() >= t);
                want_ret = l.iter().any(|s| s == t);
            }
            _ => {
                let t = HIST_TARGETS[op as usize - 8];
                ret = must(it.seek_upper_bound(t), "history", "seek_err")?;
                pos = l.iter().position(|s| s.as_str() > t);
                want_ret = false;
            }
        }
        let class = format!("{}/{}", hist_op_name(op).split('(').next().unwrap(), if step == 0 { "first_op" } else { "after_other_ops" });
        ensure!(ret == want_ret, "history", format!("return_value/{class}"), "[{trace}] on {:?}: returned {ret}, want {want_ret}", l);
        let cur = it.current();
        ensure!(cur == pos.map(|p| l[p].as_str()), "history", format!("current/{class}"), "[{trace}] on {:?}: current() = {:?}, want {:?} (index {:?})", l, cur, pos.map(|p| l[p].as_str()), pos);
        ensure!(it.is_at_end() == pos.is_none() && it.is_at_start() == (pos == Some(0)) && it.size_hint() == Some(n), "history", format!("observers/{class}"), "[{trace}] on {:?}: is_at_start {} is_at_end {} size_hint {:?} at index {:?}", l, it.is_at_start(), it.is_at_end(), it.size_hint(), pos);
    }
    // from wherever the history ended: the rest of the collection, each string once, in order
    let rest = walk_forward(&mut it)?;
    let from = pos.unwrap_or(n);
    ensure!(rest[..] == l[from..], "history", if dups { "rest/with_duplicates" } else { "rest/unique" }, "[{trace}] on {:?}: walking on yields {:?}, want {:?}", l, rest, &l[from..]);
    Ok(if c.ops.is_empty() { Outcome::trivial("no-ops") } else { Outcome::pass(&format!("{}ops/{}", c.ops.len(), if dups { "with_duplicates" } else { "unique" })) })
}

// ---- StreamingLexIterator: lines around the reader's buffer size, readers that deliver little at a time ---------

/// a reader that hands out at most `chunk` bytes per read call
struct Chunked {
    data: Vec<u8>,
    at: usize,
    chunk: usize,
}
impl std::io::Read for Chunked {
    fn read(&mut self, buf: &mut [u8]) -> std::io::Result<usize> {
        let k = self.chunk.min(buf.len()).min(self.data.len() - self.at);
        buf[..k].copy_from_slice(&self.data[self.at..self.at + k]);
        self.at += k;
        Ok(k)
    }
}

#[derive(Serialize, Deserialize, Hash, Clone, Debug)]
pub struct StreamGrid {
    /// length of the long line (all 'a')
    long: usize,
    /// 0 = the long line is the first line, 1 = one empty line before it, 2 = the line "0" before it
    lead: u8,
    /// 0 = LF after every line, 1 = no LF after the last line, 2 = CRLF
    style: u8,
    /// 0 = Cursor, otherwise a reader delivering at most this many bytes per call
    chunk: usize,
}

fn check_stream<R: std::io::Read>(mut it: StreamingLexIterator<R>, l: &[String], what: &str) -> Result<(), Fail> {
    ensure!(it.current().is_none() && !it.is_at_end(), "enumeration", "streaming_grid/initial", "{what}: before the first next(): current {:?}, is_at_end {}", it.current().map(|s| s.len()), it.is_at_end());
    for (i, want) in l.iter().enumerate() {
        let ok = it.next().map_err(|e| bad("enumeration", "streaming_grid/next_err", e.to_string()))?;
        ensure!(ok, "enumeration", "streaming_grid/lost_line", "{what}: next() returned false at line {} of {}", i + 1, l.len());
        let cur = it.current();
        ensure!(cur == Some(want.as_str()), "enumeration", "streaming_grid/line", "{what}: line {}: got a string of {:?} bytes (starts {:?}), want {} bytes (starts {:?})", i + 1, cur.map(|s| s.len()), cur.map(|s| &s[..s.len().min(4)]), want.len(), &want[..want.len().min(4)]);
        ensure!(it.current() == cur && !it.is_at_end(), "enumeration", "streaming_grid/current_stable", "{what}: current() changes without next()");
    }
    for _ in 0..3 {
        let more = it.next().map_err(|e| bad("enumeration", "streaming_grid/next_err", e.to_string()))?;
        ensure!(!more && it.current().is_none() && it.is_at_end(), "enumeration", "streaming_grid/end", "{what}: after the last line next() = {more}, current() = {:?}", it.current().map(|s| s.len()));
    }
    Ok(())
}

fn run_stream_grid(c: &StreamGrid) -> R {
    let mut l: Vec<String> = Vec::new();
    match c.lead {
        1 => l.push(String::new()),
        2 => l.push("0".to_string()),
        _ => {}
    }
    l.push("a".repeat(c.long));
    l.extend(["b", "b", "cc"].iter().map(|s| s.to_string()));
    let mut text = String::new();
    for (i, s) in l.iter().enumerate() {
        text.push_str(s);
        match c.style {
            1 if i + 1 == l.len() => {}
            2 => text.push_str("\r\n"),
            _ => text.push('\n'),
        }
    }
    let what = format!("long line of {} bytes, lead {}, style {}, chunk {}", c.long, c.lead, c.style, c.chunk);
    if c.chunk == 0 {
        check_stream(StreamingLexIterator::new(Cursor::new(text.into_bytes())), &l, &what)?;
    } else {
        check_stream(LexIteratorBuilder::new().build_streaming(Chunked { data: text.into_bytes(), at: 0, chunk: c.chunk }), &l, &what)?;
    }
    Ok(Outcome::pass(&format!("long{}8192/style{}", if c.long < 8192 { "<" } else if c.long == 8192 { "=" } else { ">" }, c.style)))
}

// ---- SortableStrVec: one vector driven through a history of pushes, sorts and clears ---------------------------

#[derive(Serialize, Deserialize, Hash, Clone, Debug)]
pub struct VecHist {
    /// 0 = new(); 1 = with_capacity(4) + ["b", "", "a"]; 2 = 33 generated strings, sorted with sort(); 3 = default() + ["ab", "b"] + sort_by_length
    start: u8,
    /// 0..=2 push_str of "", "b", "aa"; 3 sort; 4 radix_sort; 5 sort_lexicographic; 6 sort_by_length; 7 sort_by(descending);
    /// 8 clear; 9 reserve(8) + shrink_to_fit; 10 replace the vector by its clone
    ops: Vec<u8>,
}
const VH_PUSH: [&str; 3] = ["", "b", "aa"];
const VH_OPS: [&str; 11] = ["push(\"\")", "push(\"b\")", "push(\"aa\")", "sort", "radix_sort", "sort_lexicographic", "sort_by_length", "sort_by(desc)", "clear", "reserve+shrink", "clone"];

#[derive(Clone, Copy, PartialEq, Debug)]
enum View {
    NoView,
    Lex,
    ByLen,
    Desc,
}

fn vh_observe(v: &SortableStrVec, items: &[String], view: View, trace: &str, last: &str) -> Result<(), Fail> {
    ensure!(v.len() == items.len() && v.is_empty() == items.is_empty(), "history", format!("len/after_{last}"), "[{trace}]: len() = {} for {} strings", v.len(), items.len());
    let it: Vec<&str> = v.iter().collect();
    ensure!(it == items.iter().map(|s| s.as_str()).collect::<Vec<_>>(), "history", format!("iter/after_{last}"), "[{trace}]: iter() yields {:?} want {:?}", &it[..it.len().min(12)], &items[..items.len().min(12)]);
    for i in 0..=items.len() {
        ensure!(v.get(i) == items.get(i).map(|s| s.as_str()) && v.get_by_id(i) == v.get(i), "history", format!("get/after_{last}"), "[{trace}]: get({i}) = {:?}", v.get(i));
    }
    let got: Vec<&str> = v.iter_sorted().collect();
    let mut sorted: Vec<String> = items.to_vec();
    sorted.sort();
    match view {
        View::NoView => {
            ensure!(got.is_empty() && v.get_sorted(0).is_none(), "history", format!("stale_sorted_view/after_{last}"), "[{trace}]: a sorted view ({} strings) is served although strings were pushed (or the vector cleared) since the last sort", got.len());
        }
        View::Lex => {
            ensure!(got == sorted.iter().map(|s| s.as_str()).collect::<Vec<_>>(), "history", format!("sorted_view/after_{last}"), "[{trace}]: iter_sorted() yields {:?} ({}), want {:?} ({})", &got[..got.len().min(12)], got.len(), &sorted[..sorted.len().min(12)], sorted.len());
            for i in 0..=sorted.len() {
                ensure!(v.get_sorted(i) == sorted.get(i).map(|s| s.as_str()), "history", format!("get_sorted/after_{last}"), "[{trace}]: get_sorted({i}) = {:?}", v.get_sorted(i));
            }
            for p in PROBES {
                check_search(v, &sorted, p).map_err(|f| bad("history", format!("binary_search/after_{last}"), format!("[{trace}]: {}", f.detail)))?;
            }
        }
        View::ByLen => {
            let mut ms: Vec<String> = got.iter().map(|s| s.to_string()).collect();
            ensure!(ms.windows(2).all(|w| w[0].len() <= w[1].len()), "history", format!("by_length_view/after_{last}"), "[{trace}]: sort_by_length view {:?}", &got[..got.len().min(12)]);
            ms.sort();
            ensure!(ms == sorted, "history", format!("by_length_view/after_{last}"), "[{trace}]: sort_by_length view is not a permutation of the content ({} of {} strings)", got.len(), sorted.len());
        }
        View::Desc => {
            sorted.reverse();
            ensure!(got == sorted.iter().map(|s| s.as_str()).collect::<Vec<_>>(), "history", format!("desc_view/after_{last}"), "[{trace}]: sort_by(desc) view {:?} ({}), want {:?} ({})", &got[..got.len().min(12)], got.len(), &sorted[..sorted.len().min(12)], sorted.len());
        }
    }
    Ok(())
}

fn run_vec_hist(c: &VecHist) -> R {
    let mut items: Vec<String> = Vec::new();
    let mut view = View::NoView;
    let mut v = match c.start {
        0 => SortableStrVec::new(),
        1 => {
            let mut v = SortableStrVec::with_capacity(4);
            for s in ["b", "", "a"] {
                must(v.push_str(s), "construct", "push_str")?;
                items.push(s.to_string());
            }
            v
        }
        2 => {
            items = big_list(33, 2);
            let mut v = must(SortableStrVec::from_iter(items.iter()), "construct", "from_iter")?;
            must(v.sort(), "history", "sort_err")?;
            view = View::Lex;
            v
        }
        _ => {
            let mut v = SortableStrVec::default();
            for s in ["ab", "b"] {
                must(v.push(s.to_string()), "construct", "push")?;
                items.push(s.to_string());
            }
            must(v.sort_by_length(), "history", "sort_err")?;
            view = View::ByLen;
            v
        }
    };
    let mut trace = format!("start{}", c.start);
    vh_observe(&v, &items, view, &trace, "start")?;
    for &op in &c.ops {
        let name = VH_OPS[op as usize];
        trace.push(' ');
        trace.push_str(name);
        match op {
            0..=2 => {
                let id = must(v.push_str(VH_PUSH[op as usize]), "history", "push_err")?;
                ensure!(id == items.len(), "history", "push_id", "[{trace}]: push returned id {id}, want {}", items.len());
                items.push(VH_PUSH[op as usize].to_string());
                view = View::NoView;
            }
            3 => {
                must(v.sort(), "history", "sort_err")?;
                view = View::Lex;
            }
            4 => {
                must(v.radix_sort(), "history", "sort_err")?;
                view = View::Lex;
            }
            5 => {
                must(v.sort_lexicographic(), "history", "sort_err")?;
                view = View::Lex;
            }
            6 => {
                must(v.sort_by_length(), "history", "sort_err")?;
                view = View::ByLen;
            }
            7 => {
                must(v.sort_by(|a, b| b.cmp(a)), "history", "sort_err")?;
                view = View::Desc;
            }
            8 => {
                v.clear();
                items.clear();
                view = View::NoView;
            }
            9 => {
                v.reserve(8);
                v.shrink_to_fit();
            }
            _ => {
                let cl = v.clone();
                v = cl;
            }
        }
        let last = name.split('(').next().unwrap();
        vh_observe(&v, &items, view, &trace, last)?;
    }
    Ok(if c.ops.is_empty() { Outcome::trivial("no-ops") } else { Outcome::pass(&format!("start{}/{}ops/{:?}", c.start, c.ops.len(), view)) })
}

// ---- SortableStrVec / ZoSortedStrVec: keys that share whole machine words, characters >= U+0080 -------------------

/// multi-byte characters that share their leading byte (U+00E9 / U+00E8: C3 A9 / C3 A8), 3- and 4-byte characters
const UNI_WORDS: [&str; 9] = ["", "a", "a\u{e8}", "a\u{e9}", "\u{e8}", "\u{e9}", "\u{e9}a", "\u{20ac}", "\u{10FFFF}"];

/// NUL inside strings: outside ZoSortedStrVec's NUL-terminated layout - must be refused, never cut short
const NUL_WORDS: [&str; 5] = ["", "\u{0}", "a", "a\u{0}", "a\u{0}b"];

fn run_zo_nul(c: &ListCase) -> R {
    let l = &c.list;
    let has_nul = l.iter().any(|s| s.contains('\u{0}'));
    let is_sorted = l.windows(2).all(|w| w[0] <= w[1]);
    let mut sorted = l.clone();
    sorted.sort();
    let (r, want) = match c.v {
        0 => (ZoSortedStrVec::from_sorted_strings(l.clone()), l.clone()),
        1 => {
            let mut d = sorted.clone();
            d.dedup();
            (ZoSortedStrVec::from_strings(l.clone()), d)
        }
        _ => (SortableStrVec::from_iter(l.iter()).and_then(ZoSortedStrVec::from_sortable_str_vec), sorted.clone()),
    };
    match r {
        Err(e) => {
            ensure!(has_nul || (c.v == 0 && !is_sorted), "construct", "nul/refused_without_nul", "constructor {} refused {:?}: {e}", c.v, l);
            Ok(Outcome::pass(if has_nul { "nul_refused" } else { "unsorted_refused" }))
        }
        Ok(z) => {
            ensure!(c.v != 0 || is_sorted, "construct", "unsorted_accepted", "from_sorted_strings accepted the unsorted list {:?}", l);
            // accepted: then every string must come back whole
            let got: Vec<&str> = z.iter().collect();
            ensure!(got == want.iter().map(|s| s.as_str()).collect::<Vec<_>>() && z.len() == want.len(), "sorted_enumeration", if has_nul { "nul/accepted_but_cut_short" } else { "nul/plain" }, "constructor {} accepted {:?} but enumerates {:?}", c.v, l, got);
            for s in &want {
                ensure!(z.contains(s), "binary_search", "nul/contains", "contains({s:?}) is false on {:?}", want);
            }
            Ok(Outcome::pass(if has_nul { "nul_accepted_whole" } else { "no_nul" }))
        }
    }
}

const LONG_KEYS: [&str; 16] = [
    "",
    "abcdezga", // differs from the others inside the first 8-byte word, with the opposite order in its last byte
    "abcdefg",
    "abcdefgh",
    "abcdefgha",
    "abcdefghb",
    "abcdefgh\u{7f}",
    "abcdefgh\u{e9}",
    "abcdefgh\u{10FFFF}",
    "abcdefghabcdefgh",
    "abcdefghabcdefgi",
    "abcdefghabcdefghabcdefghabcdefgha",
    "abcdefghabcdefghabcdefghabcdefgh\u{e9}",
    "\u{e9}",
    "\u{7f}",
    "z",
];

fn gen_long_keys(variants: u8) -> impl Fn(Tier, &mut dyn FnMut(ListCase) -> bool) {
    move |tier, f| {
        all_strings(&LONG_KEYS, tier.pick(3, 4), &mut |l| {
            // thorough: length-4 lists only in non-decreasing index order (multisets), the orders are covered up to length 3
            if l.len() == 4 && !l.windows(2).all(|w| w[0] <= w[1]) {
                return true;
            }
            (0..variants).all(|v| f(ListCase { list: l.iter().map(|s| s.to_string()).collect(), v }))
        });
    }
}

// ---- SortableStrVec: strings around the 20-bit length field of the packed entry --------------------------------

#[derive(Serialize, Deserialize, Hash, Clone, Debug)]
pub struct LongStr {
    len: usize,
    /// 0 = the only string, 1 = between two short strings
    place: u8,
}

fn run_long_string(c: &LongStr) -> R {
    let big = "x".repeat(c.len);
    let mut items: Vec<&str> = Vec::new();
    if c.place == 1 {
        items.push("y");
    }
    items.push(&big);
    if c.place == 1 {
        items.push("a");
    }
    let class = if c.len < (1 << 20) { "len<2^20" } else { "len>=2^20" };
    let mut v = SortableStrVec::new();
    for s in &items {
        if let Err(e) = v.push_str(s) {
            // a refusal is fine: the property is about what is enumerated
            return Ok(Outcome::pass(&format!("refused/{class}: {}", &e.to_string()[..20.min(e.to_string().len())])));
        }
    }
    let show = |s: Option<&str>| s.map(|s| format!("{} bytes starting {:?}", s.len(), &s[..s.len().min(3)]));
    for (i, s) in items.iter().enumerate() {
        ensure!(v.get(i) == Some(*s), "enumeration", format!("long_string/get/{class}"), "push_str of a {}-byte string succeeded but get({i}) = {:?}, want {:?}", c.len, show(v.get(i)), show(Some(*s)));
    }
    let got: Vec<&str> = v.iter().collect();
    ensure!(got == items, "enumeration", format!("long_string/iter/{class}"), "iter() after pushing a {}-byte string yields lengths {:?}", c.len, got.iter().map(|s| s.len()).collect::<Vec<_>>());
    must(v.sort(), "sorted_enumeration", "sort_err")?;
    let mut sorted = items.clone();
    sorted.sort();
    let got: Vec<&str> = v.iter_sorted().collect();
    ensure!(got == sorted, "sorted_enumeration", format!("long_string/sorted/{class}"), "iter_sorted() after pushing a {}-byte string yields lengths {:?}", c.len, got.iter().map(|s| s.len()).collect::<Vec<_>>());
    ensure!(v.binary_search(&big).map(|i| v.get_sorted(i) == Some(big.as_str())) == Ok(true), "binary_search", format!("long_string/{class}"), "binary_search does not find the {}-byte string", c.len);
    Ok(Outcome::pass(&format!("stored/{class}")))
}

// ---- join: many parts, long parts, a builder that is built, extended and built again ---------------------------

#[derive(Serialize, Deserialize, Hash, Clone, Debug)]
pub struct JoinGrid {
    n: usize,
    /// 0 = the five small parts in rotation, 1 = parts of lengths (i*37)%300 (multi-byte characters inside), 2 = only empty parts,
    /// 3 = parts that are not valid UTF-8 on their own (join / join_bytes_iter / join_fast_str only)
    kind: u8,
    sep: usize,
    /// the builder gets the first `split` parts, is built, gets the rest, is built again
    split: usize,
}
const GRID_SEPS: [&str; 5] = ["", ",", "ab", "\u{e9}", "-- a separator longer than most parts --"];

fn run_join_grid(c: &JoinGrid) -> R {
    let sep = GRID_SEPS[c.sep];
    let class = format!("grid/kind{}/n{}/sep{}", c.kind, if c.n <= 8 { "<=8" } else { ">8" }, sep.len().min(3));
    if c.kind == 3 {
        static RAW: [&[u8]; 5] = [b"\xFF", b"a\x80", b"", b"ok", b"\x80\xFFz"];
        let bparts: Vec<&'static [u8]> = (0..c.n).map(|i| RAW[(i * 3 + i / 5) % 5]).collect();
        let want_bytes = bparts.join(sep.as_bytes());
        ensure!(join(sep.as_bytes(), &bparts) == want_bytes, "join", format!("join/{class}"), "join of {} raw parts differs from slice::join", c.n);
        ensure!(join_bytes_iter(sep.as_bytes(), bparts.iter().copied()) == want_bytes, "join", format!("join_bytes_iter/{class}"), "join_bytes_iter of {} raw parts differs", c.n);
        // every part on its own converts like FastStr::into_string (each stray byte becomes U+FFFD); none of the parts ends or
        // starts inside a multi-byte sequence, so converting part by part or the joined bytes as a whole is the same thing
        let fs: Vec<FastStr> = bparts.iter().map(|b| FastStr::new(b)).collect();
        let want = bparts.iter().map(|b| String::from_utf8_lossy(b).into_owned()).collect::<Vec<_>>().join(sep);
        debug_assert_eq!(want, String::from_utf8_lossy(&want_bytes));
        let g = join_fast_str(sep, &fs);
        ensure!(g == want, "join", format!("join_fast_str/{class}"), "join_fast_str over parts that are not UTF-8 = {g:?} want {want:?}");
        return Ok(Outcome::pass(&class));
    }
    let owned: Vec<String> = (0..c.n)
        .map(|i| match c.kind {
            0 => JOIN_PARTS[(i * 2 + i / 5) % 5].to_string(),
            1 => {
                let len = (i * 37) % 300;
                let mut s: String = std::iter::repeat((b'a' + (i % 26) as u8) as char).take(len).collect();
                if i % 3 == 0 {
                    s.push('\u{e9}');
                }
                s
            }
            _ => String::new(),
        })
        .collect();
    let parts: Vec<&str> = owned.iter().map(|s| s.as_str()).collect();
    let want = parts.join(sep);
    let bparts: Vec<&[u8]> = parts.iter().map(|p| p.as_bytes()).collect();
    ensure!(join(sep.as_bytes(), &bparts) == want.as_bytes(), "join", format!("join/{class}"), "join of {} parts differs from slice::join", c.n);
    ensure!(join_str(sep, &parts) == want, "join", format!("join_str/{class}"), "join_str of {} parts differs", c.n);
    let fs: Vec<FastStr> = parts.iter().map(|p| FastStr::from_string(p)).collect();
    ensure!(join_fast_str(sep, &fs) == want, "join", format!("join_fast_str/{class}"), "join_fast_str of {} parts differs", c.n);
    ensure!(join_iter(sep, parts.iter()) == want && join_iter(sep, owned.iter()) == want, "join", format!("join_iter/{class}"), "join_iter of {} parts differs", c.n);
    // the builder: some parts, build, the rest (chained pushes), build again, finish
    let split = c.split.min(c.n);
    let mut b = JoinBuilder::with_capacity(sep, if c.n % 2 == 0 { 0 } else { c.n });
    for p in &parts[..split] {
        b.push(p);
    }
    let first = b.build();
    ensure!(first == parts[..split].join(sep) && b.len() == split, "join", format!("JoinBuilder/first_build/{class}"), "builder with the first {split} of {} parts builds {:?}", c.n, &first[..first.len().min(40)]);
    let mut rest = parts[split..].iter();
    while let Some(p) = rest.next() {
        match rest.next() {
            Some(q) => {
                b.push(p).push(q);
            }
            None => {
                b.push(p);
            }
        }
    }
    ensure!(b.len() == c.n && b.is_empty() == (c.n == 0), "join", "builder/len", "len() = {} after {} pushes", b.len(), c.n);
    let second = b.build();
    ensure!(second == want, "join", format!("JoinBuilder/build_after_build/{class}"), "builder built after {split} parts, extended to {} parts and built again: {} bytes, want {} bytes", c.n, second.len(), want.len());
    ensure!(b.finish() == want, "join", format!("JoinBuilder/finish/{class}"), "finish() differs");
    Ok(Outcome::pass(&class))
}

pub fn register(reg: &mut Registry) {
    reg.add(fam(
        "SortedVecLexIterator",
        "all sorted lists (duplicates allowed) of length <=5 (thorough <=7) over {\"\",\"a\",\"ab\",\"b\"} x {direct constructor, LexIteratorBuilder (2 settings)}: forward walk, collect_all, backward walk, seek_start/end, seek_lower_bound/seek_upper_bound for 8 probe targets (then walking to the end), count_with_prefix for 8 prefixes, find_common_prefix; (audit) collect_all / find_common_prefix / count_with_prefix also on iterators that stand at the end, past the end, or at an upper bound",
        |tier, f: &mut dyn FnMut(ListCase) -> bool| {
            all_lists(tier.pick(5, 7), true, &mut |l| (0..3u8).all(|v| f(ListCase { list: l.clone(), v })));
        },
        run_sorted_vec,
    ));
    reg.add(fam(
        "SortedVecLexIterator/unicode",
        "all sorted lists (duplicates allowed) of length <=4 (thorough <=5) over {\"\", a, a+U+00E8, a+U+00E9, U+00E8, U+00E9, U+00E9+a, U+20AC, U+10FFFF} (characters sharing their first byte) x {direct constructor, LexIteratorBuilder}: same clauses as SortedVecLexIterator with every list element, a value just above it and all 9 words as probe targets; find_common_prefix in whole characters",
        |tier, f: &mut dyn FnMut(ListCase) -> bool| {
            all_strings(&UNI_WORDS, tier.pick(4, 5), &mut |l| {
                if !l.windows(2).all(|w| w[0] <= w[1]) {
                    return true;
                }
                (3..5u8).all(|v| f(ListCase { list: l.iter().map(|s| s.to_string()).collect(), v }))
            });
        },
        run_sorted_vec,
    ));
    reg.add(fam(
        "StreamingLexIterator",
        "all sorted lists of length <=5 (thorough <=7) over {\"\",\"a\",\"ab\",\"b\"} written one per line x {LF after every line, no LF after the last, CRLF, via LexIteratorBuilder}: next()/current() protocol yields every line once, in order",
        |tier, f: &mut dyn FnMut(ListCase) -> bool| {
            all_lists(tier.pick(5, 7), true, &mut |l| (0..4u8).all(|v| f(ListCase { list: l.clone(), v })));
        },
        run_streaming,
    ));
    reg.add(fam(
        "StreamingLexIterator/grid",
        "a line of 8185..=8195, 16383..=16385 or 20000 bytes (the reader buffers 8192 bytes) followed by the lines b, b, cc, x {first line, after an empty line, after a one-byte line} x {LF, no final LF, CRLF} x {Cursor, a reader delivering at most 1 / 7 / 8192 bytes per call (via LexIteratorBuilder)}: every line once, whole and in order; current() stable between next() calls; next() keeps returning false after the end",
        |_t, f: &mut dyn FnMut(StreamGrid) -> bool| {
            for long in (8185usize..=8195).chain([16383, 16384, 16385, 20000]) {
                for lead in 0..3u8 {
                    for style in 0..3u8 {
                        for chunk in [0usize, 1, 7, 8192] {
                            if !f(StreamGrid { long, lead, style, chunk }) {
                                return;
                            }
                        }
                    }
                }
            }
        },
        run_stream_grid,
    ));
    reg.add(fam(
        "SortedVecLexIterator/history",
        "ONE iterator per history: all sorted lists (duplicates allowed) of length <=4 (thorough <=5) over {\"\",\"a\",\"ab\",\"b\"} x every sequence of <=3 (thorough <=4) operations over {next, prev, seek_start, seek_end, seek_lower_bound(t), seek_upper_bound(t) for t in {\"\",\"a\",\"ab\",\"c\"}} against a cursor model; after every operation the return value, current(), is_at_start(), is_at_end(), size_hint(); at the end of the history the rest of the list by walking on (prev() from the past-the-end position is unspecified: such histories are skipped)",
        |tier, f: &mut dyn FnMut(IterHist) -> bool| {
            let ops: Vec<u8> = (0..12).collect();
            all_lists(tier.pick(4, 5), true, &mut |l| all_strings(&ops, tier.pick(3, 4), &mut |o| f(IterHist { list: l.clone(), ops: o.to_vec() })));
        },
        run_iter_hist,
    ));
    reg.add(fam(
        "SortableStrVec",
        "all lists (any order, duplicates) of length <=4 (thorough <=5) over {\"\",\"a\",\"ab\",\"b\"} + generated lists of n in {31,32,33,100,513,1000} strings x 3 shapes (many duplicates, descending, mixed; empty strings, shared prefixes) x {from_iter, push/push_str} x {sort, radix_sort, sort_lexicographic}: insertion-order access, iter_sorted/get_sorted, binary_search, sort_by_length, sort_by(desc), push after sort followed by a re-sort through sort / radix_sort / sort_lexicographic (three rounds), clone, clear. Coverage audit: + shapes {keys sharing one or two whole 8-byte words and continuing with bytes >= 0x80, 7 values each repeated >= 32 times} for the same sizes and all 5 shapes for n in {511,512,514,768,769,1025} (block search starts above 2 x 256 strings; whole / partial last block); for lists of >= 31 strings binary_search of every distinct element and of a value just above it, get_sorted for every index",
        |tier, f: &mut dyn FnMut(ListCase) -> bool| {
            if !all_lists(tier.pick(4, 5), false, &mut |l| (0..6u8).all(|v| f(ListCase { list: l.clone(), v }))) {
                return;
            }
            for n in [31usize, 32, 33, 100, 513, 1000] {
                for shape in 0..3u8 {
                    for v in 0..6u8 {
                        if !f(ListCase { list: big_list(n, shape), v }) {
                            return;
                        }
                    }
                }
            }
            // (audit) the audit shapes for the same sizes, and sizes around the block-search threshold (2 x 256) and around
            // whole numbers of 256-string blocks, for every shape
            for (n, shapes) in [(31usize, 3..5u8), (32, 3..5), (33, 3..5), (100, 3..5), (513, 3..5), (1000, 3..5), (511, 0..5), (512, 0..5), (514, 0..5), (768, 0..5), (769, 0..5), (1025, 0..5)] {
                for shape in shapes {
                    for v in 0..6u8 {
                        if tier == Tier::Quick && n > 100 && v % 2 == 1 && shape != 3 {
                            continue; // quick: the push/push_str construction of the large lists only for one shape
                        }
                        if !f(ListCase { list: big_list(n, shape), v }) {
                            return;
                        }
                    }
                }
            }
        },
        run_sortable,
    ));
    reg.add(fam(
        "SortableStrVec/long-keys",
        "all lists (any order, duplicates) of length <=3 (thorough: + all multisets of 4) over 16 keys: \"\", 7/8/9/16/33-byte keys sharing whole 8-byte words and differing in the byte after them, keys ending in U+007F / U+00E9 / U+10FFFF (bytes >= 0x80 against ASCII), a key that is a prefix of another at a word boundary x {from_iter, push/push_str} x {sort, radix_sort, sort_lexicographic}: same clauses as SortableStrVec, binary_search for every key and a value just above it",
        gen_long_keys(6),
        run_sortable,
    ));
    reg.add(fam(
        "SortableStrVec/history",
        "one vector per history: start {new(), with_capacity(4)+3 strings, 33 generated strings already sorted, default()+2 strings sorted by length} x every sequence of <=4 (thorough <=5) operations over {push_str of \"\"/\"b\"/\"aa\", sort, radix_sort, sort_lexicographic, sort_by_length, sort_by(descending), clear, reserve+shrink_to_fit, clone}; after every operation: len, is_empty, iter, get/get_by_id for every index, and the sorted view of the model (none after a push/clear, else exactly the order of the last sort: iter_sorted, get_sorted for every index, binary_search for 8 probes)",
        |tier, f: &mut dyn FnMut(VecHist) -> bool| {
            for start in 0..4u8 {
                let ops: Vec<u8> = (0..11).collect();
                if !all_strings(&ops, tier.pick(4, 5), &mut |o| f(VecHist { start, ops: o.to_vec() })) {
                    return;
                }
            }
        },
        run_vec_hist,
    ));
    reg.add(fam(
        "SortableStrVec/long-string",
        "one string of 2^20-1, 2^20, 2^20+1, 2^20+5 or 2^21+3 bytes (the packed entry has a 20-bit length field), alone or between two short strings: push_str either refuses or get/iter/iter_sorted/binary_search return the whole string and the neighbours",
        |_t, f: &mut dyn FnMut(LongStr) -> bool| {
            for len in [(1usize << 20) - 1, 1 << 20, (1 << 20) + 1, (1 << 20) + 5, (1 << 21) + 3] {
                for place in 0..2u8 {
                    if !f(LongStr { len, place }) {
                        return;
                    }
                }
            }
        },
        run_long_string,
    ));
    reg.add(fam(
        "ZoSortedStrVec",
        "all lists (any order, duplicates) of length <=4 (thorough <=5) over {\"\",\"a\",\"ab\",\"b\"} + generated lists of n in {33,300} x 3 shapes x {from_sorted_strings (unsorted input must be rejected), from_strings (sorted + de-duplicated, as its source documents), from_sortable_str_vec}: iter, get (every index), len, binary_search, contains, range(start,end) over all pairs of 8 probe strings (start > end: empty; ExactSizeIterator::len of every range). Coverage audit: + n in {513,1100} x 5 shapes (select samples every 512 set bits), n in {33,300} x the two long-key shapes, n in {33,120} with strings of 0..700 bytes (longer than a 256-bit rank/select line)",
        |tier, f: &mut dyn FnMut(ListCase) -> bool| {
            if !all_lists(tier.pick(4, 5), false, &mut |l| (0..3u8).all(|v| f(ListCase { list: l.clone(), v }))) {
                return;
            }
            for n in [33usize, 300] {
                for shape in 0..3u8 {
                    for v in 0..3u8 {
                        let mut l = big_list(n, shape);
                        if v == 0 {
                            l.sort();
                        }
                        if !f(ListCase { list: l, v }) {
                            return;
                        }
                    }
                }
            }
            // (audit) more than 512 / 1024 strings (the select structure samples every 512th set bit), keys that share whole
            // words / contain bytes >= 0x80, values repeated >= 32 times, strings longer than a 256-bit rank/select line
            for (n, shapes) in [(33usize, 3..6u8), (120, 5..6), (300, 3..5), (513, 0..5), (1100, 0..5)] {
                for shape in shapes {
                    for v in 0..3u8 {
                        let mut l = big_list(n, shape);
                        if v == 0 {
                            l.sort();
                        }
                        if !f(ListCase { list: l, v }) {
                            return;
                        }
                    }
                }
            }
        },
        run_zo,
    ));
    reg.add(fam(
        "ZoSortedStrVec/nul",
        "all lists of length <=3 over {\"\", NUL, \"a\", \"a\"+NUL, \"a\"+NUL+\"b\"} x the 3 constructors: a list with a NUL inside a string is refused (or, if accepted, enumerated whole - never cut at the NUL); lists without NUL are accepted when sorted",
        |_t, f: &mut dyn FnMut(ListCase) -> bool| {
            all_strings(&NUL_WORDS, 3, &mut |l| (0..3u8).all(|v| f(ListCase { list: l.iter().map(|s| s.to_string()).collect(), v })));
        },
        run_zo_nul,
    ));
    reg.add(fam(
        "ZoSortedStrVec/long-keys",
        "all lists of length <=3 (thorough: + all multisets of 4) over the 16 long keys of SortableStrVec/long-keys x the 3 constructors: same clauses as ZoSortedStrVec",
        gen_long_keys(3),
        run_zo,
    ));
    reg.add(fam(
        "join",
        "all lists of <=3 (thorough <=4) parts over {\"\",\"a\",\"ab\",\"é\",\",\"} x separators {\"\",\",\",\"ab\",\"é\"}: join, join_str, join_fast_str, join_iter (&str and String items), join_bytes_iter, JoinBuilder (new / with_capacity; build twice, finish) against slice::join",
        |tier, f: &mut dyn FnMut(JoinCase) -> bool| {
            all_strings(&[0usize, 1, 2, 3, 4], tier.pick(3, 4), &mut |p| (0..SEPS.len()).all(|sep| f(JoinCase { parts: p.to_vec(), sep })));
        },
        run_join,
    ));
    reg.add(fam(
        "join/grid",
        "n in {2,5,8,9,16,17,33,64} parts x {the five small parts in rotation, parts of 0..299 bytes with multi-byte characters, only empty parts, parts that are not UTF-8 (byte joins and join_fast_str)} x 5 separators (one longer than most parts) x builder split point {0,1,n/2,n}: join, join_str, join_fast_str, join_iter, join_bytes_iter against slice::join; JoinBuilder (with_capacity 0 / n) built after the first `split` parts, extended with chained pushes and built again, finish",
        |_t, f: &mut dyn FnMut(JoinGrid) -> bool| {
            for n in [2usize, 5, 8, 9, 16, 17, 33, 64] {
                for kind in 0..4u8 {
                    for sep in 0..GRID_SEPS.len() {
                        let mut splits = vec![0usize, 1, n / 2, n];
                        splits.dedup();
                        if kind == 3 {
                            splits.truncate(1);
                        }
                        for split in splits {
                            if !f(JoinGrid { n, kind, sep, split }) {
                                return;
                            }
                        }
                    }
                }
            }
        },
        run_join_grid,
    ));
}
