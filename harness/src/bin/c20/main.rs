//! C20 — string views, orderings and iterators agree with byte-wise semantics (engine E2).
//!
//! `faststr.rs` (FastStr vs slice operations, hash/eq coherence across alignments), `numeric.rs`
//! (decimal_strcmp / realnum_strcmp vs an exact decimal comparison), `lists.rs` (lexicographic
//! iterators, SortableStrVec, ZoSortedStrVec, join), `text.rs` (words, lines, case conversion).

use serde::{de::DeserializeOwned, Serialize};
use std::hash::Hash;
use zverif::enumr::{Enum, EnumSpec};
use zverif::{Fail, Outcome, Tier};

mod faststr;
mod lists;
mod numeric;
mod text;

pub type R = Result<Outcome, Fail>;

pub struct Fam<C> {
    pub name: String,
    pub space: String,
    pub gen: Box<dyn Fn(Tier, &mut dyn FnMut(C) -> bool)>,
    pub run: Box<dyn Fn(&C) -> R>,
}

impl<C: Serialize + DeserializeOwned + Hash + Clone> EnumSpec for Fam<C> {
    type Case = C;
    fn name(&self) -> String {
        self.name.clone()
    }
    fn space(&self, _tier: Tier) -> String {
        self.space.clone()
    }
    fn cases(&self, tier: Tier, f: &mut dyn FnMut(C) -> bool) {
        (self.gen)(tier, f)
    }
    fn run(&self, case: &C) -> Outcome {
        match (self.run)(case) {
            Ok(o) => o,
            Err(f) => Outcome::Fail(f),
        }
    }
}

pub fn fam<C: Serialize + DeserializeOwned + Hash + Clone + 'static>(
    name: &str,
    space: &str,
    gen: impl Fn(Tier, &mut dyn FnMut(C) -> bool) + 'static,
    run: impl Fn(&C) -> R + 'static,
) -> Enum<Fam<C>> {
    Enum(Fam { name: name.to_string(), space: space.to_string(), gen: Box::new(gen), run: Box::new(run) })
}

pub fn bad(clause: &str, class: impl Into<String>, detail: impl Into<String>) -> Fail {
    Fail::new(clause, detail).with_class(class)
}

#[macro_export]
macro_rules! ensure {
    ($cond:expr, $clause:expr, $class:expr, $($fmt:tt)+) => {
        if !($cond) {
            return Err($crate::bad($clause, $class, format!($($fmt)+)));
        }
    };
}

pub fn must<T, E: std::fmt::Display>(r: Result<T, E>, clause: &str, class: &str) -> Result<T, Fail> {
    r.map_err(|e| bad(clause, class, format!("unexpected Err: {e}")))
}

/// all strings over `alphabet` (chars) of length <= max
pub fn strings_over(alphabet: &[char], max: usize) -> Vec<String> {
    let mut v = Vec::new();
    zverif::util::all_strings(alphabet, max, &mut |s| {
        v.push(s.iter().collect::<String>());
        true
    });
    v
}

fn main() {
    zverif::main_with("C20", |reg, _tier| {
        faststr::register(reg);
        numeric::register(reg);
        lists::register(reg);
        text::register(reg);
    });
}
