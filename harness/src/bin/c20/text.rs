//! words / word boundaries, LineProcessor / LineSplitter, ASCII and Unicode case conversion.

use crate::{ensure, fam, must, strings_over, R};
use serde::{Deserialize, Serialize};
use std::collections::{HashMap, HashSet};
use std::io::Cursor;
use zipora::string::bmi2::{to_lowercase_ascii_bmi2, to_uppercase_ascii_bmi2};
use zipora::string::utils::{line_utils, unicode_utils};
use zipora::string::{
    find_word_boundaries, is_word_boundary, is_word_char, word_at_position, word_count, words, LineProcessor, LineProcessorConfig, LineSplitter,
    UnicodeProcessor, WordIterator,
};
use zverif::{Outcome, Registry, Tier};

#[derive(Serialize, Deserialize, Hash, Clone, Debug)]
pub struct Txt {
    s: String,
    v: u8,
}

// ---------------------------------------------------------------------------------------------
// words

fn ref_is_word(c: u8) -> bool {
    c.is_ascii_alphanumeric() || c == b'_'
}

fn run_words(c: &Txt) -> R {
    let t = c.s.as_bytes();
    let n = t.len();
    // "Splits text by word boundaries, yielding only word sequences": maximal runs of [a-zA-Z0-9_]
    let want: Vec<&[u8]> = t.split(|&b| !ref_is_word(b)).filter(|w| !w.is_empty()).collect();
    let got: Vec<&[u8]> = words(t).collect();
    ensure!(got == want, "words", "words", "words({:?}) = {:?} want {:?}", c.s, got, want);
    let got2: Vec<&[u8]> = WordIterator::new(t).collect();
    ensure!(got2 == want, "words", "WordIterator", "WordIterator differs");
    ensure!(word_count(t) == want.len(), "words", "word_count", "word_count({:?}) = {} want {}", c.s, word_count(t), want.len());
    for b in 0..=255u8 {
        ensure!(is_word_char(b) == ref_is_word(b), "words", "is_word_char", "is_word_char({b:#x}) = {}", is_word_char(b));
    }
    // boundaries: start, end, and every position between a word and a non-word character
    let boundary = |p: usize| -> bool { n == 0 || p == 0 || p >= n || ref_is_word(t[p - 1]) != ref_is_word(t[p]) };
    for p in 0..=n + 1 {
        ensure!(is_word_boundary(t, p) == boundary(p), "words", "is_word_boundary", "is_word_boundary({:?}, {p}) = {}", c.s, is_word_boundary(t, p));
    }
    let mut wb: Vec<usize> = (0..=n).filter(|&p| boundary(p)).collect();
    wb.dedup();
    let gb = find_word_boundaries(t);
    ensure!(gb == wb, "words", "find_word_boundaries", "find_word_boundaries({:?}) = {:?} want {:?}", c.s, gb, wb);
    // word_at_position: "the byte range of the word containing the position, or None"
    for p in 0..=n + 1 {
        let want = if p < n && ref_is_word(t[p]) {
            let mut s = p;
            while s > 0 && ref_is_word(t[s - 1]) {
                s -= 1;
            }
            let mut e = p;
            while e < n && ref_is_word(t[e]) {
                e += 1;
            }
            Some((s, e))
        } else {
            None
        };
        ensure!(word_at_position(t, p) == want, "words", "word_at_position", "word_at_position({:?}, {p}) = {:?} want {:?}", c.s, word_at_position(t, p), want);
    }
    Ok(if want.is_empty() { Outcome::trivial("no-words") } else { Outcome::pass(&format!("{}words", want.len().min(3))) })
}

// ---------------------------------------------------------------------------------------------
// lines

/// the straightforward definition: pieces terminated by '\n' (a final piece without '\n' counts if non-empty);
/// unless endings are preserved the '\n' and one preceding '\r' are removed ("\r\n" is one ending, a lone "\r" is content);
/// then optional trimming, then optional dropping of empty lines
fn ref_lines(text: &str, cfg: &LineProcessorConfig) -> Vec<String> {
    let mut out = Vec::new();
    for raw in text.split_inclusive('\n') {
        let mut l = raw.to_string();
        if !cfg.preserve_line_endings && l.ends_with('\n') {
            l.pop();
            if l.ends_with('\r') {
                l.pop();
            }
        }
        let l = if cfg.trim_whitespace { l.trim().to_string() } else { l };
        if cfg.skip_empty_lines && l.is_empty() {
            continue;
        }
        out.push(l);
    }
    out
}

fn cfg_of(v: u8) -> LineProcessorConfig {
    LineProcessorConfig {
        buffer_size: [1usize, 3, 64 * 1024][(v / 8) as usize % 3],
        max_line_length: 1 << 20,
        preserve_line_endings: v & 1 != 0,
        skip_empty_lines: v & 2 != 0,
        trim_whitespace: v & 4 != 0,
        use_secure_memory: false,
    }
}

fn run_lines(c: &Txt) -> R {
    let cfg = cfg_of(c.v);
    let flags = format!("preserve={},skip_empty={},trim={}", cfg.preserve_line_endings, cfg.skip_empty_lines, cfg.trim_whitespace);
    let want = ref_lines(&c.s, &cfg);
    let mk = || LineProcessor::with_config(Cursor::new(c.s.clone().into_bytes()), cfg.clone());
    // process_lines
    let mut got = Vec::new();
    let mut p = mk();
    let n = must(p.process_lines(|l| {
        got.push(l.to_string());
        Ok(true)
    }), "lines", "process_lines_err")?;
    ensure!(got == want, "lines", format!("process_lines/{flags}"), "process_lines({:?}) [{flags}] yields {:?}, want {:?}", c.s, got, want);
    ensure!(n == want.len(), "lines", format!("process_lines_count/{flags}"), "process_lines returned {n} for {} lines", want.len());
    let st = p.get_statistics();
    let physical = c.s.split_inclusive('\n').count();
    ensure!(st.lines_processed == physical && st.bytes_processed == c.s.len(), "lines", "statistics", "statistics: {} lines / {} bytes for {:?}", st.lines_processed, st.bytes_processed, c.s);
    // early stop after the first line
    if !want.is_empty() {
        let mut first = Vec::new();
        let n = must(mk().process_lines(|l| {
            first.push(l.to_string());
            Ok(false)
        }), "lines", "process_lines_err")?;
        let _ = n;
        ensure!(first == want[..1], "lines", format!("process_lines_stop/{flags}"), "handler returning false: saw {:?}, returned {n}", first);
    }
    // count_lines: the number of lines the processor delivers
    let cnt = must(mk().count_lines(), "lines", "count_lines_err")?;
    let ws_only = cfg.skip_empty_lines && !cfg.trim_whitespace && want.iter().any(|l| !l.is_empty() && l.trim().is_empty());
    ensure!(cnt == want.len(), "count_lines", if ws_only { "skip_empty_without_trim/whitespace_only_line".to_string() } else { format!("other/{flags}") }, "count_lines({:?}) [{flags}] = {cnt}, process_lines delivers {} lines", c.s, want.len());
    // batches
    for bs in [1usize, 2, 5] {
        let mut all = Vec::new();
        let mut sizes = Vec::new();
        let n = must(mk().process_batches(bs, |b| {
            sizes.push(b.len());
            all.extend_from_slice(b);
            Ok(true)
        }), "lines", "process_batches_err")?;
        ensure!(all == want && n == want.len(), "lines", format!("process_batches/{flags}"), "process_batches({bs}) yields {:?} (returned {n}), want {:?}", all, want);
        ensure!(sizes.iter().rev().skip(1).all(|&s| s == bs) && sizes.iter().all(|&s| s >= 1 && s <= bs), "lines", "process_batches/sizes", "batch sizes {:?} for batch_size {bs}", sizes);
    }
    // fields
    let mut fields = Vec::new();
    let nf = must(mk().split_lines_by(" ", |f, ln, fnum| {
        fields.push((f.to_string(), ln, fnum));
        Ok(true)
    }), "lines", "split_lines_by_err")?;
    let mut wf = Vec::new();
    for (i, l) in want.iter().enumerate() {
        for (j, f) in l.split(' ').enumerate() {
            wf.push((f.to_string(), i + 1, j));
        }
    }
    ensure!(fields == wf && nf == wf.len(), "lines", format!("split_lines_by/{flags}"), "split_lines_by(\" \") on {:?} yields {:?} want {:?}", c.s, fields, wf);
    // find_lines (1-based numbers of the delivered lines)
    let found = must(mk().find_lines(|l| l.contains('a')), "lines", "find_lines_err")?;
    let wfound: Vec<(usize, String)> = want.iter().enumerate().filter(|(_, l)| l.contains('a')).map(|(i, l)| (i + 1, l.clone())).collect();
    ensure!(found == wfound, "lines", format!("find_lines/{flags}"), "find_lines on {:?} = {:?} want {:?}", c.s, found, wfound);
    // utils
    let uniq: HashSet<String> = must(line_utils::extract_unique_lines(mk()), "lines", "utils_err")?.into_iter().collect();
    ensure!(uniq == want.iter().cloned().collect::<HashSet<_>>(), "lines", "extract_unique_lines", "unique lines differ");
    let fl = must(line_utils::filter_by_length(mk(), 1, 2), "lines", "utils_err")?;
    ensure!(fl == want.iter().filter(|l| (1..=2).contains(&l.len())).cloned().collect::<Vec<_>>(), "lines", "filter_by_length", "filter_by_length(1,2) = {:?}", fl);
    let freq = must(line_utils::count_word_frequencies(mk()), "lines", "utils_err")?;
    let mut wfreq: HashMap<String, usize> = HashMap::new();
    for l in &want {
        for w in l.split_whitespace() {
            *wfreq.entry(w.to_lowercase()).or_insert(0) += 1;
        }
    }
    ensure!(freq == wfreq, "lines", "count_word_frequencies", "word frequencies {:?} want {:?}", freq, wfreq);
    let an = must(line_utils::analyze_text(mk()), "lines", "utils_err")?;
    ensure!(
        an.total_lines == want.len()
            && an.total_bytes == want.iter().map(|l| l.len()).sum::<usize>()
            && an.total_chars == want.iter().map(|l| l.chars().count()).sum::<usize>()
            && an.total_words == want.iter().map(|l| l.split_whitespace().count()).sum::<usize>()
            && an.empty_lines == want.iter().filter(|l| l.trim().is_empty()).count()
            && an.max_line_length == want.iter().map(|l| l.len()).max().unwrap_or(0),
        "lines", "analyze_text", "analyze_text({:?}) = {:?}", c.s, an
    );
    Ok(if want.is_empty() { Outcome::trivial("no-lines") } else { Outcome::pass(&format!("{flags}/{}lines", want.len().min(3))) })
}

// LineSplitter: every strategy yields the fields of `line.split(delimiter)`
fn run_splitter(c: &Txt) -> R {
    let delims = [",", "\t", " ", "ab", ", "];
    let d = delims[(c.v % 5) as usize];
    let strat = c.v / 5;
    let mut sp = match strat {
        0 => LineSplitter::new(),
        1 => LineSplitter::new().with_optimized_strategy(),
        2 => LineSplitter::default().with_delimiter(d.to_string()),
        _ => LineSplitter::new().with_optimized_strategy(),
    };
    let want: Vec<String> = c.s.split(d).map(|s| s.to_string()).collect();
    // a reused splitter must not leak fields of the previous line
    if strat == 3 {
        let _ = sp.split("x,y\tz w", d);
    }
    let got = sp.split(&c.s, d).to_vec();
    let sname = ["simple", "optimized", "custom", "optimized-reused"][strat as usize];
    let trailing = c.s.is_empty() || c.s.ends_with(d);
    let class = format!("{}/{}", sname.trim_end_matches("-reused"), if trailing { "empty_last_field" } else { "non_empty_last_field" });
    ensure!(got == want, "split_fields", class, "LineSplitter[{sname}].split({:?}, {d:?}) = {:?}, line.split(delimiter) gives {:?}", c.s, got, want);
    Ok(Outcome::pass(&format!("{sname}/{}fields", want.len().min(3))))
}

// ---------------------------------------------------------------------------------------------
// case conversion

fn run_case(c: &Txt) -> R {
    let s = &c.s;
    // Unicode: character-wise std mappings (no context-sensitive characters in the alphabet)
    let lower: String = s.chars().flat_map(|ch| ch.to_lowercase()).collect();
    let upper: String = s.chars().flat_map(|ch| ch.to_uppercase()).collect();
    ensure!(unicode_utils::to_lowercase_unicode(s) == lower, "case", "to_lowercase_unicode", "to_lowercase_unicode({s:?}) = {:?} want {lower:?}", unicode_utils::to_lowercase_unicode(s));
    ensure!(unicode_utils::to_uppercase_unicode(s) == upper, "case", "to_uppercase_unicode", "to_uppercase_unicode({s:?}) = {:?} want {upper:?}", unicode_utils::to_uppercase_unicode(s));
    let folded = must(UnicodeProcessor::new().with_case_folding(true).process(s), "case", "process_err")?;
    ensure!(folded == lower, "case", "UnicodeProcessor/case_fold", "process({s:?}) = {folded:?} want {lower:?}");
    let folded = must(UnicodeProcessor::new().with_case_folding(true).with_normalization(true).process(s), "case", "process_err")?;
    ensure!(folded == lower, "case", "UnicodeProcessor/case_fold+normalize", "process({s:?}) = {folded:?} want {lower:?}");
    let same = must(UnicodeProcessor::default().process(s), "case", "process_err")?;
    ensure!(&same == s, "case", "UnicodeProcessor/identity", "process without options changed the string");
    // ASCII: only A-Z / a-z move, every other byte (incl. multi-byte sequences) is untouched
    let al: Vec<u8> = s.bytes().map(|b| if b.is_ascii_uppercase() { b + 32 } else { b }).collect();
    let au: Vec<u8> = s.bytes().map(|b| if b.is_ascii_lowercase() { b - 32 } else { b }).collect();
    let lc = if s.len() >= 8 { "len>=8" } else { "len<8" };
    let g = to_lowercase_ascii_bmi2(s);
    ensure!(g.as_bytes() == &al[..], "case", format!("to_lowercase_ascii/{lc}"), "to_lowercase_ascii_bmi2({s:?}) = {g:?}");
    let g = to_uppercase_ascii_bmi2(s);
    ensure!(g.as_bytes() == &au[..], "case", format!("to_uppercase_ascii/{lc}"), "to_uppercase_ascii_bmi2({s:?}) = {g:?}");
    Ok(if s.is_empty() { Outcome::trivial("empty") } else { Outcome::pass(lc) })
}

fn gen_txt(alpha: &'static [char], max_q: usize, max_t: usize, variants: u8) -> impl Fn(Tier, &mut dyn FnMut(Txt) -> bool) {
    move |tier, f| {
        for s in strings_over(alpha, tier.pick(max_q, max_t)) {
            for v in 0..variants {
                if !f(Txt { s: s.clone(), v }) {
                    return;
                }
            }
        }
    }
}

static LINE_ALPHA: [char; 5] = ['a', ' ', '\n', '\r', '\t'];
static WORD_ALPHA: [char; 6] = ['a', 'Z', '_', '-', ' ', 'é'];
static SPLIT_ALPHA: [char; 5] = ['a', 'b', ',', ' ', '\t'];
static CASE_ALPHA: [char; 9] = ['a', 'Z', '@', '[', '`', '{', 'é', 'É', 'ß'];

pub fn register(reg: &mut Registry) {
    reg.add(fam(
        "words[ws-alphabet]",
        "all strings of length <=6 (thorough <=7) over {'a',' ','\\n','\\r','\\t'}: words/WordIterator/word_count vs maximal runs of [A-Za-z0-9_]; is_word_char on all 256 bytes; is_word_boundary and word_at_position at every position 0..=len+1; find_word_boundaries",
        gen_txt(&LINE_ALPHA, 6, 7, 1),
        run_words,
    ));
    reg.add(fam(
        "words[word-alphabet]",
        "all strings of length <=5 (thorough <=6) over {'a','Z','_','-',' ','é'} (a two-byte character): same clauses",
        gen_txt(&WORD_ALPHA, 5, 6, 1),
        run_words,
    ));
    reg.add(fam(
        "LineProcessor",
        "all strings of length <=6 (thorough <=7) over {'a',' ','\\n','\\r','\\t'} x 8 flag combinations (preserve_line_endings, skip_empty_lines, trim_whitespace) x BufReader capacity {1,3,65536} (quick: capacity 1 and 65536 only for length <=4): process_lines (+early stop, statistics), count_lines, process_batches(1|2|5), split_lines_by, find_lines, utils::{extract_unique_lines, filter_by_length, count_word_frequencies, analyze_text}",
        |tier, f: &mut dyn FnMut(Txt) -> bool| {
            for s in strings_over(&LINE_ALPHA, tier.pick(6, 7)) {
                for v in 0..24u8 {
                    if tier == Tier::Quick && v >= 8 && s.chars().count() > 4 {
                        continue;
                    }
                    if !f(Txt { s: s.clone(), v }) {
                        return;
                    }
                }
            }
        },
        run_lines,
    ));
    reg.add(fam(
        "LineSplitter",
        "all strings of length <=5 (thorough <=6) over {'a','b',',',' ','\\t'} x delimiters {\",\",\"\\t\",\" \",\"ab\",\", \"} x strategies {simple, optimized, custom, optimized on a reused splitter}: fields equal line.split(delimiter)",
        gen_txt(&SPLIT_ALPHA, 5, 6, 20),
        run_splitter,
    ));
    reg.add(fam(
        "case",
        "all strings of length <=4 (thorough <=5) over {'a','Z','@','[','`','{','é','É','ß'} and the same strings embedded at offset 0..=8 of 'Qq' padding to total length {8,9,16,17} (BMI2 path needs >= 8 bytes): to_lowercase/to_uppercase_unicode, UnicodeProcessor case folding, to_lowercase/to_uppercase_ascii_bmi2 against character-wise / byte-wise definitions",
        |tier, f: &mut dyn FnMut(Txt) -> bool| {
            let small = strings_over(&CASE_ALPHA, tier.pick(4, 5));
            for s in &small {
                if !f(Txt { s: s.clone(), v: 0 }) {
                    return;
                }
            }
            for s in small.iter().filter(|s| s.chars().count() <= 3) {
                for total in [8usize, 9, 16, 17] {
                    for off in 0..=8usize {
                        let mut t: String = "Qq".chars().cycle().take(off).collect();
                        t.push_str(s);
                        while t.len() < total {
                            t.push(if t.len() % 2 == 0 { 'q' } else { 'Q' });
                        }
                        if !f(Txt { s: t, v: 1 }) {
                            return;
                        }
                    }
                }
            }
        },
        run_case,
    ));
}
