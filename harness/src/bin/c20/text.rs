//! words / word boundaries, LineProcessor / LineSplitter, ASCII and Unicode case conversion.

use crate::{ensure, fam, must, strings_over, R};
use serde::{Deserialize, Serialize};
use std::collections::{HashMap, HashSet};
use std::io::Cursor;
use zipora::string::bmi2::{to_lowercase_ascii_bmi2, to_uppercase_ascii_bmi2};
use zipora::string::utils::{line_utils, unicode_utils};
use zipora::string::{
    find_word_boundaries, is_whitespace, is_word_boundary, is_word_char, word_at_position, word_count, words, Bmi2StringProcessor, LineProcessor,
    LineProcessorConfig, LineSplitter, UnicodeProcessor, WordIterator,
};
use zverif::{Outcome, Registry, Tier};

#[derive(Serialize, Deserialize, Hash, Clone, Debug)]
pub struct Txt {
    s: String,
    v: u8,
}

// ---------------------------------------------------------------------------------------------
// words

fn ref_is_word(c: u8) -> bool {
    c.is_ascii_alphanumeric() || c == b'_'
}

fn run_words(c: &Txt) -> R {
    let t = c.s.as_bytes();
    let n = t.len();
    // "Splits text by word boundaries, yielding only word sequences": maximal runs of [a-zA-Z0-9_]
    let want: Vec<&[u8]> = t.split(|&b| !ref_is_word(b)).filter(|w| !w.is_empty()).collect();
    let got: Vec<&[u8]> = words(t).collect();
    ensure!(got == want, "words", "words", "words({:?}) = {:?} want {:?}", c.s, got, want);
    let got2: Vec<&[u8]> = WordIterator::new(t).collect();
    ensure!(got2 == want, "words", "WordIterator", "WordIterator differs");
    ensure!(word_count(t) == want.len(), "words", "word_count", "word_count({:?}) = {} want {}", c.s, word_count(t), want.len());
    for b in 0..=255u8 {
        ensure!(is_word_char(b) == ref_is_word(b), "words", "is_word_char", "is_word_char({b:#x}) = {}", is_word_char(b));
        // (audit) documented: "space, tab, newline, carriage return, form feed, vertical tab"
        ensure!(is_whitespace(b) == matches!(b, b' ' | b'\t' | b'\n' | b'\r' | 0x0C | 0x0B), "words", "is_whitespace", "is_whitespace({b:#x}) = {}", is_whitespace(b));
    }
    // (audit) the iterator driven by hand: after the last word it keeps returning None
    let mut wi = words(t);
    for w in &want {
        ensure!(wi.next() == Some(*w), "words", "WordIterator/next", "next() out of step on {:?}", c.s);
    }
    ensure!(wi.next().is_none() && wi.next().is_none(), "words", "WordIterator/fused", "next() after the last word of {:?} is Some", c.s);
    // boundaries: start, end, and every position between a word and a non-word character
    let boundary = |p: usize| -> bool { n == 0 || p == 0 || p >= n || ref_is_word(t[p - 1]) != ref_is_word(t[p]) };
    for p in 0..=n + 1 {
        ensure!(is_word_boundary(t, p) == boundary(p), "words", "is_word_boundary", "is_word_boundary({:?}, {p}) = {}", c.s, is_word_boundary(t, p));
    }
    let mut wb: Vec<usize> = (0..=n).filter(|&p| boundary(p)).collect();
    wb.dedup();
    let gb = find_word_boundaries(t);
    ensure!(gb == wb, "words", "find_word_boundaries", "find_word_boundaries({:?}) = {:?} want {:?}", c.s, gb, wb);
    // word_at_position: "the byte range of the word containing the position, or None"
    for p in 0..=n + 1 {
        let want = if p < n && ref_is_word(t[p]) {
            let mut s = p;
            while s > 0 && ref_is_word(t[s - 1]) {
                s -= 1;
            }
            let mut e = p;
            while e < n && ref_is_word(t[e]) {
                e += 1;
            }
            Some((s, e))
        } else {
            None
        };
        ensure!(word_at_position(t, p) == want, "words", "word_at_position", "word_at_position({:?}, {p}) = {:?} want {:?}", c.s, word_at_position(t, p), want);
    }
    Ok(if want.is_empty() { Outcome::trivial("no-words") } else { Outcome::pass(&format!("{}words", want.len().min(3))) })
}

// ---------------------------------------------------------------------------------------------
// lines

/// the straightforward definition: pieces terminated by '\n' (a final piece without '\n' counts if non-empty);
/// unless endings are preserved the '\n' and one preceding '\r' are removed ("\r\n" is one ending, a lone "\r" is content);
/// then optional trimming, then optional dropping of empty lines
fn ref_lines(text: &str, cfg: &LineProcessorConfig) -> Vec<String> {
    let mut out = Vec::new();
    for raw in text.split_inclusive('\n') {
        let mut l = raw.to_string();
        if !cfg.preserve_line_endings && l.ends_with('\n') {
            l.pop();
            if l.ends_with('\r') {
                l.pop();
            }
        }
        let l = if cfg.trim_whitespace { l.trim().to_string() } else { l };
        if cfg.skip_empty_lines && l.is_empty() {
            continue;
        }
        out.push(l);
    }
    out
}

fn cfg_of(v: u8) -> LineProcessorConfig {
    // (audit) v 24..=27: LineProcessor::new (default configuration) and the three presets
    match v {
        24 => return LineProcessorConfig::default(),
        25 => return LineProcessorConfig::performance_optimized(),
        26 => return LineProcessorConfig::memory_optimized(),
        27 => return LineProcessorConfig::secure(),
        _ => {}
    }
    LineProcessorConfig {
        buffer_size: [1usize, 3, 64 * 1024][(v / 8) as usize % 3],
        max_line_length: 1 << 20,
        preserve_line_endings: v & 1 != 0,
        skip_empty_lines: v & 2 != 0,
        trim_whitespace: v & 4 != 0,
        use_secure_memory: false,
    }
}

fn run_lines(c: &Txt) -> R {
    let cfg = cfg_of(c.v);
    let flags = format!("preserve={},skip_empty={},trim={}", cfg.preserve_line_endings, cfg.skip_empty_lines, cfg.trim_whitespace);
    let want = ref_lines(&c.s, &cfg);
    let mk = || if c.v == 24 { LineProcessor::new(Cursor::new(c.s.clone().into_bytes())) } else { LineProcessor::with_config(Cursor::new(c.s.clone().into_bytes()), cfg.clone()) };
    if c.v >= 24 {
        let st = mk().get_statistics();
        ensure!(st.lines_processed == 0 && st.bytes_processed == 0 && st.buffer_size == cfg.buffer_size && st.max_line_length == cfg.max_line_length, "lines", "statistics/fresh", "statistics of a fresh processor: {:?}", st);
    }
    // process_lines
    let mut got = Vec::new();
    let mut p = mk();
    let n = must(p.process_lines(|l| {
        got.push(l.to_string());
        Ok(true)
    }), "lines", "process_lines_err")?;
    ensure!(got == want, "lines", format!("process_lines/{flags}"), "process_lines({:?}) [{flags}] yields {:?}, want {:?}", c.s, got, want);
    ensure!(n == want.len(), "lines", format!("process_lines_count/{flags}"), "process_lines returned {n} for {} lines", want.len());
    let st = p.get_statistics();
    let physical = c.s.split_inclusive('\n').count();
    ensure!(st.lines_processed == physical && st.bytes_processed == c.s.len(), "lines", "statistics", "statistics: {} lines / {} bytes for {:?}", st.lines_processed, st.bytes_processed, c.s);
    // early stop after the first line
    if !want.is_empty() {
        let mut first = Vec::new();
        let n = must(mk().process_lines(|l| {
            first.push(l.to_string());
            Ok(false)
        }), "lines", "process_lines_err")?;
        let _ = n;
        ensure!(first == want[..1], "lines", format!("process_lines_stop/{flags}"), "handler returning false: saw {:?}, returned {n}", first);
    }
    // count_lines: the number of lines the processor delivers
    let cnt = must(mk().count_lines(), "lines", "count_lines_err")?;
    let ws_only = cfg.skip_empty_lines && !cfg.trim_whitespace && want.iter().any(|l| !l.is_empty() && l.trim().is_empty());
    ensure!(cnt == want.len(), "count_lines", if ws_only { "skip_empty_without_trim/whitespace_only_line".to_string() } else { format!("other/{flags}") }, "count_lines({:?}) [{flags}] = {cnt}, process_lines delivers {} lines", c.s, want.len());
    // batches
    for bs in [1usize, 2, 5] {
        let mut all = Vec::new();
        let mut sizes = Vec::new();
        let n = must(mk().process_batches(bs, |b| {
            sizes.push(b.len());
            all.extend_from_slice(b);
            Ok(true)
        }), "lines", "process_batches_err")?;
        ensure!(all == want && n == want.len(), "lines", format!("process_batches/{flags}"), "process_batches({bs}) yields {:?} (returned {n}), want {:?}", all, want);
        ensure!(sizes.iter().rev().skip(1).all(|&s| s == bs) && sizes.iter().all(|&s| s >= 1 && s <= bs), "lines", "process_batches/sizes", "batch sizes {:?} for batch_size {bs}", sizes);
    }
    // fields
    let mut fields = Vec::new();
    let nf = must(mk().split_lines_by(" ", |f, ln, fnum| {
        fields.push((f.to_string(), ln, fnum));
        Ok(true)
    }), "lines", "split_lines_by_err")?;
    let mut wf = Vec::new();
    for (i, l) in want.iter().enumerate() {
        for (j, f) in l.split(' ').enumerate() {
            wf.push((f.to_string(), i + 1, j));
        }
    }
    ensure!(fields == wf && nf == wf.len(), "lines", format!("split_lines_by/{flags}"), "split_lines_by(\" \") on {:?} yields {:?} want {:?}", c.s, fields, wf);
    // find_lines (1-based numbers of the delivered lines)
    let found = must(mk().find_lines(|l| l.contains('a')), "lines", "find_lines_err")?;
    let wfound: Vec<(usize, String)> = want.iter().enumerate().filter(|(_, l)| l.contains('a')).map(|(i, l)| (i + 1, l.clone())).collect();
    ensure!(found == wfound, "lines", format!("find_lines/{flags}"), "find_lines on {:?} = {:?} want {:?}", c.s, found, wfound);
    // utils
    let uniq: HashSet<String> = must(line_utils::extract_unique_lines(mk()), "lines", "utils_err")?.into_iter().collect();
    ensure!(uniq == want.iter().cloned().collect::<HashSet<_>>(), "lines", "extract_unique_lines", "unique lines differ");
    let fl = must(line_utils::filter_by_length(mk(), 1, 2), "lines", "utils_err")?;
    ensure!(fl == want.iter().filter(|l| (1..=2).contains(&l.len())).cloned().collect::<Vec<_>>(), "lines", "filter_by_length", "filter_by_length(1,2) = {:?}", fl);
    let freq = must(line_utils::count_word_frequencies(mk()), "lines", "utils_err")?;
    let mut wfreq: HashMap<String, usize> = HashMap::new();
    for l in &want {
        for w in l.split_whitespace() {
            *wfreq.entry(w.to_lowercase()).or_insert(0) += 1;
        }
    }
    ensure!(freq == wfreq, "lines", "count_word_frequencies", "word frequencies {:?} want {:?}", freq, wfreq);
    let an = must(line_utils::analyze_text(mk()), "lines", "utils_err")?;
    ensure!(
        an.total_lines == want.len()
            && an.total_bytes == want.iter().map(|l| l.len()).sum::<usize>()
            && an.total_chars == want.iter().map(|l| l.chars().count()).sum::<usize>()
            && an.total_words == want.iter().map(|l| l.split_whitespace().count()).sum::<usize>()
            && an.empty_lines == want.iter().filter(|l| l.trim().is_empty()).count()
            && an.max_line_length == want.iter().map(|l| l.len()).max().unwrap_or(0),
        "lines", "analyze_text", "analyze_text({:?}) = {:?}", c.s, an
    );
    Ok(if want.is_empty() { Outcome::trivial("no-lines") } else { Outcome::pass(&format!("{flags}/{}lines", want.len().min(3))) })
}

// LineSplitter: every strategy yields the fields of `line.split(delimiter)`
fn run_splitter(c: &Txt) -> R {
    let delims = [",", "\t", " ", "ab", ", "];
    let d = delims[(c.v % 5) as usize];
    let strat = c.v / 5;
    let mut sp = match strat {
        0 | 4 => LineSplitter::new(),
        1 => LineSplitter::new().with_optimized_strategy(),
        2 | 5 => LineSplitter::default().with_delimiter(d.to_string()),
        _ => LineSplitter::new().with_optimized_strategy(),
    };
    let want: Vec<String> = c.s.split(d).map(|s| s.to_string()).collect();
    // a reused splitter must not leak fields of the previous line
    if strat == 3 {
        let _ = sp.split("x,y\tz w", d);
    }
    if strat >= 4 {
        // (audit) a line with more fields than the next one, then the same line twice
        let _ = sp.split("x,y\tz w,ab, q\u{e9}", d);
        let _ = sp.split(&c.s, d);
    }
    let got = sp.split(&c.s, d).to_vec();
    let sname = ["simple", "optimized", "custom", "optimized-reused", "simple-reused", "custom-reused"][strat as usize];
    let trailing = c.s.is_empty() || c.s.ends_with(d);
    let class = format!("{}/{}", sname.trim_end_matches("-reused"), if trailing { "empty_last_field" } else { "non_empty_last_field" });
    ensure!(got == want, "split_fields", class, "LineSplitter[{sname}].split({:?}, {d:?}) = {:?}, line.split(delimiter) gives {:?}", c.s, got, want);
    Ok(Outcome::pass(&format!("{sname}/{}fields", want.len().min(3))))
}

// ---------------------------------------------------------------------------------------------
// case conversion

fn run_case(c: &Txt) -> R {
    let s = &c.s;
    // Unicode: character-wise std mappings (no context-sensitive characters in the alphabet)
    let lower: String = s.chars().flat_map(|ch| ch.to_lowercase()).collect();
    let upper: String = s.chars().flat_map(|ch| ch.to_uppercase()).collect();
    ensure!(unicode_utils::to_lowercase_unicode(s) == lower, "case", "to_lowercase_unicode", "to_lowercase_unicode({s:?}) = {:?} want {lower:?}", unicode_utils::to_lowercase_unicode(s));
    ensure!(unicode_utils::to_uppercase_unicode(s) == upper, "case", "to_uppercase_unicode", "to_uppercase_unicode({s:?}) = {:?} want {upper:?}", unicode_utils::to_uppercase_unicode(s));
    let folded = must(UnicodeProcessor::new().with_case_folding(true).process(s), "case", "process_err")?;
    ensure!(folded == lower, "case", "UnicodeProcessor/case_fold", "process({s:?}) = {folded:?} want {lower:?}");
    let folded = must(UnicodeProcessor::new().with_case_folding(true).with_normalization(true).process(s), "case", "process_err")?;
    ensure!(folded == lower, "case", "UnicodeProcessor/case_fold+normalize", "process({s:?}) = {folded:?} want {lower:?}");
    // (audit) one processor object for several strings
    let mut up = UnicodeProcessor::new().with_normalization(true).with_case_folding(true);
    let first = must(up.process("\u{c9}QqZ\u{df} longer than the next input"), "case", "process_err")?;
    let second = must(up.process(s), "case", "process_err")?;
    let third = must(up.process(s), "case", "process_err")?;
    ensure!(first == "\u{e9}qqz\u{df} longer than the next input" && second == lower && third == lower, "case", "UnicodeProcessor/reused", "a reused processor gives {second:?} / {third:?} for {s:?}, want {lower:?}");
    let same = must(UnicodeProcessor::default().process(s), "case", "process_err")?;
    ensure!(&same == s, "case", "UnicodeProcessor/identity", "process without options changed the string");
    // ASCII: only A-Z / a-z move, every other byte (incl. multi-byte sequences) is untouched
    let al: Vec<u8> = s.bytes().map(|b| if b.is_ascii_uppercase() { b + 32 } else { b }).collect();
    let au: Vec<u8> = s.bytes().map(|b| if b.is_ascii_lowercase() { b - 32 } else { b }).collect();
    let lc = if s.len() >= 8 { "len>=8" } else { "len<8" };
    let g = to_lowercase_ascii_bmi2(s);
    ensure!(g.as_bytes() == &al[..], "case", format!("to_lowercase_ascii/{lc}"), "to_lowercase_ascii_bmi2({s:?}) = {g:?}");
    let g = to_uppercase_ascii_bmi2(s);
    ensure!(g.as_bytes() == &au[..], "case", format!("to_uppercase_ascii/{lc}"), "to_uppercase_ascii_bmi2({s:?}) = {g:?}");
    // (audit) the same through an own processor object, used twice
    let p = Bmi2StringProcessor::new();
    for _ in 0..2 {
        ensure!(p.to_lowercase_ascii_bmi2(s).as_bytes() == &al[..] && p.to_uppercase_ascii_bmi2(s).as_bytes() == &au[..], "case", format!("Bmi2StringProcessor/{lc}"), "Bmi2StringProcessor case conversion of {s:?} differs");
    }
    Ok(if s.is_empty() { Outcome::trivial("empty") } else { Outcome::pass(lc) })
}

fn gen_txt(alpha: &'static [char], max_q: usize, max_t: usize, variants: u8) -> impl Fn(Tier, &mut dyn FnMut(Txt) -> bool) {
    move |tier, f| {
        for s in strings_over(alpha, tier.pick(max_q, max_t)) {
            for v in 0..variants {
                if !f(Txt { s: s.clone(), v }) {
                    return;
                }
            }
        }
    }
}


// =============================================================================================
// Coverage audit: one LineProcessor used for several calls, the line-length limit, lines around the buffer size,
// every ASCII byte at every position of the 8-byte case-conversion blocks

#[derive(Serialize, Deserialize, Hash, Clone, Debug)]
pub struct LineHist {
    s: String,
    /// flag bits as in `cfg_of` (buffer of 1 byte): 1 preserve_line_endings, 2 skip_empty_lines, 4 trim_whitespace
    v: u8,
    /// 0 process_lines stopping at the 1st delivered line; 1 ... at the 2nd; 2 process_lines to the end; 3 count_lines;
    /// 4 process_batches(2) to the end; 5 process_batches(2) stopping at the 1st batch; 6 process_batches(1) stopping at the
    /// 2nd batch; 7 find_lines(contains 'a'); 8 split_lines_by(" ") stopping at the 2nd field
    ops: Vec<u8>,
}
const LH_OPS: [&str; 9] = ["process_lines(stop@1)", "process_lines(stop@2)", "process_lines", "count_lines", "process_batches(2)", "process_batches(2,stop@1)", "process_batches(1,stop@2)", "find_lines", "split_lines_by(stop@2)"];

/// what one physical line is delivered as (None: skipped)
fn deliver(raw: &str, cfg: &LineProcessorConfig) -> Option<String> {
    let mut l = raw.to_string();
    if !cfg.preserve_line_endings && l.ends_with('\n') {
        l.pop();
        if l.ends_with('\r') {
            l.pop();
        }
    }
    let l = if cfg.trim_whitespace { l.trim().to_string() } else { l };
    if cfg.skip_empty_lines && l.is_empty() {
        None
    } else {
        Some(l)
    }
}

fn run_line_hist(c: &LineHist) -> R {
    let cfg = cfg_of(c.v);
    let phys: Vec<&str> = c.s.split_inclusive('\n').collect();
    let mut at = 0usize; // model: number of physical lines consumed
    let mut p = LineProcessor::with_config(Cursor::new(c.s.clone().into_bytes()), cfg.clone());
    let mut trace = String::new();
    for (step, &op) in c.ops.iter().enumerate() {
        let name = LH_OPS[op as usize];
        trace.push_str(name);
        trace.push(' ');
        let pos = if step == 0 { "fresh" } else { "continued" };
        match op {
            0 | 1 | 2 => {
                let stop_at = if op == 2 { usize::MAX } else { op as usize + 1 };
                // model
                let mut want: Vec<String> = Vec::new();
                while at < phys.len() {
                    let d = deliver(phys[at], &cfg);
                    at += 1;
                    if let Some(l) = d {
                        want.push(l);
                        if want.len() == stop_at {
                            break;
                        }
                    }
                }
                let mut got: Vec<String> = Vec::new();
                let n = must(p.process_lines(|l| {
                    got.push(l.to_string());
                    Ok(got.len() != stop_at)
                }), "history", "process_lines_err")?;
                ensure!(got == want, "history", format!("process_lines/{pos}"), "[{trace}] on {:?}: handler saw {:?}, want {:?}", c.s, got, want);
                if want.len() < stop_at {
                    ensure!(n == want.len(), "history", format!("process_lines_count/{pos}"), "[{trace}] on {:?}: returned {n} for {} delivered lines", c.s, want.len());
                }
            }
            3 => {
                let mut want = 0;
                while at < phys.len() {
                    if deliver(phys[at], &cfg).is_some() {
                        want += 1;
                    }
                    at += 1;
                }
                let n = must(p.count_lines(), "history", "count_lines_err")?;
                ensure!(n == want, "history", format!("count_lines/{pos}"), "[{trace}] on {:?}: count_lines = {n}, {want} lines are left", c.s);
            }
            4 | 5 | 6 => {
                let (bs, stop_at) = match op {
                    4 => (2usize, usize::MAX),
                    5 => (2, 1),
                    _ => (1, 2),
                };
                // model: whole batches as they fill up; the handler's `false` ends the call; a last partial batch is delivered at the end
                let mut want: Vec<Vec<String>> = Vec::new();
                let mut batch: Vec<String> = Vec::new();
                let mut stopped = false;
                while at < phys.len() {
                    let d = deliver(phys[at], &cfg);
                    at += 1;
                    if let Some(l) = d {
                        batch.push(l);
                        if batch.len() == bs {
                            want.push(std::mem::take(&mut batch));
                            if want.len() == stop_at {
                                stopped = true;
                                break;
                            }
                        }
                    }
                }
                if !stopped && !batch.is_empty() {
                    want.push(batch);
                }
                let mut got: Vec<Vec<String>> = Vec::new();
                let n = must(p.process_batches(bs, |b| {
                    got.push(b.to_vec());
                    Ok(got.len() != stop_at)
                }), "history", "process_batches_err")?;
                if got != want {
                    let again = stopped && got.len() > want.len() && got[..want.len()] == want[..];
                    let class = if again { "process_batches/handler_called_again_after_it_returned_false".to_string() } else { format!("process_batches/{pos}") };
                    ensure!(false, "history", class, "[{trace}] on {:?}: the handler was called with {:?}, want {:?}", c.s, got, want);
                }
                if !stopped && want.len() < stop_at {
                    ensure!(n == want.iter().map(|b| b.len()).sum::<usize>(), "history", format!("process_batches_count/{pos}"), "[{trace}] on {:?}: returned {n}", c.s);
                }
            }
            7 => {
                let mut want: Vec<(usize, String)> = Vec::new();
                let mut k = 0;
                while at < phys.len() {
                    if let Some(l) = deliver(phys[at], &cfg) {
                        k += 1;
                        if l.contains('a') {
                            want.push((k, l));
                        }
                    }
                    at += 1;
                }
                let got = must(p.find_lines(|l| l.contains('a')), "history", "find_lines_err")?;
                ensure!(got == want, "history", format!("find_lines/{pos}"), "[{trace}] on {:?}: find_lines = {:?}, want {:?}", c.s, got, want);
            }
            _ => {
                let mut want: Vec<(String, usize, usize)> = Vec::new();
                let mut k = 0;
                'outer: while at < phys.len() {
                    let d = deliver(phys[at], &cfg);
                    at += 1;
                    if let Some(l) = d {
                        k += 1;
                        for (j, fld) in l.split(' ').enumerate() {
                            want.push((fld.to_string(), k, j));
                            if want.len() == 2 {
                                break 'outer;
                            }
                        }
                    }
                }
                let mut got: Vec<(String, usize, usize)> = Vec::new();
                must(p.split_lines_by(" ", |fld, ln, fnum| {
                    got.push((fld.to_string(), ln, fnum));
                    Ok(got.len() != 2)
                }), "history", "split_lines_by_err")?;
                ensure!(got == want, "history", format!("split_lines_by/{pos}"), "[{trace}] on {:?}: fields {:?}, want {:?}", c.s, got, want);
            }
        }
        let st = p.get_statistics();
        let bytes: usize = phys[..at].iter().map(|l| l.len()).sum();
        ensure!(st.lines_processed == at && st.bytes_processed == bytes, "history", format!("statistics/{pos}"), "[{trace}] on {:?}: statistics say {} lines / {} bytes, consumed {at} lines / {bytes} bytes", c.s, st.lines_processed, st.bytes_processed);
    }
    // whatever is left is delivered by a final process_lines
    let want: Vec<String> = phys[at..].iter().filter_map(|r| deliver(r, &cfg)).collect();
    let mut got = Vec::new();
    must(p.process_lines(|l| {
        got.push(l.to_string());
        Ok(true)
    }), "history", "process_lines_err")?;
    ensure!(got == want, "history", "rest", "[{trace}] on {:?}: the rest is {:?}, want {:?}", c.s, got, want);
    Ok(if c.ops.is_empty() { Outcome::trivial("no-ops") } else { Outcome::pass(&format!("{}ops/{}", c.ops.len(), if at >= phys.len() { "consumed_all" } else { "stopped_inside" })) })
}

/// max_line_length: a line whose content (without its ending) is longer must be refused with Err, the lines before it are
/// delivered; a line that fits with its ending is delivered.  (Content fits but content+ending does not: not specified,
/// such texts are skipped.)
fn run_line_limit(c: &Txt) -> R {
    let max = if c.v & 1 == 0 { 1usize } else { 3 };
    let cfg = LineProcessorConfig { buffer_size: 2, max_line_length: max, preserve_line_endings: c.v & 2 != 0, skip_empty_lines: false, trim_whitespace: false, use_secure_memory: false };
    let mut want: Vec<String> = Vec::new();
    let mut want_err = false;
    for raw in c.s.split_inclusive('\n') {
        let content = raw.strip_suffix('\n').map(|x| x.strip_suffix('\r').unwrap_or(x)).unwrap_or(raw);
        if raw.len() <= max {
            want.push(deliver(raw, &cfg).unwrap());
        } else if content.len() > max {
            want_err = true;
            break;
        } else {
            return Ok(Outcome::skip("a line whose content fits max_line_length but not together with its line ending"));
        }
    }
    let mut got = Vec::new();
    let r = LineProcessor::with_config(Cursor::new(c.s.clone().into_bytes()), cfg.clone()).process_lines(|l| {
        got.push(l.to_string());
        Ok(true)
    });
    ensure!(r.is_err() == want_err, "lines", if want_err { "max_line_length/too_long_accepted" } else { "max_line_length/fitting_refused" }, "process_lines({:?}) with max_line_length {max}: {:?}", c.s, r.as_ref().map_err(|e| e.to_string()));
    ensure!(got == want, "lines", "max_line_length/lines_before", "process_lines({:?}) with max_line_length {max} delivered {:?}, want {:?}", c.s, got, want);
    let r = LineProcessor::with_config(Cursor::new(c.s.clone().into_bytes()), cfg).count_lines();
    ensure!(r.is_err() == want_err && (want_err || r.as_ref().ok() == Some(&want.len())), "lines", "max_line_length/count_lines", "count_lines({:?}) with max_line_length {max}: {:?}", c.s, r.map_err(|e| e.to_string()));
    Ok(Outcome::pass(if want_err { "refused" } else { "all_fit" }))
}

#[derive(Serialize, Deserialize, Hash, Clone, Debug)]
pub struct LineGrid {
    /// 0 = buffer_size 16, 1 = buffer_size 64, 2 = memory_optimized preset (16 KiB), 3 = default (64 KiB, LineProcessor::new)
    cfg: u8,
    /// length of the long line = buffer size + delta - 3
    delta: usize,
    /// 0 = long line first, 1 = after an empty line, 2 = after the line " x"
    lead: u8,
    /// 0 = LF, 1 = no final LF, 2 = CRLF
    style: u8,
    /// flag bits: 1 preserve, 2 skip empty, 4 trim (not for the presets)
    flags: u8,
}

fn run_line_grid(c: &LineGrid) -> R {
    let mut cfg = match c.cfg {
        0 | 1 => {
            let mut k = cfg_of(c.flags & 7);
            k.buffer_size = if c.cfg == 0 { 16 } else { 64 };
            k
        }
        2 => LineProcessorConfig::memory_optimized(),
        _ => LineProcessorConfig::default(),
    };
    if c.cfg >= 2 {
        cfg.preserve_line_endings = c.flags & 1 != 0;
    }
    let long = cfg.buffer_size + c.delta - 3;
    let mut lines: Vec<String> = Vec::new();
    match c.lead {
        1 => lines.push(String::new()),
        2 => lines.push(" x".to_string()),
        _ => {}
    }
    lines.push("a".repeat(long));
    lines.extend(["b ", "", "cc"].iter().map(|s| s.to_string()));
    let mut text = String::new();
    for (i, l) in lines.iter().enumerate() {
        text.push_str(l);
        match c.style {
            1 if i + 1 == lines.len() => {}
            2 => text.push_str("\r\n"),
            _ => text.push('\n'),
        }
    }
    let want = ref_lines(&text, &cfg);
    let mk = || LineProcessor::with_config(Cursor::new(text.clone().into_bytes()), cfg.clone());
    let what = format!("buffer {} long line {} lead {} style {} flags {}", cfg.buffer_size, long, c.lead, c.style, c.flags);
    let lens = |v: &[String]| v.iter().map(|l| l.len()).collect::<Vec<_>>();
    let mut got = Vec::new();
    let mut p = mk();
    let n = must(p.process_lines(|l| {
        got.push(l.to_string());
        Ok(true)
    }), "lines", "process_lines_err")?;
    ensure!(got == want && n == want.len(), "lines", "grid/process_lines", "{what}: delivered line lengths {:?}, want {:?}", lens(&got), lens(&want));
    let st = p.get_statistics();
    ensure!(st.bytes_processed == text.len() && st.lines_processed == text.split_inclusive('\n').count(), "lines", "grid/statistics", "{what}: statistics {:?}", st);
    ensure!(must(mk().count_lines(), "lines", "count_lines_err")? == want.len(), "count_lines", "grid", "{what}: count_lines differs");
    let mut all = Vec::new();
    must(mk().process_batches(2, |b| {
        all.extend_from_slice(b);
        Ok(true)
    }), "lines", "process_batches_err")?;
    ensure!(all == want, "lines", "grid/process_batches", "{what}: batches deliver line lengths {:?}, want {:?}", lens(&all), lens(&want));
    if c.cfg == 3 && c.flags == 0 {
        let mut got = Vec::new();
        must(LineProcessor::new(Cursor::new(text.clone().into_bytes())).process_lines(|l| {
            got.push(l.to_string());
            Ok(true)
        }), "lines", "process_lines_err")?;
        ensure!(got == want, "lines", "grid/new", "{what}: LineProcessor::new delivers line lengths {:?}", lens(&got));
    }
    Ok(Outcome::pass(&format!("cfg{}/long{}buffer", c.cfg, if long < cfg.buffer_size { "<" } else if long == cfg.buffer_size { "=" } else { ">" })))
}

/// every 7-bit byte and some multi-byte characters at every position of a 17-byte string (two 8-byte blocks + remainder)
fn gen_case_grid(_t: Tier, f: &mut dyn FnMut(Txt) -> bool) {
    let mut chars: Vec<char> = (0u8..128).map(|b| b as char).collect();
    chars.extend(['\u{e9}', '\u{c9}', '\u{df}', '\u{141}', '\u{20ac}', '\u{ff21}', '\u{10400}', '\u{10FFFF}']);
    for ch in chars {
        for off in 0..=16usize {
            let mut t: String = "Qq".chars().cycle().take(off).collect();
            t.push(ch);
            while t.len() < 17 {
                t.push(if t.len() % 2 == 0 { 'q' } else { 'Q' });
            }
            if !f(Txt { s: t, v: 2 }) {
                return;
            }
        }
    }
}

static LIMIT_ALPHA: [char; 3] = ['a', '\n', '\r'];
static LINE_ALPHA: [char; 5] = ['a', ' ', '\n', '\r', '\t'];
static WORD_ALPHA: [char; 7] = ['a', 'Z', '_', '-', ' ', 'é', '0'];
static SPLIT_ALPHA: [char; 6] = ['a', 'b', ',', ' ', '\t', 'é'];
static CASE_ALPHA: [char; 11] = ['a', 'Z', '@', '[', '`', '{', 'é', 'É', 'ß', 'A', 'z'];

pub fn register(reg: &mut Registry) {
    reg.add(fam(
        "words[ws-alphabet]",
        "all strings of length <=6 (thorough <=7) over {'a',' ','\\n','\\r','\\t'}: words/WordIterator/word_count vs maximal runs of [A-Za-z0-9_]; is_word_char on all 256 bytes; is_word_boundary and word_at_position at every position 0..=len+1; find_word_boundaries",
        gen_txt(&LINE_ALPHA, 6, 7, 1),
        run_words,
    ));
    reg.add(fam(
        "words[word-alphabet]",
        "all strings of length <=5 (thorough <=6) over {'a','Z','_','-',' ','é','0'} (a two-byte character, a digit): same clauses, is_whitespace on all 256 bytes, the iterator stays exhausted",
        gen_txt(&WORD_ALPHA, 5, 6, 1),
        run_words,
    ));
    reg.add(fam(
        "LineProcessor",
        "all strings of length <=6 (thorough <=7) over {'a',' ','\\n','\\r','\\t'} x 8 flag combinations (preserve_line_endings, skip_empty_lines, trim_whitespace) x BufReader capacity {1,3,65536} (quick: capacity 65536 only for length <=4) + LineProcessor::new and the presets performance_optimized / memory_optimized (length <=5) / secure (length <=3): process_lines (+early stop, statistics), count_lines, process_batches(1|2|5), split_lines_by, find_lines, utils::{extract_unique_lines, filter_by_length, count_word_frequencies, analyze_text}",
        |tier, f: &mut dyn FnMut(Txt) -> bool| {
            for s in strings_over(&LINE_ALPHA, tier.pick(6, 7)) {
                for v in 0..28u8 {
                    // quick: the 64 KiB buffer only for length <= 4 (buffers of 1 and 3 bytes for every length: a line that ends
                    // exactly at the end of a buffer, CR and LF in different buffers); the secure preset (a memory pool per
                    // processor) only for length <= 3
                    if tier == Tier::Quick && (16..24).contains(&v) && s.chars().count() > 4 {
                        continue;
                    }
                    if v >= 24 && s.chars().count() > if v == 27 { 3 } else { 5 } {
                        continue;
                    }
                    if !f(Txt { s: s.clone(), v }) {
                        return;
                    }
                }
            }
        },
        run_lines,
    ));
    reg.add(fam(
        "LineSplitter",
        "all strings of length <=5 (thorough <=6) over {'a','b',',',' ','\\t','é'} x delimiters {\",\",\"\\t\",\" \",\"ab\",\", \"} x strategies {simple, optimized, custom, and each of the three on a splitter that was used for a longer line (and the same line) before}: fields equal line.split(delimiter)",
        gen_txt(&SPLIT_ALPHA, 5, 6, 30),
        run_splitter,
    ));
    reg.add(fam(
        "case",
        "all strings of length <=4 (thorough <=5) over {'a','Z','@','[','`','{','é','É','ß','A','z'} (both ends of both letter ranges and their neighbours) and the same strings embedded at offset 0..=8 of 'Qq' padding to total length {8,9,16,17} (BMI2 path needs >= 8 bytes): to_lowercase/to_uppercase_unicode, UnicodeProcessor case folding, to_lowercase/to_uppercase_ascii_bmi2 (global functions and an own Bmi2StringProcessor used twice) against character-wise / byte-wise definitions; one UnicodeProcessor reused for several strings",
        |tier, f: &mut dyn FnMut(Txt) -> bool| {
            let small = strings_over(&CASE_ALPHA, tier.pick(4, 5));
            for s in &small {
                if !f(Txt { s: s.clone(), v: 0 }) {
                    return;
                }
            }
            for s in small.iter().filter(|s| s.chars().count() <= 3) {
                for total in [8usize, 9, 16, 17] {
                    for off in 0..=8usize {
                        let mut t: String = "Qq".chars().cycle().take(off).collect();
                        t.push_str(s);
                        while t.len() < total {
                            t.push(if t.len() % 2 == 0 { 'q' } else { 'Q' });
                        }
                        if !f(Txt { s: t, v: 1 }) {
                            return;
                        }
                    }
                }
            }
        },
        run_case,
    ));
    reg.add(fam(
        "case/grid",
        "each of the 128 seven-bit characters and 8 multi-byte characters (2, 3 and 4 bytes; with and without case mappings) at every offset 0..=16 of a 17-byte string of 'Q'/'q' padding (two 8-byte blocks of the BMI2 path and a remainder): same clauses as case",
        gen_case_grid,
        run_case,
    ));
    reg.add(fam(
        "LineProcessor/history",
        "ONE processor per history (buffer of 1 byte): all strings of length <=4 (thorough <=5) over {'a',' ','\\n','\\r','\\t'} x all 8 flag sets (preserve_line_endings, skip_empty_lines, trim_whitespace) x every sequence of <=2 operations (thorough: also 3 operations for strings of length <=3) over {process_lines stopping at the 1st / 2nd delivered line, process_lines, count_lines, process_batches(2), process_batches(2) stopping at the 1st batch, process_batches(1) stopping at the 2nd batch, find_lines, split_lines_by stopping at the 2nd field} against a cursor model over the physical lines: what each call delivers, no handler call after the handler returned false, get_statistics after every call, and a final process_lines delivers exactly the rest",
        |tier, f: &mut dyn FnMut(LineHist) -> bool| {
            let ops: Vec<u8> = (0..9).collect();
            let flag_sets: Vec<u8> = (0..8).collect();
            for s in strings_over(&LINE_ALPHA, tier.pick(4, 5)) {
                let depth = if tier == Tier::Thorough && s.chars().count() <= 3 { 3 } else { 2 };
                for &v in &flag_sets {
                    if !zverif::util::all_strings(&ops, depth, &mut |o| f(LineHist { s: s.clone(), v, ops: o.to_vec() })) {
                        return;
                    }
                }
            }
        },
        run_line_hist,
    ));
    reg.add(fam(
        "LineProcessor/limits",
        "all strings of length <=6 (thorough <=8) over {'a','\\n','\\r'} x max_line_length {1,3} x preserve_line_endings {off,on} (buffer of 2 bytes): a line longer than max_line_length is refused with Err after the lines before it were delivered, lines that fit are delivered (process_lines, count_lines)",
        gen_txt(&LIMIT_ALPHA, 6, 8, 4),
        run_line_limit,
    ));
    reg.add(fam(
        "LineProcessor/grid",
        "a line of buffer_size-3 ..= buffer_size+3 bytes followed by the lines 'b ', '', 'cc' x buffer {16, 64 (8 flag sets), memory_optimized preset 16 KiB, default 64 KiB via with_config and LineProcessor::new (preserve off/on)} x {first line, after an empty line, after ' x'} x {LF, no final LF, CRLF}: process_lines, statistics, count_lines, process_batches(2)",
        |_t, f: &mut dyn FnMut(LineGrid) -> bool| {
            for cfg in 0..4u8 {
                for delta in 0..=6usize {
                    for lead in 0..3u8 {
                        for style in 0..3u8 {
                            let flags: Vec<u8> = if cfg < 2 { (0..8).collect() } else { vec![0, 1] };
                            for flags in flags {
                                if !f(LineGrid { cfg, delta, lead, style, flags }) {
                                    return;
                                }
                            }
                        }
                    }
                }
            }
        },
        run_line_grid,
    ));
}
