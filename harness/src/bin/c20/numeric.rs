//! decimal_strcmp(_with_sign) / realnum_strcmp(_with_sign) against an exact decimal comparison.
//!
//! Validity: the reference grammar is `[+-]?[0-9]+` (decimal) resp. `[+-]?[0-9]+(\.[0-9]+)?` (real).  The
//! implementation documents "optional leading sign, digits only" resp. "optional leading sign, digits and at
//! most one decimal point"; strings the implementation's grammar accepts and the reference one does not
//! (`"1."`, `".5"`, `"."`) are excluded from the ordering clauses (they must only not panic).  Strings invalid
//! under the implementation's own grammar must be rejected (`None`).

use crate::{ensure, fam, strings_over, R};
use serde::{Deserialize, Serialize};
use std::cmp::Ordering;
use zipora::string::{decimal_strcmp, decimal_strcmp_with_sign, realnum_strcmp, realnum_strcmp_with_sign};
use zverif::{Outcome, Registry, Tier};

const ALPHA: [char; 6] = ['0', '1', '9', '-', '+', '.'];

#[derive(Clone, Copy, PartialEq, Debug)]
enum Kind {
    Decimal,
    Real,
}

/// (negative, integer digits, fraction digits) if `s` matches the reference grammar
fn parse_ref(s: &str, kind: Kind) -> Option<(bool, &str, &str)> {
    let (neg, rest) = match s.as_bytes().first()? {
        b'-' => (true, &s[1..]),
        b'+' => (false, &s[1..]),
        _ => (false, s),
    };
    let (int, frac) = match rest.find('.') {
        None => (rest, ""),
        Some(i) => {
            if kind == Kind::Decimal {
                return None;
            }
            let f = &rest[i + 1..];
            if f.is_empty() {
                return None;
            }
            (&rest[..i], f)
        }
    };
    if int.is_empty() || !int.bytes().all(|c| c.is_ascii_digit()) || !frac.bytes().all(|c| c.is_ascii_digit()) {
        return None;
    }
    Some((neg, int, frac))
}

/// the implementation's documented grammar
fn valid_impl(s: &str, kind: Kind) -> bool {
    let rest = match s.as_bytes().first() {
        None => return false,
        Some(b'-') | Some(b'+') => &s[1..],
        _ => s,
    };
    if rest.is_empty() {
        return false;
    }
    match kind {
        Kind::Decimal => rest.bytes().all(|c| c.is_ascii_digit()),
        Kind::Real => rest.bytes().all(|c| c.is_ascii_digit() || c == b'.') && rest.bytes().filter(|&c| c == b'.').count() <= 1,
    }
}

/// exact comparison by numeric value
fn exact(a: (bool, &str, &str), b: (bool, &str, &str)) -> Ordering {
    fn norm<'x>(v: (bool, &'x str, &'x str)) -> (bool, &'x str, &'x str) {
        let int = v.1.trim_start_matches('0');
        let frac = v.2.trim_end_matches('0');
        let zero = int.is_empty() && frac.is_empty();
        (v.0 && !zero, int, frac)
    }
    let (an, ai, af) = norm(a);
    let (bn, bi, bf) = norm(b);
    let mag = ai.len().cmp(&bi.len()).then_with(|| ai.cmp(bi)).then_with(|| {
        // fractions: compare digit by digit, the shorter one padded with zeros (both have no trailing zeros)
        af.cmp(bf)
    });
    match (an, bn) {
        (true, false) => Ordering::Less,
        (false, true) => Ordering::Greater,
        (false, false) => mag,
        (true, true) => mag.reverse(),
    }
}

fn call(kind: Kind, a: &str, b: &str) -> Option<Ordering> {
    match kind {
        Kind::Decimal => decimal_strcmp(a, b),
        Kind::Real => realnum_strcmp(a, b),
    }
}

fn call_with_sign(kind: Kind, a: &str, b: &str) -> Ordering {
    let split = |s: &str| -> (bool, String) {
        match s.as_bytes()[0] {
            b'-' => (true, s[1..].to_string()),
            b'+' => (false, s[1..].to_string()),
            _ => (false, s.to_string()),
        }
    };
    let (an, ad) = split(a);
    let (bn, bd) = split(b);
    match kind {
        Kind::Decimal => decimal_strcmp_with_sign(&ad, an, &bd, bn),
        Kind::Real => realnum_strcmp_with_sign(&ad, an, &bd, bn),
    }
}

// ---- outcome classes of exactness failures -------------------------------------------------------
// Three value-preserving rewrites of an operand; the class of a wrong answer is the first rewrite (in this order)
// of the smallest set of rewrites after which the implementation answers correctly; "other" if none does.
const REWRITES: [&str; 3] = ["negative_zero", "leading_zero_int_part", "trailing_zero_fraction"];

fn rewrite(s: &str, kind: Kind, which: &[bool; 3]) -> String {
    let (neg, int, frac) = parse_ref(s, kind).unwrap();
    let plus = s.starts_with('+');
    let is_zero = int.bytes().all(|c| c == b'0') && frac.bytes().all(|c| c == b'0');
    let neg = if which[0] && is_zero { false } else { neg };
    let int = if which[1] {
        let t = int.trim_start_matches('0');
        if t.is_empty() { "0" } else { t }
    } else {
        int
    };
    let frac = if which[2] { frac.trim_end_matches('0') } else { frac };
    let mut out = String::new();
    if neg {
        out.push('-');
    } else if plus {
        out.push('+');
    }
    out.push_str(int);
    if !frac.is_empty() {
        out.push('.');
        out.push_str(frac);
    }
    out
}

fn classify(kind: Kind, a: &str, b: &str, want: Ordering, f: &dyn Fn(&str, &str) -> Option<Ordering>) -> String {
    let prefix = if kind == Kind::Decimal { "decimal" } else { "realnum" };
    let mut subsets: Vec<[bool; 3]> = (1u8..8).map(|m| [m & 1 != 0, m & 2 != 0, m & 4 != 0]).collect();
    subsets.sort_by_key(|s| (s.iter().filter(|&&x| x).count(), !s[0], !s[1]));
    for sub in subsets {
        let (ra, rb) = (rewrite(a, kind, &sub), rewrite(b, kind, &sub));
        if f(&ra, &rb) == Some(want) {
            let first = (0..3).find(|&i| sub[i]).unwrap();
            return format!("{prefix}/{}", REWRITES[first]);
        }
    }
    format!("{prefix}/other")
}

#[derive(Serialize, Deserialize, Hash, Clone, Debug)]
pub struct Pair(String, String);

fn gen_pairs(tier: Tier, f: &mut dyn FnMut(Pair) -> bool) {
    let s3 = strings_over(&ALPHA, 3);
    let s4 = strings_over(&ALPHA, 4);
    match tier {
        Tier::Thorough => {
            for a in &s4 {
                for b in &s4 {
                    if !f(Pair(a.clone(), b.clone())) {
                        return;
                    }
                }
            }
        }
        Tier::Quick => {
            for a in &s3 {
                for b in &s3 {
                    if !f(Pair(a.clone(), b.clone())) {
                        return;
                    }
                }
            }
            // length-4 strings against every string of length <= 2, both orders
            let s2 = strings_over(&ALPHA, 2);
            for a in s4.iter().filter(|s| s.len() == 4) {
                for b in &s2 {
                    if !f(Pair(a.clone(), b.clone())) || !f(Pair(b.clone(), a.clone())) {
                        return;
                    }
                }
            }
        }
    }
}

fn run_pair(kind: Kind, with_sign: bool, c: &Pair) -> R {
    let (a, b) = (c.0.as_str(), c.1.as_str());
    let (pa, pb) = (parse_ref(a, kind), parse_ref(b, kind));
    let (ia, ib) = (valid_impl(a, kind), valid_impl(b, kind));
    if with_sign {
        // the *_with_sign entry points take pre-validated operands: only valid inputs are in their domain
        let (Some(pa), Some(pb)) = (pa, pb) else { return Ok(Outcome::skip("operand outside the function's domain (not a valid number)")) };
        let want = exact(pa, pb);
        let got = call_with_sign(kind, a, b);
        if got != want {
            let class = classify(kind, a, b, want, &|x, y| if parse_ref(x, kind).is_some() && parse_ref(y, kind).is_some() { Some(call_with_sign(kind, x, y)) } else { None });
            ensure!(false, "exact_order", class, "with_sign({a:?}, {b:?}) = {:?}, numerically {:?}", got, want);
        }
        ensure!(call_with_sign(kind, b, a) == got.reverse(), "antisymmetry", "with_sign", "cmp({a:?},{b:?}) = {:?} but cmp({b:?},{a:?}) = {:?}", got, call_with_sign(kind, b, a));
        return Ok(Outcome::pass(&format!("valid/{:?}", want)));
    }
    let got = call(kind, a, b);
    if !ia || !ib {
        ensure!(got.is_none(), "rejects_invalid", if a.is_empty() || b.is_empty() { "empty" } else { "malformed" }, "cmp({a:?}, {b:?}) = {:?} although an operand is not a number", got);
        return Ok(Outcome::pass("invalid/None"));
    }
    let (Some(pa), Some(pb)) = (pa, pb) else {
        // accepted by the implementation's grammar, not by the reference one ("1.", ".5", "."): no ordering clause
        return Ok(Outcome::trivial("grammar-difference/no-panic"));
    };
    let want = exact(pa, pb);
    ensure!(got.is_some(), "rejects_valid", "valid", "cmp({a:?}, {b:?}) = None for two valid numbers");
    if got != Some(want) {
        let class = classify(kind, a, b, want, &|x, y| call(kind, x, y));
        ensure!(false, "exact_order", class, "cmp({a:?}, {b:?}) = {:?}, numerically {:?}", got.unwrap(), want);
    }
    let back = call(kind, b, a);
    ensure!(back == got.map(Ordering::reverse), "antisymmetry", "valid", "cmp({a:?},{b:?}) = {:?} but cmp({b:?},{a:?}) = {:?}", got, back);
    Ok(Outcome::pass(&format!("valid/{:?}", want)))
}

/// transitivity over all triples of valid strings of length <= 3: the case is (a, b), c ranges inside
fn run_triple(kind: Kind, c: &Pair) -> R {
    let (a, b) = (c.0.as_str(), c.1.as_str());
    if parse_ref(a, kind).is_none() || parse_ref(b, kind).is_none() {
        return Ok(Outcome::skip("not a valid number"));
    }
    let ab = match call(kind, a, b) {
        Some(o) => o,
        None => return Ok(Outcome::skip("rejected (judged by the pair subject)")),
    };
    let mut n = 0;
    for cstr in strings_over(&ALPHA, 3) {
        if parse_ref(&cstr, kind).is_none() {
            continue;
        }
        let (Some(bc), Some(ac)) = (call(kind, b, &cstr), call(kind, a, &cstr)) else { continue };
        n += 1;
        if ab != Ordering::Greater && bc != Ordering::Greater {
            ensure!(ac != Ordering::Greater, "transitivity", "le_le_gt", "{a:?} <= {b:?} <= {cstr:?} but cmp({a:?},{cstr:?}) = Greater");
            if ab == Ordering::Less || bc == Ordering::Less {
                ensure!(ac == Ordering::Less, "transitivity", "lt_le_not_lt", "{a:?} {:?} {b:?} {:?} {cstr:?} but cmp({a:?},{cstr:?}) = {:?}", ab, bc, ac);
            } else {
                ensure!(ac == Ordering::Equal, "transitivity", "eq_eq_ne", "{a:?} == {b:?} == {cstr:?} but cmp({a:?},{cstr:?}) = {:?}", ac);
            }
        }
    }
    Ok(if n == 0 { Outcome::trivial("no-third") } else { Outcome::pass(&format!("{:?}", ab)) })
}

// ---- coverage audit ---------------------------------------------------------------------------------
// Grid of numbers written in many ways: sign x leading zeros x integer digits (other digits than 0/1/9, lengths around
// the widths of u32/u64/u128/f64 so that an implementation that parses instead of comparing text goes wrong) x fraction
// (different lengths, trailing zeros, longer than f64 precision).

const G_SIGNS: [&str; 3] = ["", "+", "-"];
const G_ZEROS: [&str; 4] = ["", "0", "00", "0000000000000000000000000"];
/// integer digit strings without leading zeros ("" = no further digits: the value of the integer part is zero)
const G_INTS: [&str; 17] = [
    "",
    "5",
    "7",
    "15",
    "51",
    "55",
    "100",
    "4294967295",                               // u32::MAX
    "4294967296",                               // 2^32
    "9007199254740992",                         // 2^53
    "9007199254740993",                         // 2^53 + 1: equal to the former as f64
    "9223372036854775807",                      // i64::MAX
    "18446744073709551615",                     // u64::MAX
    "18446744073709551616",                     // 2^64: wraps to 0 in u64 arithmetic
    "28446744073709551615",                     // 20 digits, differs from u64::MAX in the first digit only
    "340282366920938463463374607431768211455",  // u128::MAX
    "340282366920938463463374607431768211456",  // 2^128
];
const G_FRACS: [&str; 10] = ["", ".0", ".5", ".50", ".05", ".49", ".500000000000000000001", ".4999999999999999999999", ".000", ".25"];

fn grid_numbers(kind: Kind, reduced: bool) -> Vec<String> {
    let mut v = Vec::new();
    let ints: Vec<&str> = if reduced { vec!["", "5", "15", "51", "18446744073709551615", "18446744073709551616"] } else { G_INTS.to_vec() };
    let zeros: Vec<&str> = if reduced { vec!["", "00"] } else { G_ZEROS.to_vec() };
    let fracs: Vec<&str> = match (kind, reduced) {
        (Kind::Decimal, _) => vec![""],
        (Kind::Real, true) => vec!["", ".0", ".5", ".50", ".05"],
        (Kind::Real, false) => G_FRACS.to_vec(),
    };
    for sign in G_SIGNS {
        for z in &zeros {
            for i in &ints {
                if z.is_empty() && i.is_empty() {
                    continue; // no integer digits at all: not a number of the reference grammar
                }
                for fr in &fracs {
                    v.push(format!("{sign}{z}{i}{fr}"));
                }
            }
        }
    }
    v
}

fn gen_grid_pairs(kind: Kind) -> impl Fn(Tier, &mut dyn FnMut(Pair) -> bool) {
    move |tier, f| {
        let full = grid_numbers(kind, false);
        let red = grid_numbers(kind, true);
        // quick: every number of the full grid against every number of the reduced grid, both orders; thorough: full x full
        let all_pairs = tier == Tier::Thorough;
        for a in &full {
            if all_pairs {
                for b in &full {
                    if !f(Pair(a.clone(), b.clone())) {
                        return;
                    }
                }
            } else {
                for b in &red {
                    if !f(Pair(a.clone(), b.clone())) || !f(Pair(b.clone(), a.clone())) {
                        return;
                    }
                }
            }
        }
        if tier == Tier::Thorough && kind == Kind::Real {
            // same sign/zeros/integer part, every pair of fractions; and same fraction, every pair of integer parts
            for sign in G_SIGNS {
                for z in ["", "00"] {
                    for i in ["5", "18446744073709551615"] {
                        for fa in G_FRACS {
                            for sb in G_SIGNS {
                                for zb in ["", "0"] {
                                    for fb in G_FRACS {
                                        if !f(Pair(format!("{sign}{z}{i}{fa}"), format!("{sb}{zb}{i}{fb}"))) {
                                            return;
                                        }
                                    }
                                }
                            }
                        }
                    }
                }
            }
        }
    }
}

/// plain and with_sign entry point on the same pair
fn run_grid_pair(kind: Kind, c: &Pair) -> R {
    let o1 = run_pair(kind, false, c)?;
    let o2 = run_pair(kind, true, c)?;
    Ok(match (o1, o2) {
        (Outcome::Pass { class, .. }, _) => {
            let long = c.0.len().max(c.1.len()) > 20;
            Outcome::pass(&format!("{class}/{}", if long { ">20chars" } else { "<=20chars" }))
        }
        (o, _) => o,
    })
}

/// transitivity over the reduced grid: case = (a, b), c ranges over the reduced grid
fn run_grid_triple(kind: Kind, c: &Pair) -> R {
    let (a, b) = (c.0.as_str(), c.1.as_str());
    let Some(ab) = call(kind, a, b) else { return Ok(Outcome::skip("rejected (judged by the pair subject)")) };
    for cstr in grid_numbers(kind, true) {
        let (Some(bc), Some(ac)) = (call(kind, b, &cstr), call(kind, a, &cstr)) else { continue };
        if ab != Ordering::Greater && bc != Ordering::Greater {
            ensure!(ac != Ordering::Greater, "transitivity", "le_le_gt", "{a:?} <= {b:?} <= {cstr:?} but cmp({a:?},{cstr:?}) = Greater");
            if ab == Ordering::Less || bc == Ordering::Less {
                ensure!(ac == Ordering::Less, "transitivity", "lt_le_not_lt", "{a:?} {:?} {b:?} {:?} {cstr:?} but cmp({a:?},{cstr:?}) = {:?}", ab, bc, ac);
            } else {
                ensure!(ac == Ordering::Equal, "transitivity", "eq_eq_ne", "{a:?} == {b:?} == {cstr:?} but cmp({a:?},{cstr:?}) = {:?}", ac);
            }
        }
    }
    Ok(Outcome::pass(&format!("{:?}", ab)))
}

/// characters that are not part of any number: every string containing one of them must be rejected, whatever the other operand
const BAD_ALPHA: [char; 9] = ['5', '-', '.', 'a', 'e', ' ', ',', '\u{0663}', '\u{FF15}'];

fn run_invalid(kind: Kind, c: &Pair) -> R {
    let (a, b) = (c.0.as_str(), c.1.as_str());
    let (ia, ib) = (valid_impl(a, kind), valid_impl(b, kind));
    let got = zverif::util::catch(|| (call(kind, a, b), call(kind, b, a))).map_err(|f| crate::bad("rejects_invalid", "panic", format!("cmp({a:?}, {b:?}) panicked: {}", f.detail)))?;
    if !ia || !ib {
        ensure!(got.0.is_none() && got.1.is_none(), "rejects_invalid", "foreign_character", "cmp({a:?}, {b:?}) = {:?} / reversed {:?} although an operand is not a number", got.0, got.1);
        return Ok(Outcome::pass("invalid/None"));
    }
    match (parse_ref(a, kind), parse_ref(b, kind)) {
        (Some(pa), Some(pb)) => {
            ensure!(got.0 == Some(exact(pa, pb)), "exact_order", format!("{}/other", if kind == Kind::Decimal { "decimal" } else { "realnum" }), "cmp({a:?}, {b:?}) = {:?}", got.0);
            Ok(Outcome::pass("valid"))
        }
        _ => Ok(Outcome::trivial("grammar-difference/no-panic")),
    }
}

pub fn register(reg: &mut Registry) {
    register_small(reg);
    for (kind, name) in [(Kind::Decimal, "decimal_strcmp"), (Kind::Real, "realnum_strcmp")] {
        reg.add(fam(
            &format!("numeric/{name}/grid"),
            "numbers composed as sign {none,+,-} x leading zeros {0,1,2,25} x integer digits {none,5,7,15,51,55,100, u32::MAX, 2^32, 2^53, 2^53+1, i64::MAX, u64::MAX, 2^64, a 20-digit number differing from u64::MAX in the first digit, u128::MAX, 2^128} x (realnum only) fraction {none,.0,.5,.50,.05,.49,.25,.000, two fractions of 21/22 digits}: quick every number against every number of a reduced grid (6 integer parts x 2 zero runs x 5 fractions x 3 signs) in both orders; thorough all pairs of the grid (2010^2 for the reals), and all pairs of fractions under equal integer parts; both the plain and the _with_sign entry point; exact order, antisymmetry",
            gen_grid_pairs(kind),
            move |c| run_grid_pair(kind, c),
        ));
        reg.add(fam(
            &format!("numeric/{name}/grid-triples"),
            "all triples over the reduced grid of numbers (see .../grid): a<=b and b<=c imply a<=c, strictly if either is strict; case = (a,b), c enumerated inside",
            move |_t, f: &mut dyn FnMut(Pair) -> bool| {
                let red = grid_numbers(kind, true);
                for a in &red {
                    for b in &red {
                        if !f(Pair(a.clone(), b.clone())) {
                            return;
                        }
                    }
                }
            },
            move |c| run_grid_triple(kind, c),
        ));
        reg.add(fam(
            &format!("numeric/{name}/invalid-chars"),
            "all ordered pairs of strings of length <=3 over {'5','-','.','a','e',' ',',', ARABIC-INDIC DIGIT THREE, FULLWIDTH DIGIT FIVE}: None (and no panic) as soon as one operand contains a character that is not part of a number, in both argument orders",
            |_t, f: &mut dyn FnMut(Pair) -> bool| {
                let v = strings_over(&BAD_ALPHA, 3);
                let short = strings_over(&BAD_ALPHA, 2);
                for a in &v {
                    for b in &short {
                        if !f(Pair(a.clone(), b.clone())) {
                            return;
                        }
                    }
                }
            },
            move |c| run_invalid(kind, c),
        ));
    }
}

fn register_small(reg: &mut Registry) {
    let space = "ordered pairs of strings over {'0','1','9','-','+','.'}: thorough all 1555^2 pairs of length <=4; quick all 259^2 pairs of length <=3 plus every length-4 string against every string of length <=2 in both orders. Validity by the reference grammar; exactness, antisymmetry, rejection of invalid operands";
    for (kind, name) in [(Kind::Decimal, "decimal_strcmp"), (Kind::Real, "realnum_strcmp")] {
        reg.add(fam(&format!("numeric/{name}"), space, gen_pairs, move |c| run_pair(kind, false, c)));
        reg.add(fam(&format!("numeric/{name}_with_sign"), space, gen_pairs, move |c| run_pair(kind, true, c)));
        reg.add(fam(
            &format!("numeric/{name}/triples"),
            "all triples (a,b,c) of strings of length <=3 over {'0','1','9','-','+','.'} that are valid numbers (case = (a,b), c enumerated inside): a<=b and b<=c imply a<=c, strictly if either is strict",
            |_t, f: &mut dyn FnMut(Pair) -> bool| {
                let s3 = strings_over(&ALPHA, 3);
                for a in &s3 {
                    for b in &s3 {
                        if !f(Pair(a.clone(), b.clone())) {
                            return;
                        }
                    }
                }
            },
            move |c| run_triple(kind, c),
        ));
    }
}
