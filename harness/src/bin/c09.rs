//! C09 — compressed integer vectors return every stored value unchanged (engine E2).
//!
//! One subject per (container, constructor).  Every subject enumerates the same abstract space of integer
//! sequences (small scope S ∪ threshold grid G, expanded for the subject's element domain), builds the
//! container and reads EVERY element back: `get(i) == input[i]`, `len`, `get(len)` / `get(len+7)` refused,
//! `get2(i) == (v[i], v[i+1])`, `get_block == the block`.  Incremental construction (`push`) is an E2 case that
//! pushes the sequence one element at a time and re-reads the whole prefix after every push.
//!
//! Coverage audit: E1 subjects at the end of the file drive the MUTABLE containers (UintVecMin0 / ZipIntVec) through
//! set / push_back / resize / shrink_to_fit / clear histories that start from a vector full of non-zero values.
//!
//! Constructor outcome: `Err` -> skip (the property allows it).  A panic of a constructor that returns `Result`
//! is a violation (`construct/panic`); a panic of a constructor with no `Result` in its signature
//! (UintVecMin0 / ZipIntVec, C++-style) is its only way to refuse and counts as a skip (`construct_panic`).

use serde::{Deserialize, Serialize};
use std::sync::atomic::{AtomicU64, Ordering};
use zipora::blob_store::sorted_uint_vec::{SortedUintVecBuilder, SortedUintVecConfig};
use zipora::containers::specialized::{IntVec, PackedInt, UintVector};
use zipora::containers::{UintVecMin0, ZipIntVec};
use zverif::enumr::{fail, Enum, EnumSpec};
use zverif::seq::{Seq, SeqSpec};
use zverif::util::catch;
use zverif::{Ctx, Outcome, Subject, Tier, Value, Verdict};

static READS: AtomicU64 = AtomicU64::new(0);
fn rd(n: usize) {
    READS.fetch_add(n as u64, Ordering::Relaxed);
}

// ---------------------------------------------------------------------------------------------
// the abstract space

#[derive(Clone, Copy, Debug, Hash, Serialize, Deserialize, PartialEq, Eq)]
pub enum Where {
    First,
    Mid,
    /// index 63 (end of the first 64-element block), or the last index if shorter
    BlockEnd,
    Last,
}

#[derive(Clone, Copy, Debug, Hash, Serialize, Deserialize, PartialEq, Eq)]
pub enum Shape {
    /// all elements = the a-th value of the small-scope alphabet
    Const(u8),
    /// start + i*step (saturating at MAX); from_min: start = MIN, else 0 (or MIN for unsigned = 0)
    Asc { step_log2: i8, from_min: bool },
    /// base + (7*i mod 13); high: base = MAX-12, else 0
    SmallRange { high: bool },
    /// MIN, MAX, MIN, MAX ..
    AltMinMax,
    /// i mod 4 everywhere except one huge value (MAX, or MIN if `min`) at the given place
    Outlier { at: Where, min: bool },
    /// every value uses the top bits: even i -> MAX - i, odd i -> MIN + i
    AllBits,
    /// ascending step 1 from 5 with a dip (0) at index 1: sorted at every sampled index, not sorted
    DipAt1,
    /// ascending with equal runs: (i / 5) * 3
    SortedRuns,
    /// ascending 1000*i with one huge jump (2^40, saturating) before the given place
    SortedJump { at: Where },
    /// alternating 0 and 2^k-1 (plus=false) or 0 and 2^k (plus=true): range width exactly k / k+1 bits
    TwoVal { k: u8, plus: bool },
    /// sorted variant of TwoVal: first half 0, second half 2^k-1 / 2^k
    Step { k: u8, plus: bool },
    /// i-th value = (2^k) + (i mod 3)  (large base, tiny range)
    HighBase { k: u8 },
    /// (7*i mod 13) << k: unsorted at every stride, range width k+4
    WideNoise { k: u8 },
    /// (appended by the coverage audit) base + ((i / 128) mod 8) * 16 + (7*i mod 13), base = 2^k (0 for k = 0):
    /// unsorted, every 128-element block has a tiny local range (4 bits) around a block minimum that differs from
    /// block to block (7 bits) and — for k > 0 — a NON-ZERO smallest block minimum: the shape for which a
    /// sample/offset block encoding beats one global min/max width
    Saw { k: u8 },
    /// (seed C09h) sorted ramp m*2^32 - 40 + step*i: consecutive values of one block lie on both sides of a multiple of
    /// 2^32 (the carry out of the low 32 bits of base + delta)
    Cross32 { m: u8, step: u8 },
}

#[derive(Clone, Debug, Hash, Serialize, Deserialize, PartialEq, Eq)]
pub enum Src {
    /// small scope: indices into the 5-value alphabet of the element domain
    S(Vec<u8>),
    G { len: u32, shape: Shape },
}

#[derive(Clone, Copy, Debug)]
pub struct Dom {
    pub min: i128,
    pub max: i128,
    pub bits: u32,
    /// small-scope alphabet override (containers whose documented value range is narrower than the element type)
    pub alpha: Option<[i128; 5]>,
}

impl Dom {
    fn of_unsigned(bits: u32) -> Dom {
        Dom { min: 0, max: (1i128 << bits) - 1, bits, alpha: None }
    }
    fn of_signed(bits: u32) -> Dom {
        Dom { min: -(1i128 << (bits - 1)), max: (1i128 << (bits - 1)) - 1, bits, alpha: None }
    }
    fn signed(&self) -> bool {
        self.min < 0
    }
    fn alphabet(&self) -> [i128; 5] {
        if let Some(a) = self.alpha {
            return a;
        }
        if self.signed() {
            [self.min, -1, 1, self.max - 1, self.max]
        } else {
            [0, 1, 1i128 << (self.bits / 2), self.max - 1, self.max]
        }
    }
    fn clamp(&self, v: i128) -> i128 {
        v.clamp(self.min, self.max)
    }
}

fn place(at: Where, n: usize) -> usize {
    match at {
        Where::First => 0,
        Where::Mid => n / 2,
        Where::BlockEnd => 63.min(n - 1),
        Where::Last => n - 1,
    }
}

pub fn expand(src: &Src, d: &Dom) -> Vec<i128> {
    match src {
        Src::S(ix) => {
            let a = d.alphabet();
            ix.iter().map(|&i| a[i as usize % 5]).collect()
        }
        Src::G { len, shape } => {
            let n = *len as usize;
            let mut v: Vec<i128> = Vec::with_capacity(n);
            for i in 0..n {
                let ii = i as i128;
                let x = match *shape {
                    Shape::Const(a) => d.alphabet()[a as usize % 5],
                    Shape::Asc { step_log2, from_min } => {
                        let step = if step_log2 < 0 { 0 } else { 1i128 << step_log2 };
                        (if from_min { d.min } else { 0 }) + ii * step
                    }
                    Shape::SmallRange { high } => (if high { d.max - 12 } else { 0 }) + (7 * ii) % 13,
                    Shape::AltMinMax => {
                        if i % 2 == 0 {
                            d.min
                        } else {
                            d.max
                        }
                    }
                    Shape::Outlier { at, min } => {
                        if i == place(at, n) {
                            if min {
                                d.min
                            } else {
                                d.max
                            }
                        } else {
                            ii % 4
                        }
                    }
                    Shape::AllBits => {
                        if i % 2 == 0 {
                            d.max - ii
                        } else {
                            d.min + ii
                        }
                    }
                    Shape::DipAt1 => {
                        if i == 1 {
                            0
                        } else {
                            5 + ii
                        }
                    }
                    Shape::SortedRuns => (ii / 5) * 3,
                    Shape::SortedJump { at } => 1000 * ii + if i >= place(at, n) && i > 0 { 1i128 << 40 } else { 0 },
                    Shape::TwoVal { k, plus } => {
                        if i % 2 == 0 {
                            0
                        } else {
                            (1i128 << k) - if plus { 0 } else { 1 }
                        }
                    }
                    Shape::Step { k, plus } => {
                        if i < n / 2 {
                            0
                        } else {
                            (1i128 << k) - if plus { 0 } else { 1 }
                        }
                    }
                    Shape::HighBase { k } => (1i128 << k) + ii % 3,
                    Shape::WideNoise { k } => ((7 * ii) % 13) << k,
                    Shape::Saw { k } => (if k == 0 { 0 } else { 1i128 << k }) + ((ii / 128) % 8) * 16 + (7 * ii) % 13,
                    Shape::Cross32 { m, step } => ((m as i128) << 32) - 40 + (step as i128) * ii,
                };
                v.push(d.clamp(x));
            }
            v
        }
    }
}

fn grid_lengths(tier: Tier) -> Vec<u32> {
    let mut v = vec![0, 1, 2, 3, 4, 5, 7, 8, 9, 15, 16, 17, 31, 32, 33, 63, 64, 65, 127, 128, 129, 255, 256, 257, 1000, 1001];
    if tier == Tier::Thorough {
        v.extend_from_slice(&[1023, 1024, 1025, 2048, 2049, 4097, 10000, 10001, 17409]);
        // appended by the coverage audit: `len * size_of::<T>() / 1024 <= 16` for 1-byte elements flips between
        // 17407 and 17408 elements (the grid only had 17409)
        v.extend_from_slice(&[17407, 17408]);
    } else {
        // appended by the coverage audit: the quick tier never reached the switches above 1001 elements
        // (uniform-delta detection `len <= 1024`, SIMD window 65..=2048) although they cost next to nothing
        v.extend_from_slice(&[1023, 1024, 1025, 2048, 2049]);
    }
    v
}

fn shapes(d: &Dom) -> Vec<Shape> {
    let mut v = Vec::new();
    for a in 0..5 {
        v.push(Shape::Const(a));
    }
    for s in [-1i8, 0, 31, 62] {
        if s >= 0 && s as u32 >= d.bits {
            continue;
        }
        v.push(Shape::Asc { step_log2: s, from_min: false });
        if d.signed() && s >= 0 {
            v.push(Shape::Asc { step_log2: s, from_min: true });
        }
    }
    v.push(Shape::SmallRange { high: false });
    v.push(Shape::SmallRange { high: true });
    v.push(Shape::AltMinMax);
    for at in [Where::First, Where::Mid, Where::BlockEnd, Where::Last] {
        v.push(Shape::Outlier { at, min: false });
        if d.signed() {
            v.push(Shape::Outlier { at, min: true });
        }
    }
    v.push(Shape::AllBits);
    v.push(Shape::DipAt1);
    v.push(Shape::SortedRuns);
    if d.bits > 41 {
        for at in [Where::First, Where::Mid, Where::BlockEnd, Where::Last] {
            v.push(Shape::SortedJump { at });
        }
    }
    let maxk = if d.signed() { d.bits - 1 } else { d.bits };
    for k in [4u8, 20, 44, 56] {
        if (k as u32) + 4 <= maxk {
            v.push(Shape::WideNoise { k });
        }
    }
    for k in [1u8, 7, 8, 9, 15, 16, 17, 24, 31, 32, 33, 40, 47, 48, 49, 56, 57, 58, 59, 60, 61, 62, 63, 64] {
        if k as u32 > maxk {
            continue;
        }
        v.push(Shape::TwoVal { k, plus: false });
        v.push(Shape::Step { k, plus: false });
        if (k as u32) < maxk {
            v.push(Shape::TwoVal { k, plus: true });
            v.push(Shape::Step { k, plus: true });
            v.push(Shape::HighBase { k });
        }
    }
    // appended by the coverage audit: steps of exactly 2^k - 1 / 2^k for the offset and sample widths of the SortedUintVec
    // configurations that the list above does not name (12, 13, 20, 55), and the block-local shape
    for k in [12u8, 13, 20, 55] {
        if k as u32 >= maxk {
            continue;
        }
        v.push(Shape::Step { k, plus: false });
        v.push(Shape::Step { k, plus: true });
    }
    for k in [0u8, 6, 14, 40, 62] {
        if k == 0 || (k as u32) + 1 < maxk {
            v.push(Shape::Saw { k });
        }
    }
    if maxk >= 36 {
        for (m, step) in [(1u8, 3u8), (1, 1), (5, 3)] {
            v.push(Shape::Cross32 { m, step });
        }
    }
    v
}

fn enumerate(tier: Tier, d: &Dom, small_len: usize, max_len: usize, f: &mut dyn FnMut(Src) -> bool) {
    let alpha: Vec<u8> = (0..5).collect();
    if !zverif::util::all_strings(&alpha, small_len, &mut |s| f(Src::S(s.to_vec()))) {
        return;
    }
    for len in grid_lengths(tier) {
        if len as usize > max_len {
            continue;
        }
        for sh in shapes(d) {
            if len == 0 && sh != Shape::Const(0) {
                continue;
            }
            if !f(Src::G { len, shape: sh }) {
                return;
            }
        }
    }
}

// ---------------------------------------------------------------------------------------------
// oracle

pub enum Got {
    Val(i128),
    /// None / Err
    Refused,
    Panic(String),
}

fn width_class(values: &[i128]) -> &'static str {
    if values.is_empty() {
        return "w-";
    }
    let mn = *values.iter().min().unwrap();
    let mx = *values.iter().max().unwrap();
    let r = (mx - mn) as u128;
    let w = 128 - r.leading_zeros();
    match w {
        0 => "w0",
        1..=16 => "w1..16",
        17..=32 => "w17..32",
        33..=47 => "w33..47",
        48..=56 => "w48..56",
        57..=58 => "w57..58",
        59..=63 => "w59..63",
        _ => "w64",
    }
}

fn len_class(n: usize) -> &'static str {
    match n {
        0 => "n0",
        1..=3 => "n1..3",
        4..=7 => "n4..7",
        8..=64 => "n8..64",
        65..=1000 => "n65..1000",
        1001..=2048 => "n1001..2048",
        2049..=10000 => "n2049..10000",
        _ => "n>10000",
    }
}

pub struct Reader<'a> {
    pub len: usize,
    pub get: &'a dyn Fn(usize) -> Got,
    pub get2: Option<&'a dyn Fn(usize) -> (Got, Got)>,
    /// out-of-range reads are documented to panic (C++-style accessor): a panic counts as "refused"
    pub oob_panics_documented: bool,
    /// outcome-class suffix of a failing case: a documented function of observable facts of the input
    pub class_of: &'a dyn Fn(&[i128]) -> String,
}

/// Compare everything readable with `values`; `None` = all clauses held.
pub fn check_reads(values: &[i128], r: &Reader) -> Option<Outcome> {
    let n = values.len();
    let cls = |s: &str| format!("{s}/{}", (r.class_of)(values));
    if r.len != n {
        return Some(fail("len", cls("wrong"), format!("len() = {}, {} values were stored", r.len, n)));
    }
    rd(n + 2);
    for i in 0..n {
        match (r.get)(i) {
            Got::Val(x) => {
                if x != values[i] {
                    return Some(fail("get", cls("wrong_value"), format!("get({i}) = {x}, stored {} (n={n}, min {}, max {})", values[i], values.iter().min().unwrap(), values.iter().max().unwrap())));
                }
            }
            Got::Refused => return Some(fail("get", cls("refused_in_range"), format!("get({i}) refused although {n} values were stored (value {})", values[i]))),
            Got::Panic(m) => return Some(fail("get", cls("panic_in_range"), format!("get({i}) panicked although {n} values were stored: {m}"))),
        }
    }
    for i in [n, n + 7] {
        match (r.get)(i) {
            Got::Val(x) => return Some(fail("get_past_end", cls(if i == n { "returns_value/i==len" } else { "returns_value/i==len+7" }), format!("get({i}) = {x} but only {n} values were stored"))),
            Got::Refused => {}
            Got::Panic(m) => {
                if !r.oob_panics_documented {
                    return Some(fail("get_past_end", cls("panic"), format!("get({i}) with {n} values panicked: {m}")));
                }
            }
        }
    }
    if let Some(g2) = r.get2 {
        rd(n);
        for i in 0..n.saturating_sub(1) {
            match g2(i) {
                (Got::Val(a), Got::Val(b)) => {
                    if a != values[i] || b != values[i + 1] {
                        return Some(fail("get2", cls("wrong_value"), format!("get2({i}) = ({a}, {b}), stored ({}, {})", values[i], values[i + 1])));
                    }
                }
                (Got::Panic(m), _) | (_, Got::Panic(m)) => return Some(fail("get2", cls("panic_in_range"), format!("get2({i}) n={n}: {m}"))),
                _ => return Some(fail("get2", cls("refused_in_range"), format!("get2({i}) refused, n={n}"))),
            }
        }
        // the pair starting at the last element (or at len) does not exist
        for i in [n.saturating_sub(1), n] {
            match g2(i) {
                (Got::Val(a), Got::Val(b)) => return Some(fail("get2_past_end", cls("returns_value"), format!("get2({i}) = ({a}, {b}) with only {n} values"))),
                (Got::Panic(m), _) | (_, Got::Panic(m)) => {
                    if !r.oob_panics_documented {
                        return Some(fail("get2_past_end", cls("panic"), format!("get2({i}) n={n}: {m}")));
                    }
                }
                _ => {}
            }
        }
    }
    None
}

/// IntVec / UintVector outcome class: order of the packed u64 image, then the buckets at which int_vec.rs switches
/// strategy (`len < 4` raw; `len <= 1000 || width <= 16` MinMax else BlockBased in analyze_small_dataset_strategy;
/// `len > 10000 && bytes > 16 KiB` analyze_optimal_strategy), and where MinMax may be chosen the range width bucket (<=16, 17..58,
/// 59..63 = bit fields that do not fit one unaligned 64-bit load, 64).  Sorted inputs take the Delta path whatever
/// their size.
fn generic_class(values: &[i128], elem_bytes: usize) -> String {
    if values.len() >= 4 && values.windows(2).all(|w| w[0] <= w[1]) {
        return "sorted".into();
    }
    let wc = width_class(values);
    match values.len() {
        0..=3 => "n<4".into(),
        4..=1000 => {
            let wb = match wc {
                "w-" | "w0" | "w1..16" => "w<=16",
                "w59..63" => "w59..63",
                "w64" => "w64",
                _ => "w17..58",
            };
            format!("unsorted/n4..1000/{wb}")
        }
        // from_slice: `len <= 10000 || len * size_of::<T>() / 1024 <= 16` -> analyze_small_dataset_strategy
        n if n <= 10000 || n * elem_bytes / 1024 <= 16 => {
            let wb = if matches!(wc, "w-" | "w0" | "w1..16") { "w<=16" } else { "w>16" };
            format!("unsorted/n>1000,small_path/{wb}")
        }
        _ => {
            let wb = match wc {
                "w-" | "w0" | "w1..16" => "w<=16",
                "w59..63" => "w59..63",
                "w64" => "w64",
                _ => "w17..58",
            };
            format!("unsorted/n>1000,optimal_path/{wb}")
        }
    }
}

/// the message of a panic with the numbers removed: `attempt to subtract with overflow`
fn panic_class(detail: &str) -> String {
    let msg = detail.splitn(3, ": ").nth(1).unwrap_or(detail);
    let mut out = String::new();
    for c in msg.chars() {
        if c.is_ascii_digit() {
            if !out.ends_with('#') {
                out.push('#');
            }
        } else {
            out.push(c);
        }
    }
    out.truncate(60);
    format!("panic/{}", out.trim().replace(' ', "_"))
}

fn pass(values: &[i128]) -> Outcome {
    let c = format!("ok/{}/{}", len_class(values.len()), width_class(values));
    if values.is_empty() {
        Outcome::trivial(&c)
    } else {
        Outcome::pass(&c)
    }
}

// ---------------------------------------------------------------------------------------------
// spec

pub struct Spec {
    pub name: String,
    pub dom: Dom,
    /// only non-decreasing sequences are in the space (SortedUintVec)
    pub sorted_only: bool,
    pub small_len_quick: usize,
    pub small_len_thorough: usize,
    pub max_len_quick: usize,
    pub max_len_thorough: usize,
    pub what: &'static str,
    pub run: Box<dyn Fn(&[i128]) -> Outcome>,
    /// additional grid points enumerated after S and G (coverage audit)
    pub extra: Vec<Src>,
    /// enumerate `extra` only
    pub only_extra: bool,
}

impl EnumSpec for Spec {
    type Case = Src;
    fn name(&self) -> String {
        self.name.clone()
    }
    fn space(&self, tier: Tier) -> String {
        if self.only_extra {
            return format!("element domain [{}, {}]; exactly these grid points: {:?}; {}", self.dom.min, self.dom.max, self.extra, self.what);
        }
        let ml = tier.pick(self.max_len_quick, self.max_len_thorough);
        let lens: Vec<u32> = grid_lengths(tier).into_iter().filter(|&l| l as usize <= ml).collect();
        format!(
            "element domain [{}, {}]; S = all sequences of length <= {} over {:?}; G = lengths {:?} x {} shapes (constants, ascending steps {{0,1,2^31,2^62}} from 0 and from MIN, small range low/high, alternating MIN/MAX, one MAX (MIN) outlier at first/mid/index 63/last among 0..3, all bits used, ascending with a dip at index 1, sorted equal runs, sorted with one 2^40 jump, two-valued {{0, 2^k-1}} / {{0, 2^k}} alternating and stepped for k in 1..=64, large base 2^k with range 3, (7i mod 13) << k, block-local saw 2^k + ((i/128) mod 8)*16 + (7i mod 13)){}; {}",
            self.dom.min,
            self.dom.max,
            tier.pick(self.small_len_quick, self.small_len_thorough),
            self.dom.alphabet(),
            lens,
            shapes(&self.dom).len(),
            if self.sorted_only { "; restricted to non-decreasing sequences" } else { "" },
            self.what
        )
    }
    fn cases(&self, tier: Tier, f: &mut dyn FnMut(Src) -> bool) {
        let d = self.dom;
        let sorted_only = self.sorted_only;
        let mut stopped = false;
        if !self.only_extra {
            enumerate(tier, &d, tier.pick(self.small_len_quick, self.small_len_thorough), tier.pick(self.max_len_quick, self.max_len_thorough), &mut |src| {
                if sorted_only {
                    let v = expand(&src, &d);
                    if v.windows(2).any(|w| w[0] > w[1]) {
                        return true;
                    }
                }
                let go = f(src);
                stopped |= !go;
                go
            });
        }
        if !stopped {
            for src in &self.extra {
                if !f(src.clone()) {
                    return;
                }
            }
        }
    }
    fn run(&self, case: &Src) -> Outcome {
        let v = expand(case, &self.dom);
        (self.run)(&v)
    }
}

pub struct Counted(pub Enum<Spec>);
impl Subject for Counted {
    fn name(&self) -> String {
        self.0.name()
    }
    fn explore(&self, ctx: &mut Ctx) {
        READS.store(0, Ordering::Relaxed);
        self.0.explore(ctx);
        let n = READS.swap(0, Ordering::Relaxed);
        let name = self.name();
        ctx.stats(&name).extra.insert("element_reads".into(), n);
    }
    fn replay(&self, ctx: &mut Ctx, w: &Value) -> Verdict {
        self.0.replay(ctx, w)
    }
}

fn spec(name: &str, dom: Dom, what: &'static str, run: impl Fn(&[i128]) -> Outcome + 'static) -> Spec {
    Spec { name: name.to_string(), dom, sorted_only: false, small_len_quick: 5, small_len_thorough: 6, max_len_quick: 2049, max_len_thorough: 17409, what, run: Box::new(run), extra: Vec::new(), only_extra: false }
}

// ---------------------------------------------------------------------------------------------
// IntVec<T>

trait Elem: PackedInt {
    fn dom() -> Dom;
    fn from_i128(v: i128) -> Self;
    fn to_i128(self) -> i128;
    const NAME: &'static str;
}
macro_rules! elem {
    ($t:ty, $bits:expr, $signed:expr) => {
        impl Elem for $t {
            fn dom() -> Dom {
                if $signed {
                    Dom::of_signed($bits)
                } else {
                    Dom::of_unsigned($bits)
                }
            }
            fn from_i128(v: i128) -> Self {
                v as $t
            }
            fn to_i128(self) -> i128 {
                self as i128
            }
            const NAME: &'static str = stringify!($t);
        }
    };
}
elem!(u8, 8, false);
elem!(u16, 16, false);
elem!(u32, 32, false);
elem!(u64, 64, false);
elem!(i8, 8, true);
elem!(i16, 16, true);
elem!(i32, 32, true);
elem!(i64, 64, true);

/// Unsorted grid points just above the switch to `analyze_optimal_strategy` (`len > 10000` and more than 16 KiB of
/// elements): the only place where IntVec compares MinMax / Delta / BlockBased and may pick the sample+offset block
/// encoding.  The full grid reaches these lengths in the thorough tier only; these few points are cheap enough for both.
fn optimal_path_points(d: &Dom, elem_bytes: usize) -> Vec<Src> {
    let len: u32 = if elem_bytes == 1 { 17409 } else { 10001 };
    let maxk = if d.signed() { d.bits - 1 } else { d.bits };
    let mut sh = vec![Shape::Const(1), Shape::SmallRange { high: false }, Shape::SmallRange { high: true }, Shape::AltMinMax, Shape::AllBits, Shape::DipAt1];
    for at in [Where::First, Where::Mid, Where::BlockEnd, Where::Last] {
        sh.push(Shape::Outlier { at, min: false });
    }
    for k in [0u8, 6, 14, 40, 62] {
        if k == 0 || (k as u32) + 1 < maxk {
            sh.push(Shape::Saw { k });
        }
    }
    for k in [4u8, 20, 44, 56] {
        if (k as u32) + 4 <= maxk {
            sh.push(Shape::WideNoise { k });
        }
    }
    for k in [1u8, 8, 16, 33, 47, 48, 58, 59, 63, 64] {
        if k as u32 > maxk {
            continue;
        }
        sh.push(Shape::TwoVal { k, plus: false });
        if (k as u32) < maxk {
            sh.push(Shape::TwoVal { k, plus: true });
            sh.push(Shape::HighBase { k });
        }
    }
    let mut v: Vec<Src> = sh.into_iter().map(|shape| Src::G { len, shape }).collect();
    // the same shapes one block longer / exactly on a 128-element block boundary
    for l in [len + 127, if elem_bytes == 1 { 17408 + 128 } else { 10112 }] {
        for k in [0u8, 6] {
            v.push(Src::G { len: l, shape: Shape::Saw { k } });
        }
    }
    v
}

fn intvec_specs<T: Elem>(out: &mut Vec<Spec>) {
    type Ctor<T> = fn(&[T]) -> zipora::error::Result<IntVec<T>>;
    let ctors: [(&str, Ctor<T>); 3] = [("from_slice", IntVec::<T>::from_slice), ("from_slice_bulk", IntVec::<T>::from_slice_bulk), ("from_slice_bulk_simd", IntVec::<T>::from_slice_bulk_simd)];
    for (cname, ctor) in ctors {
        for optimal in [false, true] {
        // the bulk constructor delegates to from_slice: one optimal-path subject per element type is enough
        if optimal && cname != "from_slice" {
            continue;
        }
        let sname = if optimal { format!("IntVec/{}<{}>/n>10000", cname, T::NAME) } else { format!("IntVec/{}<{}>", cname, T::NAME) };
        let mut sp = spec(&sname, T::dom(), "reads: get(i) for every i, get(len), get(len+7), len; the same reads on a clone()", move |vals| {
            let input: Vec<T> = vals.iter().map(|&v| T::from_i128(v)).collect();
            let iv = match catch(|| ctor(&input)) {
                Ok(Ok(iv)) => iv,
                Ok(Err(_)) => return Outcome::skip("construct_err"),
                Err(pf) => return fail("construct", panic_class(&pf.detail), pf.detail),
            };
            let get = |i: usize| match catch(|| iv.get(i)) {
                Ok(Some(x)) => Got::Val(x.to_i128()),
                Ok(None) => Got::Refused,
                Err(pf) => Got::Panic(pf.detail),
            };
            // classes of IntVec use the width of the u64 image (what the container packs), see width_class_u64
            let img: Vec<i128> = vals.iter().map(|&v| T::from_i128(v).to_u64() as i128).collect();
            let get_img = |i: usize| match get(i) {
                Got::Val(x) => Got::Val(T::from_i128(x).to_u64() as i128),
                o => o,
            };
            let r = Reader { len: iv.len(), get: &get_img, get2: None, oob_panics_documented: false, class_of: &|v: &[i128]| generic_class(v, std::mem::size_of::<T>()) };
            if let Some(o) = check_reads(&img, &r) {
                return o;
            }
            // Clone is written by hand (strategy, data, index, len): the clone must answer like the original
            let cl = iv.clone();
            let n = img.len();
            let probes: Vec<usize> = if n <= 64 { (0..n).collect() } else { vec![0, 1, n / 2, 127.min(n - 1), 128.min(n - 1), n - 2, n - 1] };
            for i in probes {
                let got = catch(|| cl.get(i)).ok().flatten().map(|x| x.to_u64() as i128);
                if got != Some(img[i]) {
                    return fail("clone", format!("wrong_value/{}", generic_class(&img, std::mem::size_of::<T>())), format!("clone().get({i}) = {:?}, stored {}", got, img[i]));
                }
            }
            if cl.len() != n || catch(|| cl.get(n)).ok().flatten().is_some() {
                return fail("clone", "len", format!("clone().len() = {}, get(len) = {:?}; {} values were stored", cl.len(), catch(|| cl.get(n)).ok().flatten().map(|x| x.to_u64()), n));
            }
            pass(&img)
        });
        if optimal {
            sp.extra = optimal_path_points(&T::dom(), std::mem::size_of::<T>());
            sp.only_extra = true;
        }
        out.push(sp);
        }
    }
}

// ---------------------------------------------------------------------------------------------
// the other containers

fn got_usize(r: Result<usize, zverif::Fail>) -> Got {
    match r {
        Ok(x) => Got::Val(x as i128),
        Err(pf) => Got::Panic(pf.detail),
    }
}

fn min0_reader_check(v: &UintVecMin0, base: i128, vals: &[i128]) -> Option<Outcome> {
    let get = |i: usize| match got_usize(catch(|| v.get(i))) {
        Got::Val(x) => Got::Val(x + base),
        o => o,
    };
    let get2 = |i: usize| match catch(|| v.get2(i)) {
        Ok([a, b]) => (Got::Val(a as i128 + base), Got::Val(b as i128 + base)),
        Err(pf) => (Got::Panic(pf.detail.clone()), Got::Panic(pf.detail)),
    };
    let class_of = |vs: &[i128]| min0_class(vs, base);
    check_reads(vals, &Reader { len: v.size(), get: &get, get2: Some(&get2), oob_panics_documented: true, class_of: &class_of })
}

/// UintVecMin0 / ZipIntVec: does the largest stored wire value (value - base) need more than 58 bits?
fn min0_class(vs: &[i128], base: i128) -> String {
    let mx = vs.iter().map(|&x| x - base).max().unwrap_or(0);
    if mx >= (1i128 << 58) { "bits>58".into() } else { "bits<=58".into() }
}

fn zip_reader_check(v: &ZipIntVec, vals: &[i128]) -> Option<Outcome> {
    let get = |i: usize| got_usize(catch(|| v.get(i)));
    let get2 = |i: usize| match catch(|| v.get2(i)) {
        Ok([a, b]) => (Got::Val(a as i128), Got::Val(b as i128)),
        Err(pf) => (Got::Panic(pf.detail.clone()), Got::Panic(pf.detail)),
    };
    let class_of = |vs: &[i128]| min0_class(vs, v.min_val() as i128);
    check_reads(vals, &Reader { len: v.size(), get: &get, get2: Some(&get2), oob_panics_documented: true, class_of: &class_of })
}

fn uintvector_check(v: &UintVector, vals: &[i128]) -> Option<Outcome> {
    let get = |i: usize| match catch(|| v.get(i)) {
        Ok(Some(x)) => Got::Val(x as i128),
        Ok(None) => Got::Refused,
        Err(pf) => Got::Panic(pf.detail),
    };
    check_reads(vals, &Reader { len: v.len(), get: &get, get2: None, oob_panics_documented: false, class_of: &|v: &[i128]| generic_class(v, 4) })
}

fn other_specs(out: &mut Vec<Spec>) {
    let u32d = Dom::of_unsigned(32);
    // UintVecMin0 / ZipIntVec document 0..58 bits per value: the small scope straddles that limit
    let u64d = Dom { alpha: Some([0, 1, 1 << 57, (1 << 58) - 1, (1i128 << 64) - 1]), ..Dom::of_unsigned(64) };
    // SortedUintVec: the small scope straddles offset_width 16 and sample_width 32
    let sortd = Dom { alpha: Some([0, 1, 65535, 65536, 1 << 32]), ..Dom::of_unsigned(64) };
    let i32d = Dom::of_signed(32);

    // ---- UintVector
    out.push(spec("UintVector/build_from", u32d, "reads: get(i) for every i, get(len), get(len+7), len", |vals| {
        let input: Vec<u32> = vals.iter().map(|&v| v as u32).collect();
        let uv = match catch(|| UintVector::build_from(&input)) {
            Ok(Ok(v)) => v,
            Ok(Err(_)) => return Outcome::skip("construct_err"),
            Err(pf) => return fail("construct", panic_class(&pf.detail), pf.detail),
        };
        uintvector_check(&uv, vals).unwrap_or_else(|| pass(vals))
    }));
    let mut s = spec("UintVector/push", u32d, "incremental: push one element at a time, after EVERY push re-read the whole prefix (get(i) for every i, get(len), len)", |vals| {
        let mut uv = UintVector::new();
        for (n, &x) in vals.iter().enumerate() {
            match catch(|| uv.push(x as u32)) {
                Ok(Ok(())) => {}
                Ok(Err(_)) => return Outcome::skip("push_err"),
                Err(pf) => return fail("construct", format!("push_{}", panic_class(&pf.detail)), pf.detail),
            }
            if let Some(o) = uintvector_check(&uv, &vals[..=n]) {
                return o;
            }
        }
        if let Some(o) = uintvector_check(&uv, vals) {
            return o;
        }
        pass(vals)
    });
    s.max_len_quick = 257;
    s.max_len_thorough = 1025;
    out.push(s);

    // ---- UintVecMin0 (C++-style: constructors and accessors panic instead of returning errors)
    out.push(spec("UintVecMin0/build_from_usize", u64d, "reads: get(i)+min for every i, get2(i) for every pair, size; out-of-range get/get2 must not return a value", |vals| {
        let input: Vec<usize> = vals.iter().map(|&v| v as usize).collect();
        let (v, min) = match catch(|| UintVecMin0::build_from_usize(&input)) {
            Ok(x) => x,
            Err(pf) => return Outcome::skip(&format!("construct_{}", panic_class(&pf.detail))),
        };
        min0_reader_check(&v, min as i128, vals).unwrap_or_else(|| pass(vals))
    }));
    out.push(spec("UintVecMin0/build_from_u32", u32d, "reads: get(i)+min for every i, get2(i) for every pair, size", |vals| {
        let input: Vec<u32> = vals.iter().map(|&v| v as u32).collect();
        let (v, min) = match catch(|| UintVecMin0::build_from_u32(&input)) {
            Ok(x) => x,
            Err(pf) => return Outcome::skip(&format!("construct_{}", panic_class(&pf.detail))),
        };
        min0_reader_check(&v, min as i128, vals).unwrap_or_else(|| pass(vals))
    }));
    out.push(spec("UintVecMin0/build_from_i32", i32d, "reads: get(i)+min for every i, get2(i) for every pair, size", |vals| {
        let input: Vec<i32> = vals.iter().map(|&v| v as i32).collect();
        let (v, min) = match catch(|| UintVecMin0::build_from_i32(&input)) {
            Ok(x) => x,
            Err(pf) => return Outcome::skip(&format!("construct_{}", panic_class(&pf.detail))),
        };
        min0_reader_check(&v, min as i128, vals).unwrap_or_else(|| pass(vals))
    }));
    out.push(spec("UintVecMin0/new+set", u64d, "new(len, max) then set(i, v[i]) for every i; then reads as above", |vals| {
        let max = vals.iter().copied().max().unwrap_or(0) as usize;
        let r = catch(|| {
            let mut v = UintVecMin0::new(vals.len(), max);
            for (i, &x) in vals.iter().enumerate() {
                v.set(i, x as usize);
            }
            v
        });
        let v = match r {
            Ok(v) => v,
            Err(pf) => return Outcome::skip(&format!("construct_{}", panic_class(&pf.detail))),
        };
        min0_reader_check(&v, 0, vals).unwrap_or_else(|| pass(vals))
    }));
    out.push(spec("UintVecMin0/resize", u64d, "build the first half with new+set, resize(len) (must preserve the stored values), set the rest, shrink_to_fit; then reads as above", |vals| {
        let max = vals.iter().copied().max().unwrap_or(0) as usize;
        let h = vals.len() / 2;
        let r = catch(|| {
            let mut v = UintVecMin0::new_empty();
            v.resize_with_wire_max_val(h, max);
            for i in 0..h {
                v.set(i, vals[i] as usize);
            }
            v.resize(vals.len());
            for i in h..vals.len() {
                v.set(i, vals[i] as usize);
            }
            v.shrink_to_fit();
            v
        });
        let v = match r {
            Ok(v) => v,
            Err(pf) => return Outcome::skip(&format!("construct_{}", panic_class(&pf.detail))),
        };
        min0_reader_check(&v, 0, vals).unwrap_or_else(|| pass(vals))
    }));
    let mut s = spec("UintVecMin0/push_back", u64d, "incremental: push_back one element at a time (bit width grows on demand), after EVERY push re-read the whole prefix", |vals| {
        let mut v = UintVecMin0::new_empty();
        for (n, &x) in vals.iter().enumerate() {
            if let Err(pf) = catch(|| v.push_back(x as usize)) {
                return Outcome::skip(&format!("push_{}", panic_class(&pf.detail)));
            }
            if let Some(o) = min0_reader_check(&v, 0, &vals[..=n]) {
                return o;
            }
        }
        min0_reader_check(&v, 0, vals).unwrap_or_else(|| pass(vals))
    });
    s.max_len_quick = 257;
    s.max_len_thorough = 1025;
    out.push(s);

    // ---- ZipIntVec
    out.push(spec("ZipIntVec/build_from_usize", u64d, "reads: get(i) for every i, get2(i) for every pair, size", |vals| {
        let input: Vec<usize> = vals.iter().map(|&v| v as usize).collect();
        let v = match catch(|| ZipIntVec::build_from_usize(&input)) {
            Ok(x) => x,
            Err(pf) => return Outcome::skip(&format!("construct_{}", panic_class(&pf.detail))),
        };
        zip_reader_check(&v, vals).unwrap_or_else(|| pass(vals))
    }));
    out.push(spec("ZipIntVec/build_from_u32", u32d, "reads: get(i) for every i, get2(i) for every pair, size", |vals| {
        let input: Vec<u32> = vals.iter().map(|&v| v as u32).collect();
        let v = match catch(|| ZipIntVec::build_from_u32(&input)) {
            Ok(x) => x,
            Err(pf) => return Outcome::skip(&format!("construct_{}", panic_class(&pf.detail))),
        };
        zip_reader_check(&v, vals).unwrap_or_else(|| pass(vals))
    }));
    out.push(spec("ZipIntVec/new+set", u64d, "new(len, min, max) then set(i, v[i]); then reads as above", |vals| {
        let (Some(&mn), Some(&mx)) = (vals.iter().min(), vals.iter().max()) else { return Outcome::skip("empty_needs_no_range") };
        let r = catch(|| {
            let mut v = ZipIntVec::new(vals.len(), mn as usize, mx as usize);
            for (i, &x) in vals.iter().enumerate() {
                v.set(i, x as usize);
            }
            v
        });
        let v = match r {
            Ok(v) => v,
            Err(pf) => return Outcome::skip(&format!("construct_{}", panic_class(&pf.detail))),
        };
        zip_reader_check(&v, vals).unwrap_or_else(|| pass(vals))
    }));
    let mut s = spec("ZipIntVec/push_back", u64d, "incremental: new_empty then push_back one element at a time, after EVERY push re-read the whole prefix", |vals| {
        let mut v = ZipIntVec::new_empty();
        for (n, &x) in vals.iter().enumerate() {
            if let Err(pf) = catch(|| v.push_back(x as usize)) {
                return Outcome::skip(&format!("push_{}", panic_class(&pf.detail)));
            }
            if let Some(o) = zip_reader_check(&v, &vals[..=n]) {
                return o;
            }
        }
        zip_reader_check(&v, vals).unwrap_or_else(|| pass(vals))
    });
    s.max_len_quick = 257;
    s.max_len_thorough = 1025;
    out.push(s);

    // ---- SortedUintVec: every log2_block_units, the three presets and two extreme width combinations
    let mut cfgs: Vec<(String, SortedUintVecConfig, Option<Dom>)> = Vec::new();
    for l in 4..=8u8 {
        cfgs.push((format!("log2={l},ow=16,sw=32"), SortedUintVecConfig { log2_block_units: l, offset_width: 16, sample_width: 32, use_simd: l % 2 == 0 }, None));
        cfgs.push((format!("log2={l},ow=32,sw=64"), SortedUintVecConfig { log2_block_units: l, offset_width: 32, sample_width: 64, use_simd: l % 2 == 1 }, None));
    }
    cfgs.push(("default".into(), SortedUintVecConfig::default(), None));
    cfgs.push(("performance_optimized".into(), SortedUintVecConfig::performance_optimized(), None));
    cfgs.push(("memory_optimized".into(), SortedUintVecConfig::memory_optimized(), None));
    // (sample_width 61 is refused by validate() since the repair of the nine-byte field defect: these two subjects
    // are kept for the stability of their names, every case is a constructor refusal)
    cfgs.push(("log2=6,ow=13,sw=61,simd".into(), SortedUintVecConfig { log2_block_units: 6, offset_width: 13, sample_width: 61, use_simd: true }, None));
    cfgs.push(("log2=6,ow=13,sw=61,portable".into(), SortedUintVecConfig { log2_block_units: 6, offset_width: 13, sample_width: 61, use_simd: false }, None));
    cfgs.push(("log2=5,ow=8,sw=16,simd".into(), SortedUintVecConfig { log2_block_units: 5, offset_width: 8, sample_width: 16, use_simd: true }, None));
    // appended by the coverage audit: widths that are NOT multiples of 8 (every sample / delta field starts at a
    // different bit offset inside its byte; every sample width of the list above is byte-aligned), the largest width
    // below 64 that validate() accepts (56), both bit-extraction back ends, and a small-scope alphabet that straddles
    // 2^offset_width and 2^sample_width of the configuration itself (the fixed alphabet above only does so for 16/32)
    for (l, ow, sw, simd) in [(6u8, 13u8, 56u8, true), (6, 13, 56, false), (4, 9, 17, true), (5, 9, 17, false), (6, 31, 55, true), (7, 31, 55, false), (6, 12, 33, false), (8, 20, 47, true), (4, 32, 64, false)] {
        let alpha = [0i128, (1i128 << ow) - 1, 1i128 << ow, (1i128 << sw) - 1, if sw < 64 { 1i128 << sw } else { (1i128 << 64) - 2 }];
        cfgs.push((
            format!("log2={l},ow={ow},sw={sw},{}/widths", if simd { "simd" } else { "portable" }),
            SortedUintVecConfig { log2_block_units: l, offset_width: ow, sample_width: sw, use_simd: simd },
            Some(Dom { alpha: Some(alpha), ..Dom::of_unsigned(64) }),
        ));
    }
    for (cn, cfg0) in [("performance_optimized", SortedUintVecConfig::performance_optimized()), ("memory_optimized", SortedUintVecConfig::memory_optimized())] {
        let (ow, sw) = (cfg0.offset_width, cfg0.sample_width);
        let alpha = [0i128, (1i128 << ow) - 1, 1i128 << ow, (1i128 << sw) - 1, 1i128 << sw];
        cfgs.push((format!("{cn}/widths"), cfg0, Some(Dom { alpha: Some(alpha), ..Dom::of_unsigned(64) })));
    }
    for (cn, cfg, dom_override) in cfgs {
        let sdom = dom_override.unwrap_or(sortd);
        for ctor in ["push", "extend"] {
            if ctor == "extend" && !cn.starts_with("default") {
                continue;
            }
            let mut s = spec(&format!("SortedUintVec[{cn}]/{ctor}"), sdom, "builder push/extend of the whole sequence then finish(); reads: get(i) for every i, get(len), get(len+7), get2(i) for every pair, get_block(b) for every block compared with the block's values, get_block(num_blocks) refused, len", move |vals| {
                let r = catch(|| -> zipora::error::Result<_> {
                    let mut b = SortedUintVecBuilder::with_config(cfg);
                    if ctor == "push" {
                        for &x in vals {
                            b.push(x as u64)?;
                        }
                    } else {
                        b.extend(vals.iter().map(|&x| x as u64))?;
                    }
                    b.finish()
                });
                let sv = match r {
                    Ok(Ok(v)) => v,
                    Ok(Err(_)) => return Outcome::skip("construct_err"),
                    Err(pf) => return fail("construct", panic_class(&pf.detail), pf.detail),
                };
                let sw = cfg.sample_width as u32;
                let fits = move |vs: &[i128]| -> String {
                    if vs.iter().any(|&x| sw < 64 && x >= (1i128 << sw)) { "value>=2^sample_width".into() } else { "value<2^sample_width".into() }
                };
                let get = |i: usize| match catch(|| sv.get(i)) {
                    Ok(Ok(x)) => Got::Val(x as i128),
                    Ok(Err(_)) => Got::Refused,
                    Err(pf) => Got::Panic(pf.detail),
                };
                let get2 = |i: usize| match catch(|| sv.get2(i)) {
                    Ok(Ok((a, b))) => (Got::Val(a as i128), Got::Val(b as i128)),
                    Ok(Err(_)) => (Got::Refused, Got::Refused),
                    Err(pf) => (Got::Panic(pf.detail.clone()), Got::Panic(pf.detail)),
                };
                if let Some(o) = check_reads(vals, &Reader { len: sv.len(), get: &get, get2: Some(&get2), oob_panics_documented: false, class_of: &fits }) {
                    return o;
                }
                // get_block
                let bs = cfg.block_size();
                let nb = (vals.len() + bs - 1) / bs;
                rd(vals.len());
                for b in 0..nb {
                    let mut buf = vec![0xA5A5_A5A5_A5A5_A5A5u64; bs];
                    match catch(|| sv.get_block(b, &mut buf)) {
                        Ok(Ok(())) => {
                            let want = &vals[b * bs..((b + 1) * bs).min(vals.len())];
                            for (j, &w) in want.iter().enumerate() {
                                if buf[j] as i128 != w {
                                    return fail("get_block", format!("wrong_value/{}", fits(vals)), format!("get_block({b})[{j}] = {}, stored {w} (n={})", buf[j], vals.len()));
                                }
                            }
                        }
                        Ok(Err(e)) => return fail("get_block", format!("err_in_range/{}", fits(vals)), format!("get_block({b}) of {nb} blocks = Err({e})")),
                        Err(pf) => return fail("get_block", format!("panic_in_range/{}", fits(vals)), format!("get_block({b}) of {nb}: {}", pf.detail)),
                    }
                }
                let mut buf = vec![0u64; bs];
                match catch(|| sv.get_block(nb, &mut buf)) {
                    Ok(Ok(())) => return fail("get_past_end", "get_block/returns_ok", format!("get_block({nb}) = Ok with only {nb} blocks")),
                    Ok(Err(_)) => {}
                    Err(pf) => return fail("get_past_end", "get_block/panic", pf.detail),
                }
                pass(vals)
            });
            s.sorted_only = true;
            s.small_len_quick = 6;
            s.small_len_thorough = 7;
            s.max_len_quick = 1001;
            s.max_len_thorough = 4097;
            out.push(s);
        }
    }
}

// ---------------------------------------------------------------------------------------------
// E1 — in-place mutation histories of the mutable containers (UintVecMin0 / ZipIntVec)
//
// The E2 subjects above write every slot exactly once into zeroed storage.  Here the container starts FULL of
// non-zero values (built by new+set / new_empty+push_back / build_from_usize) and every history of
// set (overwrite) / push_back / resize(0 | smaller | larger) / shrink_to_fit / clear is executed against a
// `Vec<Option<u64>>` model (None = a slot whose content the API leaves unspecified: exposed by resize(larger));
// after every step every known slot is read back with get / get2 / back and `size` is compared.
// Value symbols are relative to the CURRENT bit width of the model: 0, 1, mask, 0xAA..&mask, 0x55..&mask
// (A -> 5 and 5 -> A overwrite every bit with its complement) and mask+1 (push_back only: forces a wider field).
// Slot symbols: 0, the slot that contains bit 64 of the packed array (a field that straddles the first u64 word
// wherever the width does not divide 64), the last slot.
// A documented-panic API (`set`, `push_back`, `get` have no Result) that panics = the operation is refused: the
// model is unchanged and the container must still answer like the model.

#[derive(Clone, Copy, Debug, PartialEq, Eq, Hash)]
pub enum VSym {
    Zero,
    One,
    Max,
    A,
    F5,
    /// mask + 1: one bit wider than the current field
    Wide,
}

#[derive(Clone, Copy, Debug, PartialEq, Eq, Hash)]
pub enum SlotSym {
    First,
    /// the slot that contains bit 64 of the packed bit array (index 64 / bits)
    Word,
    Last,
}

#[derive(Clone, Copy, PartialEq, Eq, Hash)]
pub enum MOp {
    Set(SlotSym, VSym),
    PushBack(VSym),
    ResizeZero,
    /// resize(size - 3)
    ResizeSmaller,
    /// resize(size + 3): the new slots are unspecified until they are set
    ResizeLarger,
    ShrinkToFit,
    Clear,
}

impl std::fmt::Debug for MOp {
    fn fmt(&self, f: &mut std::fmt::Formatter<'_>) -> std::fmt::Result {
        match self {
            MOp::Set(s, v) => write!(f, "Set({:?},{:?})", s, v),
            MOp::PushBack(v) => write!(f, "PushBack({:?})", v),
            MOp::ResizeZero => write!(f, "Resize(0)"),
            MOp::ResizeSmaller => write!(f, "Resize(size-3)"),
            MOp::ResizeLarger => write!(f, "Resize(size+3)"),
            MOp::ShrinkToFit => write!(f, "ShrinkToFit"),
            MOp::Clear => write!(f, "Clear"),
        }
    }
}

#[derive(Clone, Copy, Debug, PartialEq, Eq)]
pub enum MutKind {
    Min0,
    Zip,
}

#[derive(Clone, Copy, Debug, PartialEq, Eq)]
pub enum MutStart {
    NewSet,
    PushBack,
    BuildFrom,
}

pub enum MutReal {
    Min0(UintVecMin0),
    Zip(ZipIntVec),
}

pub struct MutSt {
    real: MutReal,
    /// absolute values (base + wire value); None = unspecified content
    vals: Vec<Option<u64>>,
    /// bit width of the wire values according to the documented growth rule (max over what was stored)
    bits: u32,
    /// ZipIntVec min_val (0 for UintVecMin0)
    base: u64,
}

pub struct MutSpec {
    pub kind: MutKind,
    pub bits: u32,
    pub start: MutStart,
    pub depth_quick: usize,
    pub depth_thorough: usize,
}

fn mask_of(bits: u32) -> u64 {
    if bits == 0 {
        0
    } else if bits >= 64 {
        u64::MAX
    } else {
        (1u64 << bits) - 1
    }
}

fn bitlen(v: u64) -> u32 {
    64 - v.leading_zeros()
}

impl MutSpec {
    fn n0(&self) -> usize {
        // enough slots for the one that contains bit 64 of the packed array
        if self.bits == 1 {
            70
        } else {
            12
        }
    }
    /// wire value the scripted prefix stores in slot i: slot 0 = mask (fixes the width), slot 1 = 0 for
    /// build_from (so that min == base), every other slot non-zero with a mixed bit pattern
    fn pat(&self, i: usize) -> u64 {
        let m = mask_of(self.bits);
        match i {
            0 => m,
            1 if self.start == MutStart::BuildFrom => 0,
            _ => ((0x9E37_79B9_7F4A_7C15u64.wrapping_mul(i as u64 + 1)) >> 3 | 1) & m,
        }
    }
    fn resolve(v: VSym, bits: u32) -> u64 {
        let m = mask_of(bits);
        match v {
            VSym::Zero => 0,
            VSym::One => 1.min(m),
            VSym::Max => m,
            VSym::A => 0xAAAA_AAAA_AAAA_AAAA & m,
            VSym::F5 => 0x5555_5555_5555_5555 & m,
            VSym::Wide => m + 1,
        }
    }
    fn slot(s: SlotSym, st: &MutSt) -> Option<usize> {
        let n = st.vals.len();
        if n == 0 {
            return None;
        }
        match s {
            SlotSym::First => Some(0),
            SlotSym::Word => {
                let w = 64 / st.bits.max(1) as usize;
                if w > 0 && w < n - 1 {
                    Some(w)
                } else {
                    None
                }
            }
            SlotSym::Last => {
                if n > 1 {
                    Some(n - 1)
                } else {
                    None
                }
            }
        }
    }
}

impl MutReal {
    fn size(&self) -> usize {
        match self {
            MutReal::Min0(v) => v.size(),
            MutReal::Zip(v) => v.size(),
        }
    }
    fn is_empty(&self) -> bool {
        match self {
            MutReal::Min0(v) => v.is_empty(),
            MutReal::Zip(v) => v.is_empty(),
        }
    }
    fn get(&self, i: usize) -> Result<u64, zverif::Fail> {
        match self {
            MutReal::Min0(v) => catch(|| v.get(i) as u64),
            MutReal::Zip(v) => catch(|| v.get(i) as u64),
        }
    }
    fn get2(&self, i: usize) -> Result<[u64; 2], zverif::Fail> {
        match self {
            MutReal::Min0(v) => catch(|| v.get2(i)).map(|[a, b]| [a as u64, b as u64]),
            MutReal::Zip(v) => catch(|| v.get2(i)).map(|[a, b]| [a as u64, b as u64]),
        }
    }
    fn back(&self) -> Result<u64, zverif::Fail> {
        match self {
            MutReal::Min0(v) => catch(|| v.back() as u64),
            MutReal::Zip(v) => catch(|| v.back() as u64),
        }
    }
    /// absolute value (ZipIntVec takes absolute values, UintVecMin0 has base 0)
    fn set(&mut self, i: usize, abs: u64) -> Result<(), zverif::Fail> {
        match self {
            MutReal::Min0(v) => catch(|| v.set(i, abs as usize)),
            MutReal::Zip(v) => catch(|| v.set(i, abs as usize)),
        }
    }
    fn push_back(&mut self, abs: u64) -> Result<(), zverif::Fail> {
        match self {
            MutReal::Min0(v) => catch(|| v.push_back(abs as usize)),
            MutReal::Zip(v) => catch(|| v.push_back(abs as usize)),
        }
    }
    fn resize(&mut self, n: usize) -> Result<(), zverif::Fail> {
        match self {
            MutReal::Min0(v) => catch(|| v.resize(n)),
            MutReal::Zip(v) => catch(|| v.resize(n)),
        }
    }
    fn shrink_to_fit(&mut self) -> Result<(), zverif::Fail> {
        match self {
            MutReal::Min0(v) => catch(|| v.shrink_to_fit()),
            MutReal::Zip(v) => catch(|| v.shrink_to_fit()),
        }
    }
    fn clear(&mut self) -> Result<(), zverif::Fail> {
        match self {
            MutReal::Min0(v) => catch(|| v.clear()),
            MutReal::Zip(v) => catch(|| v.clear()),
        }
    }
}

impl SeqSpec for MutSpec {
    type Op = MOp;
    type St = MutSt;

    fn name(&self) -> String {
        format!(
            "{}/mutate[bits={},start={}]",
            if self.kind == MutKind::Min0 { "UintVecMin0" } else { "ZipIntVec" },
            self.bits,
            match self.start {
                MutStart::NewSet => "new+set",
                MutStart::PushBack => "push_back",
                MutStart::BuildFrom => "build_from_usize",
            }
        )
    }
    fn depth(&self, tier: Tier) -> usize {
        tier.pick(self.depth_quick, self.depth_thorough)
    }
    fn bound(&self, tier: Tier) -> String {
        format!(
            "start: {} slots of {} bits, all but at most one non-zero, built by {:?}{}; all histories of <= {} mutators from {{set(slot, v) slot in [0, slot containing bit 64 of the packed array, last] x v in [0, 1, mask, 0xAA..&mask, 0x55..&mask]; push_back(v) v in the same values and mask+1 (forces a wider field); resize(0), resize(size-3), resize(size+3); shrink_to_fit; clear}}; value symbols are relative to the current width; after every step: size, is_empty, get(i) of every slot whose content is specified, get(size) refused, get2(i) of every specified pair, back",
            self.n0(),
            self.bits,
            self.start,
            if self.kind == MutKind::Zip && self.start != MutStart::PushBack { ", min_val 1000" } else { "" },
            self.depth(tier)
        )
    }
    fn init(&self, _scratch: &std::path::Path) -> Result<MutSt, zverif::Fail> {
        let n = self.n0();
        let base: u64 = if self.kind == MutKind::Zip && self.start != MutStart::PushBack { 1000 } else { 0 };
        let m = mask_of(self.bits);
        let wire: Vec<u64> = (0..n).map(|i| self.pat(i)).collect();
        let abs: Vec<u64> = wire.iter().map(|w| w + base).collect();
        let built = catch(|| match (self.kind, self.start) {
            (MutKind::Min0, MutStart::NewSet) => {
                let mut v = UintVecMin0::new(n, m as usize);
                for (i, &x) in abs.iter().enumerate() {
                    v.set(i, x as usize);
                }
                MutReal::Min0(v)
            }
            (MutKind::Min0, MutStart::PushBack) => {
                let mut v = UintVecMin0::new_empty();
                for &x in &abs {
                    v.push_back(x as usize);
                }
                MutReal::Min0(v)
            }
            (MutKind::Min0, MutStart::BuildFrom) => {
                let input: Vec<usize> = abs.iter().map(|&x| x as usize).collect();
                MutReal::Min0(UintVecMin0::build_from_usize(&input).0)
            }
            (MutKind::Zip, MutStart::NewSet) => {
                let mut v = ZipIntVec::new(n, base as usize, (base + m) as usize);
                for (i, &x) in abs.iter().enumerate() {
                    v.set(i, x as usize);
                }
                MutReal::Zip(v)
            }
            (MutKind::Zip, MutStart::PushBack) => {
                let mut v = ZipIntVec::new_empty();
                for &x in &abs {
                    v.push_back(x as usize);
                }
                MutReal::Zip(v)
            }
            (MutKind::Zip, MutStart::BuildFrom) => {
                let input: Vec<usize> = abs.iter().map(|&x| x as usize).collect();
                MutReal::Zip(ZipIntVec::build_from_usize(&input))
            }
        });
        let real = built.map_err(|pf| zverif::Fail::new("construct", format!("scripted prefix panicked: {}", pf.detail)))?;
        Ok(MutSt { real, vals: abs.into_iter().map(Some).collect(), bits: self.bits, base })
    }
    fn ops(&self, st: &MutSt) -> Vec<MOp> {
        let mut v = Vec::new();
        let vals5 = [VSym::Zero, VSym::One, VSym::Max, VSym::A, VSym::F5];
        for s in [SlotSym::First, SlotSym::Word, SlotSym::Last] {
            if MutSpec::slot(s, st).is_some() {
                for x in vals5 {
                    v.push(MOp::Set(s, x));
                }
            }
        }
        for x in vals5 {
            v.push(MOp::PushBack(x));
        }
        v.push(MOp::PushBack(VSym::Wide));
        v.push(MOp::ResizeZero);
        if st.vals.len() >= 4 {
            v.push(MOp::ResizeSmaller);
        }
        v.push(MOp::ResizeLarger);
        v.push(MOp::ShrinkToFit);
        v.push(MOp::Clear);
        v
    }
    fn apply(&self, st: &mut MutSt, op: &MOp) -> Result<(), zverif::Fail> {
        match *op {
            MOp::Set(s, x) => {
                let i = MutSpec::slot(s, st).expect("enabled");
                let abs = st.base + MutSpec::resolve(x, st.bits);
                if st.real.set(i, abs).is_ok() {
                    st.vals[i] = Some(abs);
                }
            }
            MOp::PushBack(x) => {
                let w = MutSpec::resolve(x, st.bits);
                let abs = st.base + w;
                if st.real.push_back(abs).is_ok() {
                    st.vals.push(Some(abs));
                    st.bits = st.bits.max(bitlen(w));
                }
            }
            MOp::ResizeZero => {
                if st.real.resize(0).is_ok() {
                    st.vals.clear();
                }
            }
            MOp::ResizeSmaller => {
                let n = st.vals.len() - 3;
                if st.real.resize(n).is_ok() {
                    st.vals.truncate(n);
                }
            }
            MOp::ResizeLarger => {
                let n = st.vals.len() + 3;
                if st.real.resize(n).is_ok() {
                    st.vals.resize(n, None);
                }
            }
            MOp::ShrinkToFit => {
                let _ = st.real.shrink_to_fit();
            }
            MOp::Clear => {
                if st.real.clear().is_ok() {
                    st.vals.clear();
                    st.bits = 0;
                    st.base = 0;
                }
            }
        }
        Ok(())
    }
    fn observe(&self, st: &mut MutSt, h: &mut std::collections::hash_map::DefaultHasher) -> Result<(), zverif::Fail> {
        use std::hash::Hash;
        st.vals.hash(h);
        st.bits.hash(h);
        st.base.hash(h);
        let n = st.vals.len();
        let width = format!("bits={}", st.bits);
        let mf = |clause: &str, class: &str, detail: String| zverif::Fail::new(clause, detail).with_class(format!("{class}/{width}"));
        if st.real.size() != n {
            return Err(mf("len", "wrong", format!("size() = {}, the model holds {} slots", st.real.size(), n)));
        }
        if st.real.is_empty() != (n == 0) {
            return Err(mf("len", "is_empty", format!("is_empty() = {}, the model holds {} slots", st.real.is_empty(), n)));
        }
        rd(n + 1);
        for i in 0..n {
            if let Some(want) = st.vals[i] {
                match st.real.get(i) {
                    Ok(got) if got == want => {}
                    Ok(got) => return Err(mf("get", "wrong_value", format!("get({i}) = {got:#x}, last value stored in that slot {want:#x} (n={n}, {width})"))),
                    Err(pf) => return Err(mf("get", "panic_in_range", format!("get({i}) with {n} slots: {}", pf.detail))),
                }
            }
        }
        if let Ok(got) = st.real.get(n) {
            return Err(mf("get_past_end", "returns_value/i==len", format!("get({n}) = {got:#x} with only {n} slots")));
        }
        for i in 0..n.saturating_sub(1) {
            if let (Some(a), Some(b)) = (st.vals[i], st.vals[i + 1]) {
                match st.real.get2(i) {
                    Ok([x, y]) if x == a && y == b => {}
                    Ok([x, y]) => return Err(mf("get2", "wrong_value", format!("get2({i}) = ({x:#x}, {y:#x}), stored ({a:#x}, {b:#x})"))),
                    Err(pf) => return Err(mf("get2", "panic_in_range", format!("get2({i}) with {n} slots: {}", pf.detail))),
                }
            }
        }
        if n > 0 {
            if let Some(want) = st.vals[n - 1] {
                match st.real.back() {
                    Ok(got) if got == want => {}
                    Ok(got) => return Err(mf("get", "back_wrong_value", format!("back() = {got:#x}, last slot holds {want:#x}"))),
                    Err(pf) => return Err(mf("get", "back_panic", format!("back() with {n} slots: {}", pf.detail))),
                }
            }
        }
        Ok(())
    }
}

fn mutate_specs(reg: &mut zverif::Registry) {
    for kind in [MutKind::Min0, MutKind::Zip] {
        for bits in [1u32, 7, 8, 9, 31, 32, 33, 57, 58] {
            for start in [MutStart::NewSet, MutStart::PushBack, MutStart::BuildFrom] {
                reg.add(Seq(MutSpec { kind, bits, start, depth_quick: 3, depth_thorough: 4 }));
            }
        }
    }
}

fn main() {
    zverif::main_with("C09", |reg, _tier| {
        let mut v = Vec::new();
        // 64-bit types first: a known finding with subject "IntVec/from_slice<*" is replayed on the first match
        intvec_specs::<u64>(&mut v);
        intvec_specs::<i64>(&mut v);
        intvec_specs::<u32>(&mut v);
        intvec_specs::<i32>(&mut v);
        intvec_specs::<u16>(&mut v);
        intvec_specs::<i16>(&mut v);
        intvec_specs::<u8>(&mut v);
        intvec_specs::<i8>(&mut v);
        other_specs(&mut v);
        for s in v {
            reg.add(Counted(Enum(s)));
        }
        mutate_specs(reg);
    });
}
