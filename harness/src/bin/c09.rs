//! C09 — compressed integer vectors return every stored value unchanged (engine E2).
//!
//! One subject per (container, constructor).  Every subject enumerates the same abstract space of integer
//! sequences (small scope S ∪ threshold grid G, expanded for the subject's element domain), builds the
//! container and reads EVERY element back: `get(i) == input[i]`, `len`, `get(len)` / `get(len+7)` refused,
//! `get2(i) == (v[i], v[i+1])`, `get_block == the block`.  Incremental construction (`push`) is an E2 case that
//! pushes the sequence one element at a time and re-reads the whole prefix after every push.
//!
//! Constructor outcome: `Err` -> skip (the property allows it).  A panic of a constructor that returns `Result`
//! is a violation (`construct/panic`); a panic of a constructor with no `Result` in its signature
//! (UintVecMin0 / ZipIntVec, C++-style) is its only way to refuse and counts as a skip (`construct_panic`).

use serde::{Deserialize, Serialize};
use std::sync::atomic::{AtomicU64, Ordering};
use zipora::blob_store::sorted_uint_vec::{SortedUintVecBuilder, SortedUintVecConfig};
use zipora::containers::specialized::{IntVec, PackedInt, UintVector};
use zipora::containers::{UintVecMin0, ZipIntVec};
use zverif::enumr::{fail, Enum, EnumSpec};
use zverif::util::catch;
use zverif::{Ctx, Outcome, Subject, Tier, Value, Verdict};

static READS: AtomicU64 = AtomicU64::new(0);
fn rd(n: usize) {
    READS.fetch_add(n as u64, Ordering::Relaxed);
}

// ---------------------------------------------------------------------------------------------
// the abstract space

#[derive(Clone, Copy, Debug, Hash, Serialize, Deserialize, PartialEq, Eq)]
pub enum Where {
    First,
    Mid,
    /// index 63 (end of the first 64-element block), or the last index if shorter
    BlockEnd,
    Last,
}

#[derive(Clone, Copy, Debug, Hash, Serialize, Deserialize, PartialEq, Eq)]
pub enum Shape {
    /// all elements = the a-th value of the small-scope alphabet
    Const(u8),
    /// start + i*step (saturating at MAX); from_min: start = MIN, else 0 (or MIN for unsigned = 0)
    Asc { step_log2: i8, from_min: bool },
    /// base + (7*i mod 13); high: base = MAX-12, else 0
    SmallRange { high: bool },
    /// MIN, MAX, MIN, MAX ..
    AltMinMax,
    /// i mod 4 everywhere except one huge value (MAX, or MIN if `min`) at the given place
    Outlier { at: Where, min: bool },
    /// every value uses the top bits: even i -> MAX - i, odd i -> MIN + i
    AllBits,
    /// ascending step 1 from 5 with a dip (0) at index 1: sorted at every sampled index, not sorted
    DipAt1,
    /// ascending with equal runs: (i / 5) * 3
    SortedRuns,
    /// ascending 1000*i with one huge jump (2^40, saturating) before the given place
    SortedJump { at: Where },
    /// alternating 0 and 2^k-1 (plus=false) or 0 and 2^k (plus=true): range width exactly k / k+1 bits
    TwoVal { k: u8, plus: bool },
    /// sorted variant of TwoVal: first half 0, second half 2^k-1 / 2^k
    Step { k: u8, plus: bool },
    /// i-th value = (2^k) + (i mod 3)  (large base, tiny range)
    HighBase { k: u8 },
    /// (7*i mod 13) << k: unsorted at every stride, range width k+4
    WideNoise { k: u8 },
}

#[derive(Clone, Debug, Hash, Serialize, Deserialize, PartialEq, Eq)]
pub enum Src {
    /// small scope: indices into the 5-value alphabet of the element domain
    S(Vec<u8>),
    G { len: u32, shape: Shape },
}

#[derive(Clone, Copy, Debug)]
pub struct Dom {
    pub min: i128,
    pub max: i128,
    pub bits: u32,
    /// small-scope alphabet override (containers whose documented value range is narrower than the element type)
    pub alpha: Option<[i128; 5]>,
}

impl Dom {
    fn of_unsigned(bits: u32) -> Dom {
        Dom { min: 0, max: (1i128 << bits) - 1, bits, alpha: None }
    }
    fn of_signed(bits: u32) -> Dom {
        Dom { min: -(1i128 << (bits - 1)), max: (1i128 << (bits - 1)) - 1, bits, alpha: None }
    }
    fn signed(&self) -> bool {
        self.min < 0
    }
    fn alphabet(&self) -> [i128; 5] {
        if let Some(a) = self.alpha {
            return a;
        }
        if self.signed() {
            [self.min, -1, 1, self.max - 1, self.max]
        } else {
            [0, 1, 1i128 << (self.bits / 2), self.max - 1, self.max]
        }
    }
    fn clamp(&self, v: i128) -> i128 {
        v.clamp(self.min, self.max)
    }
}

fn place(at: Where, n: usize) -> usize {
    match at {
        Where::First => 0,
        Where::Mid => n / 2,
        Where::BlockEnd => 63.min(n - 1),
        Where::Last => n - 1,
    }
}

pub fn expand(src: &Src, d: &Dom) -> Vec<i128> {
    match src {
        Src::S(ix) => {
            let a = d.alphabet();
            ix.iter().map(|&i| a[i as usize % 5]).collect()
        }
        Src::G { len, shape } => {
            let n = *len as usize;
            let mut v: Vec<i128> = Vec::with_capacity(n);
            for i in 0..n {
                let ii = i as i128;
                let x = match *shape {
                    Shape::Const(a) => d.alphabet()[a as usize % 5],
                    Shape::Asc { step_log2, from_min } => {
                        let step = if step_log2 < 0 { 0 } else { 1i128 << step_log2 };
                        (if from_min { d.min } else { 0 }) + ii * step
                    }
                    Shape::SmallRange { high } => (if high { d.max - 12 } else { 0 }) + (7 * ii) % 13,
                    Shape::AltMinMax => {
                        if i % 2 == 0 {
                            d.min
                        } else {
                            d.max
                        }
                    }
                    Shape::Outlier { at, min } => {
                        if i == place(at, n) {
                            if min {
                                d.min
                            } else {
                                d.max
                            }
                        } else {
                            ii % 4
                        }
                    }
                    Shape::AllBits => {
                        if i % 2 == 0 {
                            d.max - ii
                        } else {
                            d.min + ii
                        }
                    }
                    Shape::DipAt1 => {
                        if i == 1 {
                            0
                        } else {
                            5 + ii
                        }
                    }
                    Shape::SortedRuns => (ii / 5) * 3,
                    Shape::SortedJump { at } => 1000 * ii + if i >= place(at, n) && i > 0 { 1i128 << 40 } else { 0 },
                    Shape::TwoVal { k, plus } => {
                        if i % 2 == 0 {
                            0
                        } else {
                            (1i128 << k) - if plus { 0 } else { 1 }
                        }
                    }
                    Shape::Step { k, plus } => {
                        if i < n / 2 {
                            0
                        } else {
                            (1i128 << k) - if plus { 0 } else { 1 }
                        }
                    }
                    Shape::HighBase { k } => (1i128 << k) + ii % 3,
                    Shape::WideNoise { k } => ((7 * ii) % 13) << k,
                };
                v.push(d.clamp(x));
            }
            v
        }
    }
}

fn grid_lengths(tier: Tier) -> Vec<u32> {
    let mut v = vec![0, 1, 2, 3, 4, 5, 7, 8, 9, 15, 16, 17, 31, 32, 33, 63, 64, 65, 127, 128, 129, 255, 256, 257, 1000, 1001];
    if tier == Tier::Thorough {
        v.extend_from_slice(&[1023, 1024, 1025, 2048, 2049, 4097, 10000, 10001, 17409]);
    }
    v
}

fn shapes(d: &Dom) -> Vec<Shape> {
    let mut v = Vec::new();
    for a in 0..5 {
        v.push(Shape::Const(a));
    }
    for s in [-1i8, 0, 31, 62] {
        if s >= 0 && s as u32 >= d.bits {
            continue;
        }
        v.push(Shape::Asc { step_log2: s, from_min: false });
        if d.signed() && s >= 0 {
            v.push(Shape::Asc { step_log2: s, from_min: true });
        }
    }
    v.push(Shape::SmallRange { high: false });
    v.push(Shape::SmallRange { high: true });
    v.push(Shape::AltMinMax);
    for at in [Where::First, Where::Mid, Where::BlockEnd, Where::Last] {
        v.push(Shape::Outlier { at, min: false });
        if d.signed() {
            v.push(Shape::Outlier { at, min: true });
        }
    }
    v.push(Shape::AllBits);
    v.push(Shape::DipAt1);
    v.push(Shape::SortedRuns);
    if d.bits > 41 {
        for at in [Where::First, Where::Mid, Where::BlockEnd, Where::Last] {
            v.push(Shape::SortedJump { at });
        }
    }
    let maxk = if d.signed() { d.bits - 1 } else { d.bits };
    for k in [4u8, 20, 44, 56] {
        if (k as u32) + 4 <= maxk {
            v.push(Shape::WideNoise { k });
        }
    }
    for k in [1u8, 7, 8, 9, 15, 16, 17, 24, 31, 32, 33, 40, 47, 48, 49, 56, 57, 58, 59, 60, 61, 62, 63, 64] {
        if k as u32 > maxk {
            continue;
        }
        v.push(Shape::TwoVal { k, plus: false });
        v.push(Shape::Step { k, plus: false });
        if (k as u32) < maxk {
            v.push(Shape::TwoVal { k, plus: true });
            v.push(Shape::Step { k, plus: true });
            v.push(Shape::HighBase { k });
        }
    }
    v
}

fn enumerate(tier: Tier, d: &Dom, small_len: usize, max_len: usize, f: &mut dyn FnMut(Src) -> bool) {
    let alpha: Vec<u8> = (0..5).collect();
    if !zverif::util::all_strings(&alpha, small_len, &mut |s| f(Src::S(s.to_vec()))) {
        return;
    }
    for len in grid_lengths(tier) {
        if len as usize > max_len {
            continue;
        }
        for sh in shapes(d) {
            if len == 0 && sh != Shape::Const(0) {
                continue;
            }
            if !f(Src::G { len, shape: sh }) {
                return;
            }
        }
    }
}

// ---------------------------------------------------------------------------------------------
// oracle

pub enum Got {
    Val(i128),
    /// None / Err
    Refused,
    Panic(String),
}

fn width_class(values: &[i128]) -> &'static str {
    if values.is_empty() {
        return "w-";
    }
    let mn = *values.iter().min().unwrap();
    let mx = *values.iter().max().unwrap();
    let r = (mx - mn) as u128;
    let w = 128 - r.leading_zeros();
    match w {
        0 => "w0",
        1..=16 => "w1..16",
        17..=32 => "w17..32",
        33..=47 => "w33..47",
        48..=56 => "w48..56",
        57..=58 => "w57..58",
        59..=63 => "w59..63",
        _ => "w64",
    }
}

fn len_class(n: usize) -> &'static str {
    match n {
        0 => "n0",
        1..=3 => "n1..3",
        4..=7 => "n4..7",
        8..=64 => "n8..64",
        65..=1000 => "n65..1000",
        1001..=2048 => "n1001..2048",
        2049..=10000 => "n2049..10000",
        _ => "n>10000",
    }
}

pub struct Reader<'a> {
    pub len: usize,
    pub get: &'a dyn Fn(usize) -> Got,
    pub get2: Option<&'a dyn Fn(usize) -> (Got, Got)>,
    /// out-of-range reads are documented to panic (C++-style accessor): a panic counts as "refused"
    pub oob_panics_documented: bool,
    /// outcome-class suffix of a failing case: a documented function of observable facts of the input
    pub class_of: &'a dyn Fn(&[i128]) -> String,
}

/// Compare everything readable with `values`; `None` = all clauses held.
pub fn check_reads(values: &[i128], r: &Reader) -> Option<Outcome> {
    let n = values.len();
    let cls = |s: &str| format!("{s}/{}", (r.class_of)(values));
    if r.len != n {
        return Some(fail("len", cls("wrong"), format!("len() = {}, {} values were stored", r.len, n)));
    }
    rd(n + 2);
    for i in 0..n {
        match (r.get)(i) {
            Got::Val(x) => {
                if x != values[i] {
                    return Some(fail("get", cls("wrong_value"), format!("get({i}) = {x}, stored {} (n={n}, min {}, max {})", values[i], values.iter().min().unwrap(), values.iter().max().unwrap())));
                }
            }
            Got::Refused => return Some(fail("get", cls("refused_in_range"), format!("get({i}) refused although {n} values were stored (value {})", values[i]))),
            Got::Panic(m) => return Some(fail("get", cls("panic_in_range"), format!("get({i}) panicked although {n} values were stored: {m}"))),
        }
    }
    for i in [n, n + 7] {
        match (r.get)(i) {
            Got::Val(x) => return Some(fail("get_past_end", cls(if i == n { "returns_value/i==len" } else { "returns_value/i==len+7" }), format!("get({i}) = {x} but only {n} values were stored"))),
            Got::Refused => {}
            Got::Panic(m) => {
                if !r.oob_panics_documented {
                    return Some(fail("get_past_end", cls("panic"), format!("get({i}) with {n} values panicked: {m}")));
                }
            }
        }
    }
    if let Some(g2) = r.get2 {
        rd(n);
        for i in 0..n.saturating_sub(1) {
            match g2(i) {
                (Got::Val(a), Got::Val(b)) => {
                    if a != values[i] || b != values[i + 1] {
                        return Some(fail("get2", cls("wrong_value"), format!("get2({i}) = ({a}, {b}), stored ({}, {})", values[i], values[i + 1])));
                    }
                }
                (Got::Panic(m), _) | (_, Got::Panic(m)) => return Some(fail("get2", cls("panic_in_range"), format!("get2({i}) n={n}: {m}"))),
                _ => return Some(fail("get2", cls("refused_in_range"), format!("get2({i}) refused, n={n}"))),
            }
        }
        // the pair starting at the last element (or at len) does not exist
        for i in [n.saturating_sub(1), n] {
            match g2(i) {
                (Got::Val(a), Got::Val(b)) => return Some(fail("get2_past_end", cls("returns_value"), format!("get2({i}) = ({a}, {b}) with only {n} values"))),
                (Got::Panic(m), _) | (_, Got::Panic(m)) => {
                    if !r.oob_panics_documented {
                        return Some(fail("get2_past_end", cls("panic"), format!("get2({i}) n={n}: {m}")));
                    }
                }
                _ => {}
            }
        }
    }
    None
}

/// IntVec / UintVector outcome class: order of the packed u64 image, then the buckets at which int_vec.rs switches
/// strategy (`len < 4` raw; `len <= 1000 || width <= 16` MinMax else BlockBased in analyze_small_dataset_strategy;
/// `len > 10000 && bytes > 16 KiB` analyze_optimal_strategy), and where MinMax may be chosen the range width bucket (<=16, 17..58,
/// 59..63 = bit fields that do not fit one unaligned 64-bit load, 64).  Sorted inputs take the Delta path whatever
/// their size.
fn generic_class(values: &[i128], elem_bytes: usize) -> String {
    if values.len() >= 4 && values.windows(2).all(|w| w[0] <= w[1]) {
        return "sorted".into();
    }
    let wc = width_class(values);
    match values.len() {
        0..=3 => "n<4".into(),
        4..=1000 => {
            let wb = match wc {
                "w-" | "w0" | "w1..16" => "w<=16",
                "w59..63" => "w59..63",
                "w64" => "w64",
                _ => "w17..58",
            };
            format!("unsorted/n4..1000/{wb}")
        }
        // from_slice: `len <= 10000 || len * size_of::<T>() / 1024 <= 16` -> analyze_small_dataset_strategy
        n if n <= 10000 || n * elem_bytes / 1024 <= 16 => {
            let wb = if matches!(wc, "w-" | "w0" | "w1..16") { "w<=16" } else { "w>16" };
            format!("unsorted/n>1000,small_path/{wb}")
        }
        _ => {
            let wb = match wc {
                "w-" | "w0" | "w1..16" => "w<=16",
                "w59..63" => "w59..63",
                "w64" => "w64",
                _ => "w17..58",
            };
            format!("unsorted/n>1000,optimal_path/{wb}")
        }
    }
}

/// the message of a panic with the numbers removed: `attempt to subtract with overflow`
fn panic_class(detail: &str) -> String {
    let msg = detail.splitn(3, ": ").nth(1).unwrap_or(detail);
    let mut out = String::new();
    for c in msg.chars() {
        if c.is_ascii_digit() {
            if !out.ends_with('#') {
                out.push('#');
            }
        } else {
            out.push(c);
        }
    }
    out.truncate(60);
    format!("panic/{}", out.trim().replace(' ', "_"))
}

fn pass(values: &[i128]) -> Outcome {
    let c = format!("ok/{}/{}", len_class(values.len()), width_class(values));
    if values.is_empty() {
        Outcome::trivial(&c)
    } else {
        Outcome::pass(&c)
    }
}

// ---------------------------------------------------------------------------------------------
// spec

pub struct Spec {
    pub name: String,
    pub dom: Dom,
    /// only non-decreasing sequences are in the space (SortedUintVec)
    pub sorted_only: bool,
    pub small_len_quick: usize,
    pub small_len_thorough: usize,
    pub max_len_quick: usize,
    pub max_len_thorough: usize,
    pub what: &'static str,
    pub run: Box<dyn Fn(&[i128]) -> Outcome>,
}

impl EnumSpec for Spec {
    type Case = Src;
    fn name(&self) -> String {
        self.name.clone()
    }
    fn space(&self, tier: Tier) -> String {
        let ml = tier.pick(self.max_len_quick, self.max_len_thorough);
        let lens: Vec<u32> = grid_lengths(tier).into_iter().filter(|&l| l as usize <= ml).collect();
        format!(
            "element domain [{}, {}]; S = all sequences of length <= {} over {:?}; G = lengths {:?} x {} shapes (constants, ascending steps {{0,1,2^31,2^62}} from 0 and from MIN, small range low/high, alternating MIN/MAX, one MAX (MIN) outlier at first/mid/index 63/last among 0..3, all bits used, ascending with a dip at index 1, sorted equal runs, sorted with one 2^40 jump, two-valued {{0, 2^k-1}} / {{0, 2^k}} alternating and stepped for k in 1..=64, large base 2^k with range 3, (7i mod 13) << k){}; {}",
            self.dom.min,
            self.dom.max,
            tier.pick(self.small_len_quick, self.small_len_thorough),
            self.dom.alphabet(),
            lens,
            shapes(&self.dom).len(),
            if self.sorted_only { "; restricted to non-decreasing sequences" } else { "" },
            self.what
        )
    }
    fn cases(&self, tier: Tier, f: &mut dyn FnMut(Src) -> bool) {
        let d = self.dom;
        let sorted_only = self.sorted_only;
        enumerate(tier, &d, tier.pick(self.small_len_quick, self.small_len_thorough), tier.pick(self.max_len_quick, self.max_len_thorough), &mut |src| {
            if sorted_only {
                let v = expand(&src, &d);
                if v.windows(2).any(|w| w[0] > w[1]) {
                    return true;
                }
            }
            f(src)
        });
    }
    fn run(&self, case: &Src) -> Outcome {
        let v = expand(case, &self.dom);
        (self.run)(&v)
    }
}

pub struct Counted(pub Enum<Spec>);
impl Subject for Counted {
    fn name(&self) -> String {
        self.0.name()
    }
    fn explore(&self, ctx: &mut Ctx) {
        READS.store(0, Ordering::Relaxed);
        self.0.explore(ctx);
        let n = READS.swap(0, Ordering::Relaxed);
        let name = self.name();
        ctx.stats(&name).extra.insert("element_reads".into(), n);
    }
    fn replay(&self, ctx: &mut Ctx, w: &Value) -> Verdict {
        self.0.replay(ctx, w)
    }
}

fn spec(name: &str, dom: Dom, what: &'static str, run: impl Fn(&[i128]) -> Outcome + 'static) -> Spec {
    Spec { name: name.to_string(), dom, sorted_only: false, small_len_quick: 5, small_len_thorough: 6, max_len_quick: 1001, max_len_thorough: 17409, what, run: Box::new(run) }
}

// ---------------------------------------------------------------------------------------------
// IntVec<T>

trait Elem: PackedInt {
    fn dom() -> Dom;
    fn from_i128(v: i128) -> Self;
    fn to_i128(self) -> i128;
    const NAME: &'static str;
}
macro_rules! elem {
    ($t:ty, $bits:expr, $signed:expr) => {
        impl Elem for $t {
            fn dom() -> Dom {
                if $signed {
                    Dom::of_signed($bits)
                } else {
                    Dom::of_unsigned($bits)
                }
            }
            fn from_i128(v: i128) -> Self {
                v as $t
            }
            fn to_i128(self) -> i128 {
                self as i128
            }
            const NAME: &'static str = stringify!($t);
        }
    };
}
elem!(u8, 8, false);
elem!(u16, 16, false);
elem!(u32, 32, false);
elem!(u64, 64, false);
elem!(i8, 8, true);
elem!(i16, 16, true);
elem!(i32, 32, true);
elem!(i64, 64, true);

fn intvec_specs<T: Elem>(out: &mut Vec<Spec>) {
    type Ctor<T> = fn(&[T]) -> zipora::error::Result<IntVec<T>>;
    let ctors: [(&str, Ctor<T>); 3] = [("from_slice", IntVec::<T>::from_slice), ("from_slice_bulk", IntVec::<T>::from_slice_bulk), ("from_slice_bulk_simd", IntVec::<T>::from_slice_bulk_simd)];
    for (cname, ctor) in ctors {
        out.push(spec(&format!("IntVec/{}<{}>", cname, T::NAME), T::dom(), "reads: get(i) for every i, get(len), get(len+7), len", move |vals| {
            let input: Vec<T> = vals.iter().map(|&v| T::from_i128(v)).collect();
            let iv = match catch(|| ctor(&input)) {
                Ok(Ok(iv)) => iv,
                Ok(Err(_)) => return Outcome::skip("construct_err"),
                Err(pf) => return fail("construct", panic_class(&pf.detail), pf.detail),
            };
            let get = |i: usize| match catch(|| iv.get(i)) {
                Ok(Some(x)) => Got::Val(x.to_i128()),
                Ok(None) => Got::Refused,
                Err(pf) => Got::Panic(pf.detail),
            };
            // classes of IntVec use the width of the u64 image (what the container packs), see width_class_u64
            let img: Vec<i128> = vals.iter().map(|&v| T::from_i128(v).to_u64() as i128).collect();
            let get_img = |i: usize| match get(i) {
                Got::Val(x) => Got::Val(T::from_i128(x).to_u64() as i128),
                o => o,
            };
            let r = Reader { len: iv.len(), get: &get_img, get2: None, oob_panics_documented: false, class_of: &|v: &[i128]| generic_class(v, std::mem::size_of::<T>()) };
            check_reads(&img, &r).unwrap_or_else(|| pass(&img))
        }));
    }
}

// ---------------------------------------------------------------------------------------------
// the other containers

fn got_usize(r: Result<usize, zverif::Fail>) -> Got {
    match r {
        Ok(x) => Got::Val(x as i128),
        Err(pf) => Got::Panic(pf.detail),
    }
}

fn min0_reader_check(v: &UintVecMin0, base: i128, vals: &[i128]) -> Option<Outcome> {
    let get = |i: usize| match got_usize(catch(|| v.get(i))) {
        Got::Val(x) => Got::Val(x + base),
        o => o,
    };
    let get2 = |i: usize| match catch(|| v.get2(i)) {
        Ok([a, b]) => (Got::Val(a as i128 + base), Got::Val(b as i128 + base)),
        Err(pf) => (Got::Panic(pf.detail.clone()), Got::Panic(pf.detail)),
    };
    let class_of = |vs: &[i128]| min0_class(vs, base);
    check_reads(vals, &Reader { len: v.size(), get: &get, get2: Some(&get2), oob_panics_documented: true, class_of: &class_of })
}

/// UintVecMin0 / ZipIntVec: does the largest stored wire value (value - base) need more than 58 bits?
fn min0_class(vs: &[i128], base: i128) -> String {
    let mx = vs.iter().map(|&x| x - base).max().unwrap_or(0);
    if mx >= (1i128 << 58) { "bits>58".into() } else { "bits<=58".into() }
}

fn zip_reader_check(v: &ZipIntVec, vals: &[i128]) -> Option<Outcome> {
    let get = |i: usize| got_usize(catch(|| v.get(i)));
    let get2 = |i: usize| match catch(|| v.get2(i)) {
        Ok([a, b]) => (Got::Val(a as i128), Got::Val(b as i128)),
        Err(pf) => (Got::Panic(pf.detail.clone()), Got::Panic(pf.detail)),
    };
    let class_of = |vs: &[i128]| min0_class(vs, v.min_val() as i128);
    check_reads(vals, &Reader { len: v.size(), get: &get, get2: Some(&get2), oob_panics_documented: true, class_of: &class_of })
}

fn uintvector_check(v: &UintVector, vals: &[i128]) -> Option<Outcome> {
    let get = |i: usize| match catch(|| v.get(i)) {
        Ok(Some(x)) => Got::Val(x as i128),
        Ok(None) => Got::Refused,
        Err(pf) => Got::Panic(pf.detail),
    };
    check_reads(vals, &Reader { len: v.len(), get: &get, get2: None, oob_panics_documented: false, class_of: &|v: &[i128]| generic_class(v, 4) })
}

fn other_specs(out: &mut Vec<Spec>) {
    let u32d = Dom::of_unsigned(32);
    // UintVecMin0 / ZipIntVec document 0..58 bits per value: the small scope straddles that limit
    let u64d = Dom { alpha: Some([0, 1, 1 << 57, (1 << 58) - 1, (1i128 << 64) - 1]), ..Dom::of_unsigned(64) };
    // SortedUintVec: the small scope straddles offset_width 16 and sample_width 32
    let sortd = Dom { alpha: Some([0, 1, 65535, 65536, 1 << 32]), ..Dom::of_unsigned(64) };
    let i32d = Dom::of_signed(32);

    // ---- UintVector
    out.push(spec("UintVector/build_from", u32d, "reads: get(i) for every i, get(len), get(len+7), len", |vals| {
        let input: Vec<u32> = vals.iter().map(|&v| v as u32).collect();
        let uv = match catch(|| UintVector::build_from(&input)) {
            Ok(Ok(v)) => v,
            Ok(Err(_)) => return Outcome::skip("construct_err"),
            Err(pf) => return fail("construct", panic_class(&pf.detail), pf.detail),
        };
        uintvector_check(&uv, vals).unwrap_or_else(|| pass(vals))
    }));
    let mut s = spec("UintVector/push", u32d, "incremental: push one element at a time, after EVERY push re-read the whole prefix (get(i) for every i, get(len), len)", |vals| {
        let mut uv = UintVector::new();
        for (n, &x) in vals.iter().enumerate() {
            match catch(|| uv.push(x as u32)) {
                Ok(Ok(())) => {}
                Ok(Err(_)) => return Outcome::skip("push_err"),
                Err(pf) => return fail("construct", format!("push_{}", panic_class(&pf.detail)), pf.detail),
            }
            if let Some(o) = uintvector_check(&uv, &vals[..=n]) {
                return o;
            }
        }
        if let Some(o) = uintvector_check(&uv, vals) {
            return o;
        }
        pass(vals)
    });
    s.max_len_quick = 257;
    s.max_len_thorough = 1025;
    out.push(s);

    // ---- UintVecMin0 (C++-style: constructors and accessors panic instead of returning errors)
    out.push(spec("UintVecMin0/build_from_usize", u64d, "reads: get(i)+min for every i, get2(i) for every pair, size; out-of-range get/get2 must not return a value", |vals| {
        let input: Vec<usize> = vals.iter().map(|&v| v as usize).collect();
        let (v, min) = match catch(|| UintVecMin0::build_from_usize(&input)) {
            Ok(x) => x,
            Err(pf) => return Outcome::skip(&format!("construct_{}", panic_class(&pf.detail))),
        };
        min0_reader_check(&v, min as i128, vals).unwrap_or_else(|| pass(vals))
    }));
    out.push(spec("UintVecMin0/build_from_u32", u32d, "reads: get(i)+min for every i, get2(i) for every pair, size", |vals| {
        let input: Vec<u32> = vals.iter().map(|&v| v as u32).collect();
        let (v, min) = match catch(|| UintVecMin0::build_from_u32(&input)) {
            Ok(x) => x,
            Err(pf) => return Outcome::skip(&format!("construct_{}", panic_class(&pf.detail))),
        };
        min0_reader_check(&v, min as i128, vals).unwrap_or_else(|| pass(vals))
    }));
    out.push(spec("UintVecMin0/build_from_i32", i32d, "reads: get(i)+min for every i, get2(i) for every pair, size", |vals| {
        let input: Vec<i32> = vals.iter().map(|&v| v as i32).collect();
        let (v, min) = match catch(|| UintVecMin0::build_from_i32(&input)) {
            Ok(x) => x,
            Err(pf) => return Outcome::skip(&format!("construct_{}", panic_class(&pf.detail))),
        };
        min0_reader_check(&v, min as i128, vals).unwrap_or_else(|| pass(vals))
    }));
    out.push(spec("UintVecMin0/new+set", u64d, "new(len, max) then set(i, v[i]) for every i; then reads as above", |vals| {
        let max = vals.iter().copied().max().unwrap_or(0) as usize;
        let r = catch(|| {
            let mut v = UintVecMin0::new(vals.len(), max);
            for (i, &x) in vals.iter().enumerate() {
                v.set(i, x as usize);
            }
            v
        });
        let v = match r {
            Ok(v) => v,
            Err(pf) => return Outcome::skip(&format!("construct_{}", panic_class(&pf.detail))),
        };
        min0_reader_check(&v, 0, vals).unwrap_or_else(|| pass(vals))
    }));
    out.push(spec("UintVecMin0/resize", u64d, "build the first half with new+set, resize(len) (must preserve the stored values), set the rest, shrink_to_fit; then reads as above", |vals| {
        let max = vals.iter().copied().max().unwrap_or(0) as usize;
        let h = vals.len() / 2;
        let r = catch(|| {
            let mut v = UintVecMin0::new_empty();
            v.resize_with_wire_max_val(h, max);
            for i in 0..h {
                v.set(i, vals[i] as usize);
            }
            v.resize(vals.len());
            for i in h..vals.len() {
                v.set(i, vals[i] as usize);
            }
            v.shrink_to_fit();
            v
        });
        let v = match r {
            Ok(v) => v,
            Err(pf) => return Outcome::skip(&format!("construct_{}", panic_class(&pf.detail))),
        };
        min0_reader_check(&v, 0, vals).unwrap_or_else(|| pass(vals))
    }));
    let mut s = spec("UintVecMin0/push_back", u64d, "incremental: push_back one element at a time (bit width grows on demand), after EVERY push re-read the whole prefix", |vals| {
        let mut v = UintVecMin0::new_empty();
        for (n, &x) in vals.iter().enumerate() {
            if let Err(pf) = catch(|| v.push_back(x as usize)) {
                return Outcome::skip(&format!("push_{}", panic_class(&pf.detail)));
            }
            if let Some(o) = min0_reader_check(&v, 0, &vals[..=n]) {
                return o;
            }
        }
        min0_reader_check(&v, 0, vals).unwrap_or_else(|| pass(vals))
    });
    s.max_len_quick = 257;
    s.max_len_thorough = 1025;
    out.push(s);

    // ---- ZipIntVec
    out.push(spec("ZipIntVec/build_from_usize", u64d, "reads: get(i) for every i, get2(i) for every pair, size", |vals| {
        let input: Vec<usize> = vals.iter().map(|&v| v as usize).collect();
        let v = match catch(|| ZipIntVec::build_from_usize(&input)) {
            Ok(x) => x,
            Err(pf) => return Outcome::skip(&format!("construct_{}", panic_class(&pf.detail))),
        };
        zip_reader_check(&v, vals).unwrap_or_else(|| pass(vals))
    }));
    out.push(spec("ZipIntVec/build_from_u32", u32d, "reads: get(i) for every i, get2(i) for every pair, size", |vals| {
        let input: Vec<u32> = vals.iter().map(|&v| v as u32).collect();
        let v = match catch(|| ZipIntVec::build_from_u32(&input)) {
            Ok(x) => x,
            Err(pf) => return Outcome::skip(&format!("construct_{}", panic_class(&pf.detail))),
        };
        zip_reader_check(&v, vals).unwrap_or_else(|| pass(vals))
    }));
    out.push(spec("ZipIntVec/new+set", u64d, "new(len, min, max) then set(i, v[i]); then reads as above", |vals| {
        let (Some(&mn), Some(&mx)) = (vals.iter().min(), vals.iter().max()) else { return Outcome::skip("empty_needs_no_range") };
        let r = catch(|| {
            let mut v = ZipIntVec::new(vals.len(), mn as usize, mx as usize);
            for (i, &x) in vals.iter().enumerate() {
                v.set(i, x as usize);
            }
            v
        });
        let v = match r {
            Ok(v) => v,
            Err(pf) => return Outcome::skip(&format!("construct_{}", panic_class(&pf.detail))),
        };
        zip_reader_check(&v, vals).unwrap_or_else(|| pass(vals))
    }));
    let mut s = spec("ZipIntVec/push_back", u64d, "incremental: new_empty then push_back one element at a time, after EVERY push re-read the whole prefix", |vals| {
        let mut v = ZipIntVec::new_empty();
        for (n, &x) in vals.iter().enumerate() {
            if let Err(pf) = catch(|| v.push_back(x as usize)) {
                return Outcome::skip(&format!("push_{}", panic_class(&pf.detail)));
            }
            if let Some(o) = zip_reader_check(&v, &vals[..=n]) {
                return o;
            }
        }
        zip_reader_check(&v, vals).unwrap_or_else(|| pass(vals))
    });
    s.max_len_quick = 257;
    s.max_len_thorough = 1025;
    out.push(s);

    // ---- SortedUintVec: every log2_block_units, the three presets and two extreme width combinations
    let mut cfgs: Vec<(String, SortedUintVecConfig)> = Vec::new();
    for l in 4..=8u8 {
        cfgs.push((format!("log2={l},ow=16,sw=32"), SortedUintVecConfig { log2_block_units: l, offset_width: 16, sample_width: 32, use_simd: l % 2 == 0 }));
        cfgs.push((format!("log2={l},ow=32,sw=64"), SortedUintVecConfig { log2_block_units: l, offset_width: 32, sample_width: 64, use_simd: l % 2 == 1 }));
    }
    cfgs.push(("default".into(), SortedUintVecConfig::default()));
    cfgs.push(("performance_optimized".into(), SortedUintVecConfig::performance_optimized()));
    cfgs.push(("memory_optimized".into(), SortedUintVecConfig::memory_optimized()));
    cfgs.push(("log2=6,ow=13,sw=61,simd".into(), SortedUintVecConfig { log2_block_units: 6, offset_width: 13, sample_width: 61, use_simd: true }));
    cfgs.push(("log2=6,ow=13,sw=61,portable".into(), SortedUintVecConfig { log2_block_units: 6, offset_width: 13, sample_width: 61, use_simd: false }));
    cfgs.push(("log2=5,ow=8,sw=16,simd".into(), SortedUintVecConfig { log2_block_units: 5, offset_width: 8, sample_width: 16, use_simd: true }));
    for (cn, cfg) in cfgs {
        for ctor in ["push", "extend"] {
            if ctor == "extend" && !cn.starts_with("default") {
                continue;
            }
            let mut s = spec(&format!("SortedUintVec[{cn}]/{ctor}"), sortd, "builder push/extend of the whole sequence then finish(); reads: get(i) for every i, get(len), get(len+7), get2(i) for every pair, get_block(b) for every block compared with the block's values, get_block(num_blocks) refused, len", move |vals| {
                let r = catch(|| -> zipora::error::Result<_> {
                    let mut b = SortedUintVecBuilder::with_config(cfg);
                    if ctor == "push" {
                        for &x in vals {
                            b.push(x as u64)?;
                        }
                    } else {
                        b.extend(vals.iter().map(|&x| x as u64))?;
                    }
                    b.finish()
                });
                let sv = match r {
                    Ok(Ok(v)) => v,
                    Ok(Err(_)) => return Outcome::skip("construct_err"),
                    Err(pf) => return fail("construct", panic_class(&pf.detail), pf.detail),
                };
                let sw = cfg.sample_width as u32;
                let fits = move |vs: &[i128]| -> String {
                    if vs.iter().any(|&x| sw < 64 && x >= (1i128 << sw)) { "value>=2^sample_width".into() } else { "value<2^sample_width".into() }
                };
                let get = |i: usize| match catch(|| sv.get(i)) {
                    Ok(Ok(x)) => Got::Val(x as i128),
                    Ok(Err(_)) => Got::Refused,
                    Err(pf) => Got::Panic(pf.detail),
                };
                let get2 = |i: usize| match catch(|| sv.get2(i)) {
                    Ok(Ok((a, b))) => (Got::Val(a as i128), Got::Val(b as i128)),
                    Ok(Err(_)) => (Got::Refused, Got::Refused),
                    Err(pf) => (Got::Panic(pf.detail.clone()), Got::Panic(pf.detail)),
                };
                if let Some(o) = check_reads(vals, &Reader { len: sv.len(), get: &get, get2: Some(&get2), oob_panics_documented: false, class_of: &fits }) {
                    return o;
                }
                // get_block
                let bs = cfg.block_size();
                let nb = (vals.len() + bs - 1) / bs;
                rd(vals.len());
                for b in 0..nb {
                    let mut buf = vec![0xA5A5_A5A5_A5A5_A5A5u64; bs];
                    match catch(|| sv.get_block(b, &mut buf)) {
                        Ok(Ok(())) => {
                            let want = &vals[b * bs..((b + 1) * bs).min(vals.len())];
                            for (j, &w) in want.iter().enumerate() {
                                if buf[j] as i128 != w {
                                    return fail("get_block", format!("wrong_value/{}", fits(vals)), format!("get_block({b})[{j}] = {}, stored {w} (n={})", buf[j], vals.len()));
                                }
                            }
                        }
                        Ok(Err(e)) => return fail("get_block", format!("err_in_range/{}", fits(vals)), format!("get_block({b}) of {nb} blocks = Err({e})")),
                        Err(pf) => return fail("get_block", format!("panic_in_range/{}", fits(vals)), format!("get_block({b}) of {nb}: {}", pf.detail)),
                    }
                }
                let mut buf = vec![0u64; bs];
                match catch(|| sv.get_block(nb, &mut buf)) {
                    Ok(Ok(())) => return fail("get_past_end", "get_block/returns_ok", format!("get_block({nb}) = Ok with only {nb} blocks")),
                    Ok(Err(_)) => {}
                    Err(pf) => return fail("get_past_end", "get_block/panic", pf.detail),
                }
                pass(vals)
            });
            s.sorted_only = true;
            s.small_len_quick = 6;
            s.small_len_thorough = 7;
            s.max_len_quick = 1001;
            s.max_len_thorough = 4097;
            out.push(s);
        }
    }
}

fn main() {
    zverif::main_with("C09", |reg, _tier| {
        let mut v = Vec::new();
        // 64-bit types first: a known finding with subject "IntVec/from_slice<*" is replayed on the first match
        intvec_specs::<u64>(&mut v);
        intvec_specs::<i64>(&mut v);
        intvec_specs::<u32>(&mut v);
        intvec_specs::<i32>(&mut v);
        intvec_specs::<u16>(&mut v);
        intvec_specs::<i16>(&mut v);
        intvec_specs::<u8>(&mut v);
        intvec_specs::<i8>(&mut v);
        other_specs(&mut v);
        for s in v {
            reg.add(Counted(Enum(s)));
        }
    });
}
