//! C10, string vectors: SortableStrVec, FixedLenStrVec<N>, BitPackedStringVec, AdvancedStringVec and
//! ZoSortedStrVec against `Vec<String>` (or, for the sorted set, the sorted de-duplicated list).

use std::collections::hash_map::DefaultHasher;
use std::fmt;
use std::hash::Hash;
use std::path::Path;

use zverif::seq::{Seq, SeqSpec};
use zverif::{Fail, Registry, Tier};

use zipora::containers::specialized::{
    AdvancedStringConfig, AdvancedStringVec, BitPackedStringVec32, BitPackedStringVec64, FixedLenStrVec, SortableStrVec, ZoSortedStrVec,
};

#[derive(Clone, Copy, Debug, PartialEq, Eq, Hash)]
pub enum SortKind {
    Lex,
    Radix,
    ByLength,
    Reverse,
}

#[derive(Clone, Copy, PartialEq, Eq)]
pub enum SOp {
    Push(&'static str),
    Sort(SortKind),
    Clear,
    Shrink,
    Reserve,
    CloneSwap,
}

impl fmt::Debug for SOp {
    fn fmt(&self, f: &mut fmt::Formatter<'_>) -> fmt::Result {
        match self {
            SOp::Push(s) => write!(f, "Push({s:?})"),
            SOp::Sort(k) => write!(f, "Sort({k:?})"),
            SOp::Clear => write!(f, "Clear"),
            SOp::Shrink => write!(f, "Shrink"),
            SOp::Reserve => write!(f, "Reserve"),
            SOp::CloneSwap => write!(f, "CloneSwap"),
        }
    }
}

pub trait StrCont {
    /// `Ok(Some(i))`: stored, retrievable at index i; `Ok(None)`: stored, the API returns no index
    fn push(&mut self, s: &str) -> Result<Option<usize>, String>;
    fn len(&self) -> usize;
    fn is_empty(&self) -> bool;
    fn get(&self, i: usize) -> Option<String>;
    fn iter(&self) -> Option<Vec<String>>;
    fn get_bytes(&self, _i: usize) -> Option<Option<Vec<u8>>> {
        None
    }
    fn find(&self, _s: &str) -> Option<Option<usize>> {
        None
    }
    fn count_prefix(&self, _p: &str) -> Option<usize> {
        None
    }
    fn sort(&mut self, _k: SortKind) -> Option<Result<(), String>> {
        None
    }
    /// `Some(None)`: a sorted view is offered but none is valid right now
    fn sorted(&self) -> Option<Option<Vec<String>>> {
        None
    }
    fn binary_search(&self, _s: &str) -> Option<Result<usize, usize>> {
        None
    }
    fn contains(&self, _s: &str) -> Option<bool> {
        None
    }
    fn range(&self, _a: &str, _b: &str) -> Option<Vec<String>> {
        None
    }
    fn clear(&mut self) -> bool {
        false
    }
    fn shrink(&mut self) -> bool {
        false
    }
    fn reserve(&mut self) -> bool {
        false
    }
    fn try_clone(&self) -> Option<Box<dyn StrCont>> {
        None
    }
}

// ---- adapters ---------------------------------------------------------------------------------------

struct SortableAd(SortableStrVec);

impl StrCont for SortableAd {
    fn push(&mut self, s: &str) -> Result<Option<usize>, String> {
        self.0.push_str(s).map(Some).map_err(|e| e.to_string())
    }
    fn len(&self) -> usize {
        self.0.len()
    }
    fn is_empty(&self) -> bool {
        self.0.is_empty()
    }
    fn get(&self, i: usize) -> Option<String> {
        self.0.get(i).map(|s| s.to_string())
    }
    fn iter(&self) -> Option<Vec<String>> {
        Some(self.0.iter().map(|s| s.to_string()).collect())
    }
    fn sort(&mut self, k: SortKind) -> Option<Result<(), String>> {
        Some(
            match k {
                SortKind::Lex => self.0.sort(),
                SortKind::Radix => self.0.radix_sort(),
                SortKind::ByLength => self.0.sort_by_length(),
                SortKind::Reverse => self.0.sort_by(|a, b| b.cmp(a)),
            }
            .map_err(|e| e.to_string()),
        )
    }
    fn sorted(&self) -> Option<Option<Vec<String>>> {
        let n = self.0.len();
        let by_index: Vec<Option<String>> = (0..n).map(|i| self.0.get_sorted(i).map(|s| s.to_string())).collect();
        let by_iter: Vec<String> = self.0.iter_sorted().map(|s| s.to_string()).collect();
        if by_index.iter().all(|x| x.is_none()) && by_iter.is_empty() {
            return Some(None);
        }
        // a partially valid view is reported as it is (with holes as a marker the model can never match)
        let v: Vec<String> = by_index.into_iter().map(|x| x.unwrap_or_else(|| "\u{1}<None>".to_string())).collect();
        if v != by_iter {
            return Some(Some(vec!["\u{1}<get_sorted and iter_sorted disagree>".to_string()]));
        }
        Some(Some(v))
    }
    fn binary_search(&self, s: &str) -> Option<Result<usize, usize>> {
        Some(self.0.binary_search(s))
    }
    fn clear(&mut self) -> bool {
        self.0.clear();
        true
    }
    fn shrink(&mut self) -> bool {
        self.0.shrink_to_fit();
        true
    }
    fn reserve(&mut self) -> bool {
        self.0.reserve(3);
        true
    }
    fn try_clone(&self) -> Option<Box<dyn StrCont>> {
        Some(Box::new(SortableAd(self.0.clone())))
    }
}

struct FixedAd<const N: usize>(FixedLenStrVec<N>);

impl<const N: usize> StrCont for FixedAd<N> {
    fn push(&mut self, s: &str) -> Result<Option<usize>, String> {
        self.0.push(s).map(|_| None).map_err(|e| e.to_string())
    }
    fn len(&self) -> usize {
        self.0.len()
    }
    fn is_empty(&self) -> bool {
        self.0.is_empty()
    }
    fn get(&self, i: usize) -> Option<String> {
        self.0.get(i).map(|s| s.to_string())
    }
    fn iter(&self) -> Option<Vec<String>> {
        None
    }
    fn get_bytes(&self, i: usize) -> Option<Option<Vec<u8>>> {
        Some(self.0.get_bytes(i).map(|b| b.to_vec()))
    }
    fn find(&self, s: &str) -> Option<Option<usize>> {
        Some(self.0.find_exact(s))
    }
    fn count_prefix(&self, p: &str) -> Option<usize> {
        Some(self.0.count_prefix(p))
    }
}

macro_rules! bitpacked_ad {
    ($name:ident, $t:ty) => {
        struct $name($t);
        impl StrCont for $name {
            fn push(&mut self, s: &str) -> Result<Option<usize>, String> {
                self.0.push(s).map(Some).map_err(|e| e.to_string())
            }
            fn len(&self) -> usize {
                self.0.len()
            }
            fn is_empty(&self) -> bool {
                self.0.is_empty()
            }
            fn get(&self, i: usize) -> Option<String> {
                self.0.get(i).map(|s| s.to_string())
            }
            fn iter(&self) -> Option<Vec<String>> {
                Some(self.0.iter().map(|s| s.to_string()).collect())
            }
            fn get_bytes(&self, i: usize) -> Option<Option<Vec<u8>>> {
                Some(self.0.get_bytes(i).map(|b| b.to_vec()))
            }
            fn find(&self, s: &str) -> Option<Option<usize>> {
                Some(self.0.find_simd(s))
            }
            fn try_clone(&self) -> Option<Box<dyn StrCont>> {
                Some(Box::new($name(self.0.clone())))
            }
        }
    };
}
bitpacked_ad!(BitPacked32Ad, BitPackedStringVec32);
bitpacked_ad!(BitPacked64Ad, BitPackedStringVec64);

struct AdvancedAd(AdvancedStringVec);

impl StrCont for AdvancedAd {
    fn push(&mut self, s: &str) -> Result<Option<usize>, String> {
        self.0.push(s).map(Some).map_err(|e| e.to_string())
    }
    fn len(&self) -> usize {
        self.0.len()
    }
    fn is_empty(&self) -> bool {
        self.0.is_empty()
    }
    fn get(&self, i: usize) -> Option<String> {
        self.0.get(i).map(|s| s.to_string())
    }
    fn iter(&self) -> Option<Vec<String>> {
        Some(self.0.iter().map(|s| s.to_string()).collect())
    }
    fn get_bytes(&self, i: usize) -> Option<Option<Vec<u8>>> {
        Some(self.0.get_bytes(i).map(|b| b.to_vec()))
    }
    fn try_clone(&self) -> Option<Box<dyn StrCont>> {
        Some(Box::new(AdvancedAd(self.0.clone())))
    }
}

/// ZoSortedStrVec is immutable: "push" rebuilds it from everything pushed so far.
struct ZoAd {
    all: Vec<String>,
    z: ZoSortedStrVec,
    via_sortable: bool,
}

impl ZoAd {
    fn build(all: &[String], via_sortable: bool) -> Result<ZoSortedStrVec, String> {
        if via_sortable {
            // from_sortable_str_vec keeps duplicates (it requires sorted, not strictly sorted, input)
            let sv = SortableStrVec::from_iter(all.iter()).map_err(|e| e.to_string())?;
            ZoSortedStrVec::from_sortable_str_vec(sv).map_err(|e| e.to_string())
        } else {
            ZoSortedStrVec::from_strings(all.to_vec()).map_err(|e| e.to_string())
        }
    }
}

impl StrCont for ZoAd {
    fn push(&mut self, s: &str) -> Result<Option<usize>, String> {
        self.all.push(s.to_string());
        match Self::build(&self.all, self.via_sortable) {
            Ok(z) => {
                self.z = z;
                Ok(None)
            }
            Err(e) => {
                self.all.pop();
                Err(e)
            }
        }
    }
    fn len(&self) -> usize {
        self.z.len()
    }
    fn is_empty(&self) -> bool {
        self.z.is_empty()
    }
    fn get(&self, i: usize) -> Option<String> {
        self.z.get(i).map(|s| s.to_string())
    }
    fn iter(&self) -> Option<Vec<String>> {
        Some(self.z.iter().map(|s| s.to_string()).collect())
    }
    fn binary_search(&self, s: &str) -> Option<Result<usize, usize>> {
        Some(self.z.binary_search(s))
    }
    fn contains(&self, s: &str) -> Option<bool> {
        Some(self.z.contains(s))
    }
    fn range(&self, a: &str, b: &str) -> Option<Vec<String>> {
        Some(self.z.range(a, b).map(|s| s.to_string()).collect())
    }
    fn try_clone(&self) -> Option<Box<dyn StrCont>> {
        Some(Box::new(ZoAd { all: self.all.clone(), z: self.z.clone(), via_sortable: self.via_sortable }))
    }
}

// ---- spec ---------------------------------------------------------------------------------------------

#[derive(Clone, Copy, PartialEq, Eq)]
pub enum Sem {
    /// push appends: exactly Vec<String>
    Seq,
    /// push returns the index under which the string can be read back; duplicates may share an index
    Intern,
    /// sorted set of everything pushed
    SortedSet,
    /// sorted multiset of everything pushed
    SortedBag,
}

pub struct StrSpec {
    pub name: String,
    pub make: Box<dyn Fn() -> Box<dyn StrCont>>,
    pub sem: Sem,
    pub alphabet: Vec<SOp>,
    pub prefix: Vec<SOp>,
    /// longest string the container is specified to accept
    pub max_len: usize,
    pub probes: Vec<&'static str>,
    pub depth_q: usize,
    pub depth_t: usize,
}

pub struct SSt {
    c: Box<dyn StrCont>,
    model: Vec<String>,
    sorted: Option<SortKind>,
    refused: u64,
    last_op: String,
}

fn fl(clause: &str, detail: String) -> Fail {
    Fail::new(clause, detail).with_class(clause)
}

impl StrSpec {
    fn step(&self, st: &mut SSt, op: SOp) -> Result<(), Fail> {
        match op {
            SOp::Push(s) => {
                let r = st.c.push(s);
                let too_long = s.len() > self.max_len;
                match r {
                    Err(_) if too_long => {}
                    Err(_) => st.refused += 1,
                    Ok(_) if too_long => {
                        return Err(fl("capacity", format!("push of a {}-byte string into a container limited to {} bytes returned Ok", s.len(), self.max_len)));
                    }
                    Ok(idx) => {
                        match self.sem {
                            Sem::Seq => {
                                if let Some(i) = idx {
                                    if i != st.model.len() {
                                        return Err(fl("push_index", format!("push({s:?}) returned index {i}, model says {}", st.model.len())));
                                    }
                                }
                                st.model.push(s.to_string());
                            }
                            Sem::Intern => match idx {
                                Some(i) if i == st.model.len() => st.model.push(s.to_string()),
                                Some(i) if i < st.model.len() && st.model[i] == s => {}
                                other => {
                                    return Err(fl("push_index", format!("push({s:?}) returned {other:?}; {} strings stored, string at that index: {:?}", st.model.len(), other.and_then(|i| st.model.get(i)))));
                                }
                            },
                            Sem::SortedSet => {
                                if !st.model.iter().any(|x| x == s) {
                                    st.model.push(s.to_string());
                                    st.model.sort();
                                }
                            }
                            Sem::SortedBag => {
                                st.model.push(s.to_string());
                                st.model.sort();
                            }
                        }
                        st.sorted = None;
                    }
                }
            }
            SOp::Sort(k) => match st.c.sort(k) {
                None => {}
                Some(Ok(())) => st.sorted = Some(k),
                Some(Err(_)) => st.refused += 1,
            },
            SOp::Clear => {
                if st.c.clear() {
                    st.model.clear();
                    st.sorted = None;
                }
            }
            SOp::Shrink => {
                st.c.shrink();
            }
            SOp::Reserve => {
                st.c.reserve();
            }
            SOp::CloneSwap => {
                if let Some(c) = st.c.try_clone() {
                    st.c = c;
                }
            }
        }
        Ok(())
    }

    fn compare(&self, st: &SSt) -> Result<(), Fail> {
        let m = &st.model;
        let c = &st.c;
        if c.len() != m.len() {
            return Err(fl("len", format!("len() = {}, model says {}", c.len(), m.len())));
        }
        if c.is_empty() != m.is_empty() {
            return Err(fl("len", format!("is_empty() = {}, model has {} strings", c.is_empty(), m.len())));
        }
        for i in 0..=m.len() + 1 {
            let g = c.get(i);
            let want = m.get(i).cloned();
            if g != want {
                let clause = if i >= m.len() { "out_of_range" } else { "get" };
                let sub = match (&g, &want) {
                    (_, Some(w)) if w.contains('\0') => "string_with_nul",
                    _ => "not_the_pushed_string",
                };
                return Err(fl2(clause, sub, format!("get({i}) = {g:?}, model says {want:?}")));
            }
            if let Some(b) = c.get_bytes(i) {
                let wantb = m.get(i).map(|s| s.as_bytes().to_vec());
                if b != wantb {
                    let clause = if i >= m.len() { "out_of_range" } else { "get" };
                    return Err(fl(clause, format!("get_bytes({i}) = {b:?}, model says {wantb:?}")));
                }
            }
        }
        if let Some(it) = c.iter() {
            if &it != m {
                return Err(fl("sequence", format!("iter() yields {it:?}, model says {m:?}")));
            }
        }
        for p in &self.probes {
            if let Some(f) = c.find(p) {
                let want = m.iter().position(|x| x == p);
                if f != want {
                    return Err(fl("find", format!("find({p:?}) = {f:?}, model says {want:?}")));
                }
            }
            if let Some(n) = c.count_prefix(p) {
                let want = m.iter().filter(|x| x.starts_with(p)).count();
                if n != want {
                    return Err(fl("find", format!("count_prefix({p:?}) = {n}, model says {want}")));
                }
            }
        }
        // sorted view
        let sorted_set = matches!(self.sem, Sem::SortedSet | Sem::SortedBag);
        let mut lex: Option<Vec<String>> = if sorted_set { Some(m.clone()) } else { None };
        if let Some(view) = c.sorted() {
            match (st.sorted, view) {
                (None, None) => {}
                (None, Some(v)) => {
                    return Err(fl("sorted_view", format!("a sorted view {v:?} is served although the vector changed after the last sort")));
                }
                (Some(k), None) => {
                    if !m.is_empty() {
                        return Err(fl("sorted_view", format!("no sorted view after Sort({k:?}) of {} strings", m.len())));
                    }
                }
                (Some(k), Some(v)) => {
                    let mut want = m.clone();
                    match k {
                        SortKind::Lex | SortKind::Radix => {
                            want.sort();
                            if v != want {
                                return Err(fl("sorted_view", format!("after Sort({k:?}) the sorted view is {v:?}, model says {want:?}")));
                            }
                            lex = Some(want);
                        }
                        SortKind::Reverse => {
                            want.sort();
                            want.reverse();
                            if v != want {
                                return Err(fl("sorted_view", format!("after Sort({k:?}) the sorted view is {v:?}, model says {want:?}")));
                            }
                        }
                        SortKind::ByLength => {
                            let mut a = v.clone();
                            a.sort();
                            want.sort();
                            if a != want || v.windows(2).any(|w| w[0].len() > w[1].len()) {
                                return Err(fl("sorted_view", format!("after Sort(ByLength) the sorted view is {v:?}: not the model's strings in non-decreasing length ({want:?})")));
                            }
                        }
                    }
                }
            }
        }
        if let Some(sv) = &lex {
            for p in &self.probes {
                if let Some(r) = c.binary_search(p) {
                    let ok = match r {
                        Ok(i) => sv.get(i).map(|x| x == p).unwrap_or(false),
                        Err(i) => !sv.iter().any(|x| x == p) && i == sv.partition_point(|x| x.as_str() < *p),
                    };
                    if !ok {
                        return Err(fl2("search", "binary_search", format!("binary_search({p:?}) = {r:?} over the sorted strings {sv:?}")));
                    }
                }
                if let Some(b) = c.contains(p) {
                    if b != sv.iter().any(|x| x == p) {
                        return Err(fl2("search", "contains", format!("contains({p:?}) = {b} over {sv:?}")));
                    }
                }
            }
            for a in &self.probes {
                for b in &self.probes {
                    if a <= b {
                        if let Some(r) = c.range(a, b) {
                            let want: Vec<String> = sv.iter().filter(|x| x.as_str() >= *a && x.as_str() < *b).cloned().collect();
                            if r != want {
                                return Err(fl2("search", "range", format!("range({a:?}, {b:?}) = {r:?}, model says {want:?}")));
                            }
                        }
                    }
                }
            }
        }
        Ok(())
    }
}

fn at(mut f: Fail, last: &str) -> Fail {
    f.class = format!("{}@{}", f.class, last);
    f
}

/// failure with a sub-class (a mechanical fact about the failing observation)
fn fl2(clause: &str, sub: &str, detail: String) -> Fail {
    Fail::new(clause, detail).with_class(format!("{clause}:{sub}"))
}

impl SeqSpec for StrSpec {
    type Op = SOp;
    type St = SSt;

    fn name(&self) -> String {
        self.name.clone()
    }
    fn depth(&self, tier: Tier) -> usize {
        tier.pick(self.depth_q, self.depth_t)
    }
    fn bound(&self, tier: Tier) -> String {
        format!(
            "all histories of <= {} mutators from {:?} after a scripted prefix of {} ops; model = {}; after every step: len, get(i)/get_bytes(i) for i in 0..=len+1, iter(), find/count_prefix/binary_search/contains/range on the probes {:?}, and the sorted view where offered",
            self.depth(tier),
            self.alphabet,
            self.prefix.len(),
            match self.sem {
                Sem::Seq => "Vec<String>",
                Sem::Intern => "index -> String table (duplicates may share an index)",
                Sem::SortedSet => "sorted, de-duplicated Vec<String>",
                Sem::SortedBag => "sorted Vec<String>",
            },
            self.probes
        )
    }
    fn init(&self, _scratch: &Path) -> Result<SSt, Fail> {
        let mut st = SSt { c: (self.make)(), model: Vec::new(), sorted: None, refused: 0, last_op: "init".into() };
        for op in &self.prefix {
            self.apply(&mut st, op)?;
            let mut h = DefaultHasher::new();
            self.observe(&mut st, &mut h)?;
        }
        Ok(st)
    }
    fn ops(&self, _st: &SSt) -> Vec<SOp> {
        self.alphabet.clone()
    }
    fn apply(&self, st: &mut SSt, op: &SOp) -> Result<(), Fail> {
        st.last_op = format!("{op:?}").split('(').next().unwrap_or("").to_string();
        self.step(st, *op).map_err(|f| at(f, &st.last_op))
    }
    fn observe(&self, st: &mut SSt, h: &mut DefaultHasher) -> Result<(), Fail> {
        st.model.hash(h);
        st.sorted.hash(h);
        st.refused.hash(h);
        self.compare(st).map_err(|f| at(f, &st.last_op))
    }
}

// ---- subjects -------------------------------------------------------------------------------------------

#[allow(clippy::too_many_arguments)]
fn spec(name: &str, make: impl Fn() -> Box<dyn StrCont> + 'static, sem: Sem, alphabet: Vec<SOp>, prefix: Vec<SOp>, max_len: usize, probes: &[&'static str], dq: usize, dt: usize) -> Seq<StrSpec> {
    Seq(StrSpec { name: name.to_string(), make: Box::new(make), sem, alphabet, prefix, max_len, probes: probes.to_vec(), depth_q: dq, depth_t: dt })
}

fn pushes(strs: &[&'static str]) -> Vec<SOp> {
    strs.iter().map(|s| SOp::Push(s)).collect()
}

/// 40 strings over {a, b} of length 0..=5 with duplicates: enough to leave the small-input path of radix_sort (< 32)
fn many() -> Vec<&'static str> {
    const POOL: [&str; 14] = ["", "a", "b", "aa", "ab", "ba", "bb", "aab", "abb", "bab", "abab", "bbbb", "ababa", "babab"];
    (0..40).map(|i| POOL[(i * 5 + i / 3) % POOL.len()]).collect()
}

pub fn register(reg: &mut Registry) {
    use SOp::*;
    let base = ["", "a", "ab", "b", "a\0b"];
    let probes = ["", "a", "a\0b", "ab", "b", "zz"];

    // ---- SortableStrVec
    let mut a = pushes(&base);
    a.extend([Sort(SortKind::Lex), Sort(SortKind::ByLength), Sort(SortKind::Reverse), Sort(SortKind::Radix), Clear, CloneSwap]);
    reg.add(spec("SortableStrVec", || Box::new(SortableAd(SortableStrVec::new())), Sem::Seq, a, vec![], usize::MAX, &probes, 4, 5));
    let mut b = pushes(&["", "ab", "b"]);
    b.extend([Sort(SortKind::Lex), Sort(SortKind::Radix), Sort(SortKind::ByLength), Shrink, Reserve, CloneSwap]);
    reg.add(spec("SortableStrVec/prefill40", || Box::new(SortableAd(SortableStrVec::with_capacity(2))), Sem::Seq, b, pushes(&many()), usize::MAX, &["", "a", "ab", "abab", "bbbb", "zz"], 3, 4));

    // ---- FixedLenStrVec<N>
    reg.add(spec("FixedLenStrVec<4>", || Box::new(FixedAd::<4>(FixedLenStrVec::new())), Sem::Seq, pushes(&["", "a", "ab", "a\0b", "abcd", "abcde", "\u{e9}\u{e9}\u{e9}"]), vec![], 4, &["", "a", "ab", "abcd", "zz"], 4, 5));
    reg.add(spec("FixedLenStrVec<1>", || Box::new(FixedAd::<1>(FixedLenStrVec::with_capacity(1))), Sem::Seq, pushes(&["", "a", "b", "ab"]), vec![], 1, &["", "a", "b"], 5, 6));

    // ---- BitPackedStringVec
    let mut bp = pushes(&base);
    bp.push(CloneSwap);
    reg.add(spec("BitPackedStringVec32", || Box::new(BitPacked32Ad(BitPackedStringVec32::new())), Sem::Seq, bp.clone(), vec![], usize::MAX, &probes, 5, 6));
    reg.add(spec("BitPackedStringVec64", || Box::new(BitPacked64Ad(BitPackedStringVec64::with_capacity(1))), Sem::Seq, bp, vec![], usize::MAX, &probes, 4, 5));

    // ---- AdvancedStringVec, every compression level; the overlap machinery needs >= 3 shared leading bytes
    let adv = ["", "abc", "abcabc", "abcx", "abcabcx", "xabc"];
    for level in 0u8..=3 {
        let mut al = pushes(&adv);
        al.push(CloneSwap);
        reg.add(spec(
            &if level == 3 { "AdvancedStringVec/level3[explicit]".to_string() } else { format!("AdvancedStringVec[level={level}]") },
            move || Box::new(AdvancedAd(AdvancedStringVec::with_config(AdvancedStringConfig { compression_level: level, ..AdvancedStringConfig::default() }))),
            if level == 0 { Sem::Seq } else { Sem::Intern },
            al,
            vec![],
            usize::MAX,
            &[],
            4,
            5,
        ));
    }
    let mut al = pushes(&adv);
    al.push(CloneSwap);
    reg.add(spec("AdvancedStringVec/level3[memory_optimized]", || Box::new(AdvancedAd(AdvancedStringVec::with_config(AdvancedStringConfig::memory_optimized()))), Sem::Intern, al.clone(), vec![], usize::MAX, &[], 4, 5));
    reg.add(spec("AdvancedStringVec[balanced]", || Box::new(AdvancedAd(AdvancedStringVec::with_config(AdvancedStringConfig::balanced()))), Sem::Intern, al, vec![], usize::MAX, &[], 4, 5));

    // ---- ZoSortedStrVec (immutable: every push rebuilds it from all strings pushed so far)
    let zo = ["", "a", "ab", "b", "\u{e9}", "a\0b"];
    let zprobes = ["", "a", "a\0b", "aa", "ab", "b", "\u{e9}", "zz"];
    let mut za = pushes(&zo);
    za.push(CloneSwap);
    reg.add(spec(
        "ZoSortedStrVec[from_strings]",
        || Box::new(ZoAd { all: vec![], z: ZoSortedStrVec::from_strings(vec![]).expect("empty"), via_sortable: false }),
        Sem::SortedSet,
        za.clone(),
        vec![],
        usize::MAX,
        &zprobes,
        4,
        5,
    ));
    reg.add(spec(
        "ZoSortedStrVec[from_sortable_str_vec]",
        || Box::new(ZoAd { all: vec![], z: ZoSortedStrVec::from_strings(vec![]).expect("empty"), via_sortable: true }),
        Sem::SortedBag,
        za,
        vec![],
        usize::MAX,
        &zprobes,
        4,
        5,
    ));
}
