//! C10, string vectors: SortableStrVec, FixedLenStrVec<N>, BitPackedStringVec, AdvancedStringVec and
//! ZoSortedStrVec against `Vec<String>` (or, for the sorted set, the sorted de-duplicated list).

use std::collections::hash_map::DefaultHasher;
use std::fmt;
use std::hash::Hash;
use std::path::Path;

use zverif::seq::{Seq, SeqSpec};
use zverif::{Fail, Registry, Tier};

use zipora::containers::specialized::{
    AdvancedStringConfig, AdvancedStringVec, BitPackedStringVec32, BitPackedStringVec64, FixedLenStrVec, SortableStrVec, ZoSortedStrVec,
};

#[derive(Clone, Copy, Debug, PartialEq, Eq, Hash)]
pub enum SortKind {
    Lex,
    Radix,
    ByLength,
    Reverse,
}

#[derive(Clone, Copy, PartialEq, Eq)]
pub enum SOp {
    Push(&'static str),
    Sort(SortKind),
    Clear,
    Shrink,
    Reserve,
    CloneSwap,
    /// (audit) push a generated string of exactly this many bytes (see `big`)
    PushBig(usize),
}

/// Deterministic string of `n` bytes: lower-case letters with a period of 251, so that prefixes and the bytes around
/// any power-of-two position differ.
pub fn big(n: usize) -> String {
    (0..n).map(|i| (b'a' + ((i % 251) % 26) as u8) as char).collect()
}

impl fmt::Debug for SOp {
    fn fmt(&self, f: &mut fmt::Formatter<'_>) -> fmt::Result {
        match self {
            SOp::Push(s) => write!(f, "Push({s:?})"),
            SOp::Sort(k) => write!(f, "Sort({k:?})"),
            SOp::Clear => write!(f, "Clear"),
            SOp::Shrink => write!(f, "Shrink"),
            SOp::Reserve => write!(f, "Reserve"),
            SOp::CloneSwap => write!(f, "CloneSwap"),
            SOp::PushBig(n) => write!(f, "PushBig({n})"),
        }
    }
}

pub trait StrCont {
    /// `Ok(Some(i))`: stored, retrievable at index i; `Ok(None)`: stored, the API returns no index
    fn push(&mut self, s: &str) -> Result<Option<usize>, String>;
    fn len(&self) -> usize;
    fn is_empty(&self) -> bool;
    fn get(&self, i: usize) -> Option<String>;
    fn iter(&self) -> Option<Vec<String>>;
    fn get_bytes(&self, _i: usize) -> Option<Option<Vec<u8>>> {
        None
    }
    fn find(&self, _s: &str) -> Option<Option<usize>> {
        None
    }
    fn count_prefix(&self, _p: &str) -> Option<usize> {
        None
    }
    fn sort(&mut self, _k: SortKind) -> Option<Result<(), String>> {
        None
    }
    /// `Some(None)`: a sorted view is offered but none is valid right now
    fn sorted(&self) -> Option<Option<Vec<String>>> {
        None
    }
    fn binary_search(&self, _s: &str) -> Option<Result<usize, usize>> {
        None
    }
    fn contains(&self, _s: &str) -> Option<bool> {
        None
    }
    fn range(&self, _a: &str, _b: &str) -> Option<Vec<String>> {
        None
    }
    fn clear(&mut self) -> bool {
        false
    }
    fn shrink(&mut self) -> bool {
        false
    }
    fn reserve(&mut self) -> bool {
        false
    }
    fn try_clone(&self) -> Option<Box<dyn StrCont>> {
        None
    }
}

// ---- adapters ---------------------------------------------------------------------------------------

struct SortableAd(SortableStrVec);

impl StrCont for SortableAd {
    fn push(&mut self, s: &str) -> Result<Option<usize>, String> {
        // both entry points in turn: push_str(&str) and push(String)
        if self.0.len() % 2 == 0 { self.0.push_str(s) } else { self.0.push(s.to_string()) }.map(Some).map_err(|e| e.to_string())
    }
    fn len(&self) -> usize {
        self.0.len()
    }
    fn is_empty(&self) -> bool {
        self.0.is_empty()
    }
    fn get(&self, i: usize) -> Option<String> {
        let a = self.0.get(i);
        if a != self.0.get_by_id(i) {
            return Some("\u{1}<get and get_by_id disagree>".to_string());
        }
        a.map(|s| s.to_string())
    }
    fn iter(&self) -> Option<Vec<String>> {
        Some(self.0.iter().map(|s| s.to_string()).collect())
    }
    fn sort(&mut self, k: SortKind) -> Option<Result<(), String>> {
        Some(
            match k {
                SortKind::Lex => self.0.sort(),
                SortKind::Radix => self.0.radix_sort(),
                SortKind::ByLength => self.0.sort_by_length(),
                SortKind::Reverse => self.0.sort_by(|a, b| b.cmp(a)),
            }
            .map_err(|e| e.to_string()),
        )
    }
    fn sorted(&self) -> Option<Option<Vec<String>>> {
        let n = self.0.len();
        let by_index: Vec<Option<String>> = (0..n).map(|i| self.0.get_sorted(i).map(|s| s.to_string())).collect();
        let by_iter: Vec<String> = self.0.iter_sorted().map(|s| s.to_string()).collect();
        if by_index.iter().all(|x| x.is_none()) && by_iter.is_empty() {
            return Some(None);
        }
        // a partially valid view is reported as it is (with holes as a marker the model can never match)
        let v: Vec<String> = by_index.into_iter().map(|x| x.unwrap_or_else(|| "\u{1}<None>".to_string())).collect();
        if v != by_iter {
            return Some(Some(vec!["\u{1}<get_sorted and iter_sorted disagree>".to_string()]));
        }
        Some(Some(v))
    }
    fn binary_search(&self, s: &str) -> Option<Result<usize, usize>> {
        Some(self.0.binary_search(s))
    }
    fn clear(&mut self) -> bool {
        self.0.clear();
        true
    }
    fn shrink(&mut self) -> bool {
        self.0.shrink_to_fit();
        true
    }
    fn reserve(&mut self) -> bool {
        self.0.reserve(3);
        true
    }
    fn try_clone(&self) -> Option<Box<dyn StrCont>> {
        Some(Box::new(SortableAd(self.0.clone())))
    }
}

struct FixedAd<const N: usize>(FixedLenStrVec<N>);

impl<const N: usize> StrCont for FixedAd<N> {
    fn push(&mut self, s: &str) -> Result<Option<usize>, String> {
        self.0.push(s).map(|_| None).map_err(|e| e.to_string())
    }
    fn len(&self) -> usize {
        self.0.len()
    }
    fn is_empty(&self) -> bool {
        self.0.is_empty()
    }
    fn get(&self, i: usize) -> Option<String> {
        self.0.get(i).map(|s| s.to_string())
    }
    fn iter(&self) -> Option<Vec<String>> {
        None
    }
    fn get_bytes(&self, i: usize) -> Option<Option<Vec<u8>>> {
        Some(self.0.get_bytes(i).map(|b| b.to_vec()))
    }
    fn find(&self, s: &str) -> Option<Option<usize>> {
        Some(self.0.find_exact(s))
    }
    fn count_prefix(&self, p: &str) -> Option<usize> {
        Some(self.0.count_prefix(p))
    }
}

macro_rules! bitpacked_ad {
    ($name:ident, $t:ty) => {
        struct $name($t);
        impl StrCont for $name {
            fn push(&mut self, s: &str) -> Result<Option<usize>, String> {
                // both entry points in turn: push(&str) and extend(iterator)
                if self.0.len() % 2 == 0 {
                    self.0.push(s).map(Some).map_err(|e| e.to_string())
                } else {
                    match self.0.extend(std::iter::once(s)) {
                        Ok(v) if v.len() == 1 => Ok(Some(v[0])),
                        Ok(v) => Err(format!("extend of one string returned {} indices", v.len())),
                        Err(e) => Err(e.to_string()),
                    }
                }
            }
            fn len(&self) -> usize {
                self.0.len()
            }
            fn is_empty(&self) -> bool {
                self.0.is_empty()
            }
            fn get(&self, i: usize) -> Option<String> {
                self.0.get(i).map(|s| s.to_string())
            }
            fn iter(&self) -> Option<Vec<String>> {
                Some(self.0.iter().map(|s| s.to_string()).collect())
            }
            fn get_bytes(&self, i: usize) -> Option<Option<Vec<u8>>> {
                Some(self.0.get_bytes(i).map(|b| b.to_vec()))
            }
            fn find(&self, s: &str) -> Option<Option<usize>> {
                Some(self.0.find_simd(s))
            }
            fn try_clone(&self) -> Option<Box<dyn StrCont>> {
                Some(Box::new($name(self.0.clone())))
            }
        }
    };
}
bitpacked_ad!(BitPacked32Ad, BitPackedStringVec32);
bitpacked_ad!(BitPacked64Ad, BitPackedStringVec64);

struct AdvancedAd(AdvancedStringVec);

impl StrCont for AdvancedAd {
    fn push(&mut self, s: &str) -> Result<Option<usize>, String> {
        self.0.push(s).map(Some).map_err(|e| e.to_string())
    }
    fn len(&self) -> usize {
        self.0.len()
    }
    fn is_empty(&self) -> bool {
        self.0.is_empty()
    }
    fn get(&self, i: usize) -> Option<String> {
        self.0.get(i).map(|s| s.to_string())
    }
    fn iter(&self) -> Option<Vec<String>> {
        Some(self.0.iter().map(|s| s.to_string()).collect())
    }
    fn get_bytes(&self, i: usize) -> Option<Option<Vec<u8>>> {
        Some(self.0.get_bytes(i).map(|b| b.to_vec()))
    }
    fn try_clone(&self) -> Option<Box<dyn StrCont>> {
        Some(Box::new(AdvancedAd(self.0.clone())))
    }
}

/// ZoSortedStrVec is immutable: "push" rebuilds it from everything pushed so far.
struct ZoAd {
    all: Vec<String>,
    z: ZoSortedStrVec,
    via_sortable: bool,
    /// (audit) sort the strings (duplicates kept) and hand them to from_sorted_strings directly
    via_sorted: bool,
}

impl ZoAd {
    fn build(all: &[String], via_sortable: bool, via_sorted: bool) -> Result<ZoSortedStrVec, String> {
        if via_sorted {
            let mut v = all.to_vec();
            v.sort();
            ZoSortedStrVec::from_sorted_strings(v).map_err(|e| e.to_string())
        } else if via_sortable {
            // from_sortable_str_vec keeps duplicates (it requires sorted, not strictly sorted, input)
            let sv = SortableStrVec::from_iter(all.iter()).map_err(|e| e.to_string())?;
            ZoSortedStrVec::from_sortable_str_vec(sv).map_err(|e| e.to_string())
        } else {
            ZoSortedStrVec::from_strings(all.to_vec()).map_err(|e| e.to_string())
        }
    }
}

impl StrCont for ZoAd {
    fn push(&mut self, s: &str) -> Result<Option<usize>, String> {
        self.all.push(s.to_string());
        match Self::build(&self.all, self.via_sortable, self.via_sorted) {
            Ok(z) => {
                self.z = z;
                Ok(None)
            }
            Err(e) => {
                self.all.pop();
                Err(e)
            }
        }
    }
    fn len(&self) -> usize {
        self.z.len()
    }
    fn is_empty(&self) -> bool {
        self.z.is_empty()
    }
    fn get(&self, i: usize) -> Option<String> {
        self.z.get(i).map(|s| s.to_string())
    }
    fn iter(&self) -> Option<Vec<String>> {
        Some(self.z.iter().map(|s| s.to_string()).collect())
    }
    fn binary_search(&self, s: &str) -> Option<Result<usize, usize>> {
        Some(self.z.binary_search(s))
    }
    fn contains(&self, s: &str) -> Option<bool> {
        Some(self.z.contains(s))
    }
    fn range(&self, a: &str, b: &str) -> Option<Vec<String>> {
        Some(self.z.range(a, b).map(|s| s.to_string()).collect())
    }
    fn try_clone(&self) -> Option<Box<dyn StrCont>> {
        Some(Box::new(ZoAd { all: self.all.clone(), z: self.z.clone(), via_sortable: self.via_sortable, via_sorted: self.via_sorted }))
    }
}

// ---- spec ---------------------------------------------------------------------------------------------

#[derive(Clone, Copy, PartialEq, Eq)]
pub enum Sem {
    /// push appends: exactly Vec<String>
    Seq,
    /// push returns the index under which the string can be read back; duplicates may share an index
    Intern,
    /// sorted set of everything pushed
    SortedSet,
    /// sorted multiset of everything pushed
    SortedBag,
}

pub struct StrSpec {
    pub name: String,
    pub make: Box<dyn Fn() -> Box<dyn StrCont>>,
    pub sem: Sem,
    pub alphabet: Vec<SOp>,
    pub prefix: Vec<SOp>,
    /// longest string the container is specified to accept
    pub max_len: usize,
    pub probes: Vec<&'static str>,
    pub depth_q: usize,
    pub depth_t: usize,
    /// (audit) strings pushed into container and model before the history starts, without observing in between
    pub prefill_fast: Vec<String>,
}

pub struct SSt {
    c: Box<dyn StrCont>,
    model: Vec<String>,
    sorted: Option<SortKind>,
    refused: u64,
    last_op: String,
}

fn fl(clause: &str, detail: String) -> Fail {
    Fail::new(clause, detail).with_class(clause)
}

/// strings in failure messages: long ones are abbreviated
fn short(s: &str) -> String {
    if s.len() <= 80 {
        s.to_string()
    } else {
        let head: String = s.chars().take(24).collect();
        format!("{head}...<{} bytes>", s.len())
    }
}
fn short_opt(s: &Option<String>) -> Option<String> {
    s.as_ref().map(|x| short(x))
}
fn short_all(v: &[String]) -> String {
    if v.len() <= 12 && v.iter().all(|x| x.len() <= 80) {
        format!("{v:?}")
    } else {
        format!("[{} strings, first {:?}]", v.len(), v.iter().take(3).map(|x| short(x)).collect::<Vec<_>>())
    }
}

impl StrSpec {
    fn step(&self, st: &mut SSt, op: SOp) -> Result<(), Fail> {
        let owned;
        match op {
            SOp::Push(_) | SOp::PushBig(_) => {
                let s: &str = match op {
                    SOp::Push(s) => s,
                    SOp::PushBig(n) => {
                        owned = big(n);
                        &owned
                    }
                    _ => unreachable!(),
                };
                let r = st.c.push(s);
                let too_long = s.len() > self.max_len;
                match r {
                    Err(_) if too_long => {}
                    Err(_) => {
                        zverif::core::tolerate_refusal(&self.name(), &format!("push/len{}/n={}", if s.len() > 255 { ">255" } else if s.len() > 16 { ">16" } else { "<=16" }, st.model.len().min(9)), "push refused")?;
                        st.refused += 1
                    }
                    Ok(_) if too_long => {
                        return Err(fl("capacity", format!("push of a {}-byte string into a container limited to {} bytes returned Ok", s.len(), self.max_len)));
                    }
                    Ok(idx) => {
                        match self.sem {
                            Sem::Seq => {
                                if let Some(i) = idx {
                                    if i != st.model.len() {
                                        return Err(fl("push_index", format!("push({:?}) returned index {i}, model says {}", short(s), st.model.len())));
                                    }
                                }
                                st.model.push(s.to_string());
                            }
                            Sem::Intern => match idx {
                                Some(i) if i == st.model.len() => st.model.push(s.to_string()),
                                Some(i) if i < st.model.len() && st.model[i] == s => {}
                                other => {
                                    return Err(fl("push_index", format!("push({:?}) returned {other:?}; {} strings stored, string at that index: {:?}", short(s), st.model.len(), other.and_then(|i| st.model.get(i)).map(|x| short(x)))));
                                }
                            },
                            Sem::SortedSet => {
                                if !st.model.iter().any(|x| x == s) {
                                    st.model.push(s.to_string());
                                    st.model.sort();
                                }
                            }
                            Sem::SortedBag => {
                                st.model.push(s.to_string());
                                st.model.sort();
                            }
                        }
                        st.sorted = None;
                    }
                }
            }
            SOp::Sort(k) => match st.c.sort(k) {
                None => {}
                Some(Ok(())) => st.sorted = Some(k),
                Some(Err(_)) => st.refused += 1,
            },
            SOp::Clear => {
                if st.c.clear() {
                    st.model.clear();
                    st.sorted = None;
                }
            }
            SOp::Shrink => {
                st.c.shrink();
            }
            SOp::Reserve => {
                st.c.reserve();
            }
            SOp::CloneSwap => {
                if let Some(c) = st.c.try_clone() {
                    st.c = c;
                }
            }
        }
        Ok(())
    }

    fn compare(&self, st: &SSt) -> Result<(), Fail> {
        let m = &st.model;
        let c = &st.c;
        if c.len() != m.len() {
            return Err(fl("len", format!("len() = {}, model says {}", c.len(), m.len())));
        }
        if c.is_empty() != m.is_empty() {
            return Err(fl("len", format!("is_empty() = {}, model has {} strings", c.is_empty(), m.len())));
        }
        for i in 0..=m.len() + 1 {
            let g = c.get(i);
            let want = m.get(i).cloned();
            if g != want {
                let clause = if i >= m.len() { "out_of_range" } else { "get" };
                let sub = match (&g, &want) {
                    (_, Some(w)) if w.contains('\0') => "string_with_nul",
                    _ => "not_the_pushed_string",
                };
                return Err(fl2(clause, sub, format!("get({i}) = {:?}, model says {:?}", short_opt(&g), short_opt(&want))));
            }
            if let Some(b) = c.get_bytes(i) {
                let wantb = m.get(i).map(|s| s.as_bytes().to_vec());
                if b != wantb {
                    let clause = if i >= m.len() { "out_of_range" } else { "get" };
                    return Err(fl(clause, format!("get_bytes({i}) has {:?} bytes, model says {:?} bytes (or other content)", b.as_ref().map(|x| x.len()), wantb.as_ref().map(|x| x.len()))));
                }
            }
        }
        if let Some(it) = c.iter() {
            if &it != m {
                return Err(fl("sequence", format!("iter() yields {}, model says {}", short_all(&it), short_all(m))));
            }
        }
        for p in &self.probes {
            if let Some(f) = c.find(p) {
                let want = m.iter().position(|x| x == p);
                if f != want {
                    return Err(fl("find", format!("find({p:?}) = {f:?}, model says {want:?}")));
                }
            }
            if let Some(n) = c.count_prefix(p) {
                let want = m.iter().filter(|x| x.starts_with(p)).count();
                if n != want {
                    return Err(fl("find", format!("count_prefix({p:?}) = {n}, model says {want}")));
                }
            }
        }
        // sorted view
        let sorted_set = matches!(self.sem, Sem::SortedSet | Sem::SortedBag);
        let mut lex: Option<Vec<String>> = if sorted_set { Some(m.clone()) } else { None };
        if let Some(view) = c.sorted() {
            match (st.sorted, view) {
                (None, None) => {}
                (None, Some(v)) => {
                    return Err(fl("sorted_view", format!("a sorted view {} is served although the vector changed after the last sort", short_all(&v))));
                }
                (Some(k), None) => {
                    if !m.is_empty() {
                        return Err(fl("sorted_view", format!("no sorted view after Sort({k:?}) of {} strings", m.len())));
                    }
                }
                (Some(k), Some(v)) => {
                    let mut want = m.clone();
                    match k {
                        SortKind::Lex | SortKind::Radix => {
                            want.sort();
                            if v != want {
                                return Err(fl("sorted_view", format!("after Sort({k:?}) the sorted view is {}, model says {}", short_all(&v), short_all(&want))));
                            }
                            lex = Some(want);
                        }
                        SortKind::Reverse => {
                            want.sort();
                            want.reverse();
                            if v != want {
                                return Err(fl("sorted_view", format!("after Sort({k:?}) the sorted view is {}, model says {}", short_all(&v), short_all(&want))));
                            }
                        }
                        SortKind::ByLength => {
                            let mut a = v.clone();
                            a.sort();
                            want.sort();
                            if a != want || v.windows(2).any(|w| w[0].len() > w[1].len()) {
                                return Err(fl("sorted_view", format!("after Sort(ByLength) the sorted view is {}: not the model's strings in non-decreasing length ({})", short_all(&v), short_all(&want))));
                            }
                        }
                    }
                }
            }
        }
        if let Some(sv) = &lex {
            for p in &self.probes {
                if let Some(r) = c.binary_search(p) {
                    let ok = match r {
                        Ok(i) => sv.get(i).map(|x| x == p).unwrap_or(false),
                        Err(i) => !sv.iter().any(|x| x == p) && i == sv.partition_point(|x| x.as_str() < *p),
                    };
                    if !ok {
                        return Err(fl2("search", "binary_search", format!("binary_search({:?}) = {r:?} over the sorted strings {}", short(p), short_all(sv))));
                    }
                }
                if let Some(b) = c.contains(p) {
                    if b != sv.iter().any(|x| x == p) {
                        return Err(fl2("search", "contains", format!("contains({:?}) = {b} over {}", short(p), short_all(sv))));
                    }
                }
            }
            for a in &self.probes {
                for b in &self.probes {
                    if a <= b {
                        if let Some(r) = c.range(a, b) {
                            let want: Vec<String> = sv.iter().filter(|x| x.as_str() >= *a && x.as_str() < *b).cloned().collect();
                            if r != want {
                                return Err(fl2("search", "range", format!("range({:?}, {:?}) = {}, model says {}", short(a), short(b), short_all(&r), short_all(&want))));
                            }
                        }
                    }
                }
            }
        }
        Ok(())
    }
}

fn at(mut f: Fail, last: &str) -> Fail {
    f.class = format!("{}@{}", f.class, last);
    f
}

/// failure with a sub-class (a mechanical fact about the failing observation)
fn fl2(clause: &str, sub: &str, detail: String) -> Fail {
    Fail::new(clause, detail).with_class(format!("{clause}:{sub}"))
}

impl SeqSpec for StrSpec {
    type Op = SOp;
    type St = SSt;

    fn name(&self) -> String {
        self.name.clone()
    }
    fn depth(&self, tier: Tier) -> usize {
        tier.pick(self.depth_q, self.depth_t)
    }
    fn bound(&self, tier: Tier) -> String {
        format!(
            "all histories of <= {} mutators from {:?} after a scripted prefix of {} ops (+ {} strings pushed before the history starts); model = {}; after every step: len, get(i)/get_bytes(i) for i in 0..=len+1, iter(), find/count_prefix/binary_search/contains/range on the probes {:?}, and the sorted view where offered",
            self.depth(tier),
            self.alphabet,
            self.prefix.len(),
            self.prefill_fast.len(),
            match self.sem {
                Sem::Seq => "Vec<String>",
                Sem::Intern => "index -> String table (duplicates may share an index)",
                Sem::SortedSet => "sorted, de-duplicated Vec<String>",
                Sem::SortedBag => "sorted Vec<String>",
            },
            self.probes
        )
    }
    fn init(&self, _scratch: &Path) -> Result<SSt, Fail> {
        let mut st = SSt { c: (self.make)(), model: Vec::new(), sorted: None, refused: 0, last_op: "init".into() };
        for s in &self.prefill_fast {
            match st.c.push(s) {
                Ok(idx) => {
                    if let (Sem::Seq, Some(i)) = (self.sem, idx) {
                        if i != st.model.len() {
                            return Err(fl("push_index", format!("prefill: push returned index {i}, model says {}", st.model.len())));
                        }
                    }
                    match self.sem {
                        Sem::Seq | Sem::Intern => st.model.push(s.clone()),
                        Sem::SortedSet => {
                            if !st.model.contains(s) {
                                st.model.push(s.clone());
                                st.model.sort();
                            }
                        }
                        Sem::SortedBag => {
                            st.model.push(s.clone());
                            st.model.sort();
                        }
                    }
                }
                Err(e) => return Err(Fail::new("construct", format!("prefill push failed: {e}"))),
            }
        }
        for op in &self.prefix {
            self.apply(&mut st, op)?;
            let mut h = DefaultHasher::new();
            self.observe(&mut st, &mut h)?;
        }
        Ok(st)
    }
    fn ops(&self, _st: &SSt) -> Vec<SOp> {
        self.alphabet.clone()
    }
    fn apply(&self, st: &mut SSt, op: &SOp) -> Result<(), Fail> {
        st.last_op = format!("{op:?}").split('(').next().unwrap_or("").to_string();
        self.step(st, *op).map_err(|f| at(f, &st.last_op))
    }
    fn observe(&self, st: &mut SSt, h: &mut DefaultHasher) -> Result<(), Fail> {
        st.model.hash(h);
        st.sorted.hash(h);
        st.refused.hash(h);
        self.compare(st).map_err(|f| at(f, &st.last_op))
    }
}

// ---- subjects -------------------------------------------------------------------------------------------

#[allow(clippy::too_many_arguments)]
fn spec(name: &str, make: impl Fn() -> Box<dyn StrCont> + 'static, sem: Sem, alphabet: Vec<SOp>, prefix: Vec<SOp>, max_len: usize, probes: &[&'static str], dq: usize, dt: usize) -> Seq<StrSpec> {
    Seq(StrSpec { name: name.to_string(), make: Box::new(make), sem, alphabet, prefix, max_len, probes: probes.to_vec(), depth_q: dq, depth_t: dt, prefill_fast: Vec::new() })
}

fn pushes(strs: &[&'static str]) -> Vec<SOp> {
    strs.iter().map(|s| SOp::Push(s)).collect()
}

/// 40 strings over {a, b} of length 0..=5 with duplicates: enough to leave the small-input path of radix_sort (< 32)
fn many() -> Vec<&'static str> {
    const POOL: [&str; 14] = ["", "a", "b", "aa", "ab", "ba", "bb", "aab", "abb", "bab", "abab", "bbbb", "ababa", "babab"];
    (0..40).map(|i| POOL[(i * 5 + i / 3) % POOL.len()]).collect()
}

pub fn register(reg: &mut Registry) {
    use SOp::*;
    let base = ["", "a", "ab", "b", "a\0b"];
    let probes = ["", "a", "a\0b", "ab", "b", "zz"];

    // ---- SortableStrVec
    let mut a = pushes(&base);
    a.extend([Sort(SortKind::Lex), Sort(SortKind::ByLength), Sort(SortKind::Reverse), Sort(SortKind::Radix), Clear, CloneSwap]);
    reg.add(spec("SortableStrVec", || Box::new(SortableAd(SortableStrVec::new())), Sem::Seq, a, vec![], usize::MAX, &probes, 4, 5));
    let mut b = pushes(&["", "ab", "b"]);
    b.extend([Sort(SortKind::Lex), Sort(SortKind::Radix), Sort(SortKind::ByLength), Shrink, Reserve, CloneSwap]);
    reg.add(spec("SortableStrVec/prefill40", || Box::new(SortableAd(SortableStrVec::with_capacity(2))), Sem::Seq, b, pushes(&many()), usize::MAX, &["", "a", "ab", "abab", "bbbb", "zz"], 3, 4));

    // ---- FixedLenStrVec<N>
    reg.add(spec("FixedLenStrVec<4>", || Box::new(FixedAd::<4>(FixedLenStrVec::new())), Sem::Seq, pushes(&["", "a", "ab", "a\0b", "abcd", "abcde", "\u{e9}\u{e9}\u{e9}"]), vec![], 4, &["", "a", "ab", "abcd", "zz"], 4, 5));
    reg.add(spec("FixedLenStrVec<1>", || Box::new(FixedAd::<1>(FixedLenStrVec::with_capacity(1))), Sem::Seq, pushes(&["", "a", "b", "ab"]), vec![], 1, &["", "a", "b"], 5, 6));

    // ---- BitPackedStringVec
    let mut bp = pushes(&base);
    bp.push(CloneSwap);
    reg.add(spec("BitPackedStringVec32", || Box::new(BitPacked32Ad(BitPackedStringVec32::new())), Sem::Seq, bp.clone(), vec![], usize::MAX, &probes, 5, 6));
    reg.add(spec("BitPackedStringVec64", || Box::new(BitPacked64Ad(BitPackedStringVec64::with_capacity(1))), Sem::Seq, bp, vec![], usize::MAX, &probes, 4, 5));

    // ---- AdvancedStringVec, every compression level; the overlap machinery needs >= 3 shared leading bytes
    let adv = ["", "abc", "abcabc", "abcx", "abcabcx", "xabc"];
    for level in 0u8..=3 {
        let mut al = pushes(&adv);
        al.push(CloneSwap);
        reg.add(spec(
            &if level == 3 { "AdvancedStringVec/level3[explicit]".to_string() } else { format!("AdvancedStringVec[level={level}]") },
            move || Box::new(AdvancedAd(AdvancedStringVec::with_config(AdvancedStringConfig { compression_level: level, ..AdvancedStringConfig::default() }))),
            if level == 0 { Sem::Seq } else { Sem::Intern },
            al,
            vec![],
            usize::MAX,
            &[],
            4,
            5,
        ));
    }
    let mut al = pushes(&adv);
    al.push(CloneSwap);
    reg.add(spec("AdvancedStringVec/level3[memory_optimized]", || Box::new(AdvancedAd(AdvancedStringVec::with_config(AdvancedStringConfig::memory_optimized()))), Sem::Intern, al.clone(), vec![], usize::MAX, &[], 4, 5));
    reg.add(spec("AdvancedStringVec[balanced]", || Box::new(AdvancedAd(AdvancedStringVec::with_config(AdvancedStringConfig::balanced()))), Sem::Intern, al, vec![], usize::MAX, &[], 4, 5));

    // ---- ZoSortedStrVec (immutable: every push rebuilds it from all strings pushed so far)
    let zo = ["", "a", "ab", "b", "\u{e9}", "a\0b"];
    let zprobes = ["", "a", "a\0b", "aa", "ab", "b", "\u{e9}", "zz"];
    let mut za = pushes(&zo);
    za.push(CloneSwap);
    reg.add(spec(
        "ZoSortedStrVec[from_strings]",
        || Box::new(ZoAd { all: vec![], z: ZoSortedStrVec::from_strings(vec![]).expect("empty"), via_sortable: false, via_sorted: false }),
        Sem::SortedSet,
        za.clone(),
        vec![],
        usize::MAX,
        &zprobes,
        4,
        5,
    ));
    reg.add(spec(
        "ZoSortedStrVec[from_sortable_str_vec]",
        || Box::new(ZoAd { all: vec![], z: ZoSortedStrVec::from_strings(vec![]).expect("empty"), via_sortable: true, via_sorted: false }),
        Sem::SortedBag,
        za,
        vec![],
        usize::MAX,
        &zprobes,
        4,
        5,
    ));

    // =============================================================================================
    // Coverage audit
    // =============================================================================================
    fn leak(s: String) -> &'static str {
        Box::leak(s.into_boxed_str())
    }
    fn with_prefill(mut s: Seq<StrSpec>, strs: Vec<String>) -> Seq<StrSpec> {
        s.0.prefill_fast = strs;
        s
    }

    // ---- SortableStrVec: the entry packs the length into 20 bits (CompactEntry::MAX_LENGTH = 2^20 - 1)
    reg.add(spec(
        "SortableStrVec/length-limit",
        || Box::new(SortableAd(SortableStrVec::new())),
        Sem::Seq,
        vec![PushBig((1 << 20) - 1), PushBig(1 << 20), Push("ab"), Sort(SortKind::Lex), CloneSwap],
        vec![],
        usize::MAX,
        &["ab", "zz"],
        2,
        3,
    ));

    // ---- SortableStrVec with more than 2 * cache_block_size (512) strings: binary_search switches to its block search;
    //      all strings share their first byte, so radix_sort recurses below the first level with buckets >= 32
    let k = |i: usize| format!("k{i:04}");
    let mut many520: Vec<String> = (0..520).map(|i| k(i * 7 % 520)).collect();
    many520.extend([k(100), k(100), k(256)]);
    let block_probes: Vec<&'static str> = ["a", "k0000", "k0100", "k0255", "k0256", "k0256x", "k0257", "k0300", "k0511", "k0512", "k0519", "k0519x", "zz"].to_vec();
    reg.add(with_prefill(
        spec(
            "SortableStrVec/prefill523",
            || Box::new(SortableAd(SortableStrVec::new())),
            Sem::Seq,
            vec![Push("k0256x"), Push(""), Push("zz"), Sort(SortKind::Lex), Sort(SortKind::Radix), Sort(SortKind::ByLength), CloneSwap],
            vec![],
            usize::MAX,
            &block_probes,
            2,
            3,
        ),
        many520,
    ));

    // ---- FixedLenStrVec: N above the 255-byte limit of the packed length; N = 32 reaches the >= 8 / >= 16 byte branches
    //      of count_prefix / find_exact
    let s255 = leak(big(255));
    let s255b = leak(format!("b{}", big(254)));
    let s256 = leak(big(256));
    reg.add(spec(
        "FixedLenStrVec<300>",
        || Box::new(FixedAd::<300>(FixedLenStrVec::new())),
        Sem::Seq,
        pushes(&["a", s255, s255b, s256]),
        vec![],
        300,
        &["a", s255, s255b, s256],
        3,
        4,
    ));
    let s8 = leak(big(8));
    let s16 = leak(big(16));
    let s16z = leak(format!("{}Z", big(15)));
    let s17 = leak(big(17));
    let s32 = leak(big(32));
    let s33 = leak(big(33));
    reg.add(spec(
        "FixedLenStrVec<32>",
        || Box::new(FixedAd::<32>(FixedLenStrVec::with_capacity(2))),
        Sem::Seq,
        pushes(&["", s8, s16, s16z, s17, s32, s33]),
        vec![],
        32,
        &["", leak(big(7)), s8, leak(big(9)), s16, s16z, s17, s32, "zz"],
        3,
        4,
    ));

    // ---- BitPackedStringVec: find_simd compares needles of >= 16 bytes in 32-byte chunks
    let n16 = leak(big(16));
    let n32a = leak(format!("{}a", big(31)));
    let n32b = leak(format!("{}b", big(31)));
    let n33a = leak(format!("{}a", big(32)));
    let n33b = leak(format!("{}b", big(32)));
    let n64 = leak(format!("{}Q{}", big(40), big(23)));
    let n64b = leak(big(64));
    let long_needles = [n16, n32a, n32b, n33a, n33b, n64, n64b, leak(format!("{}c", big(31))), "zz"];
    let mut bl = pushes(&[n16, n32a, n32b, n33a, n33b, n64]);
    bl.push(CloneSwap);
    reg.add(spec("BitPackedStringVec32/long-needles", || Box::new(BitPacked32Ad(BitPackedStringVec32::new())), Sem::Seq, bl.clone(), vec![], usize::MAX, &long_needles, 3, 4));
    reg.add(spec("BitPackedStringVec64/long-needles", || Box::new(BitPacked64Ad(BitPackedStringVec64::new())), Sem::Seq, bl, vec![], usize::MAX, &long_needles, 3, 4));

    // ---- ZoSortedStrVec: from_sorted_strings with duplicates; boundary bit vectors that cross the 256-bit lines of the
    //      rank/select structure (30 strings of 16 bytes = 510 bits; "", "a", "ab" sort first and shift every later boundary)
    reg.add(spec(
        "ZoSortedStrVec[from_sorted_strings]",
        || Box::new(ZoAd { all: vec![], z: ZoSortedStrVec::from_strings(vec![]).expect("empty"), via_sortable: false, via_sorted: true }),
        Sem::SortedBag,
        {
            let mut v = pushes(&["", "a", "ab", "b", "\u{e9}"]);
            v.push(CloneSwap);
            v
        },
        vec![],
        usize::MAX,
        &zprobes,
        4,
        5,
    ));
    let z16 = |i: usize| format!("m{i:02}{}", big(13));
    let zmany: Vec<String> = (0..30).map(|i| z16(i * 7 % 30)).collect();
    let zp: Vec<&'static str> = vec!["", "a", "ab", leak(z16(0)), leak(z16(13)), leak(z16(14)), leak(z16(15)), leak(z16(29)), leak(format!("m14{}", big(12))), "zz"];
    for (name, via_sortable) in [("ZoSortedStrVec[from_strings]/prefill30x16", false), ("ZoSortedStrVec[from_sortable_str_vec]/prefill30x16", true)] {
        let mut v = pushes(&["", "a", "ab", "zz"]);
        v.push(CloneSwap);
        reg.add(with_prefill(
            spec(
                name,
                move || Box::new(ZoAd { all: vec![], z: ZoSortedStrVec::from_strings(vec![]).expect("empty"), via_sortable, via_sorted: false }),
                if via_sortable { Sem::SortedBag } else { Sem::SortedSet },
                v,
                vec![],
                usize::MAX,
                &zp,
                3,
                4,
            ),
            zmany.clone(),
        ));
    }
}
