//! C03 — blob stores return exactly what was stored, under stable ids.
//!
//! E1: every mutable store is stepped in lock-step with `BTreeMap<id, bytes>` + the list of issued ids;
//!     after every step every read-only query (get / contains / size / len / is_empty / get_batch / iter_ids,
//!     and get_by_key / contains_key / get_by_prefix where offered) is compared with the model on every id
//!     `0..=max_issued+1` and `u32::MAX`.
//! E2: the bulk builders are run on every record list of the stated space; record i must equal input i, ids
//!     `>= n` must be absent; `load(save(s))` must answer like `s`.
//!
//! Conditions carried from the statement: `put`/`put_batch`/`remove` returning `Err` = refused, the model is
//! unchanged (stores that do not support removal / some record shapes are not penalised); operations a store
//! does not offer are skipped; an id may be handed out again once its previous holder is no longer live.

use std::collections::hash_map::DefaultHasher;
use std::collections::BTreeMap;
use std::fmt;
use std::hash::Hash;
use std::path::{Path, PathBuf};

use serde::{Deserialize, Serialize};
use zverif::enumr::{self, Enum, EnumSpec};
use zverif::seq::{Seq, SeqSpec};
use zverif::util::{brief, h64};
use zverif::{Fail, Outcome, Tier};

use zipora::blob_store::cached_store::CacheWriteStrategy;
use zipora::blob_store::{
    BatchBlobStore, BatchZipOffsetBlobStoreBuilder, BlobStore, CachedBlobStore, DictZipBlobStore, DictZipBlobStoreBuilder, DictZipConfig,
    DictionaryBlobStore, HuffmanBlobStore, IterableBlobStore, MemoryBlobStore, MixedLenBlobStore, NestLoudsTrieBlobStore,
    NestLoudsTrieBlobStoreBuilder, PlainBlobStore, RansBlobStore, SimpleZipBlobStore, SimpleZipConfig, SortedUintVecConfig,
    TrieBlobStoreConfig, ZeroLengthBlobStore, ZipOffsetBlobStore, ZipOffsetBlobStoreBuilder, ZipOffsetBlobStoreConfig, ZstdBlobStore,
};
use zipora::cache::PageCacheConfig;
use zipora::compression::dict_zip::blob_store::EntropyAlgorithm as DzEntropy;
use zipora::RankSelectInterleaved256;

type Trie = NestLoudsTrieBlobStore<RankSelectInterleaved256>;

// ---------------------------------------------------------------------------------------------
// records

/// Index into the record table R of DESIGN §7 C03.
#[derive(Clone, Copy, PartialEq, Eq, Hash, Serialize, Deserialize)]
pub struct Rec(pub u8);

const REC_NAMES: [&str; 7] = ["e", "a", "ab", "zz", "a64", "c300", "p4000"];
/// records used by the bulk small scope and the training corpus (R of DESIGN §7 C03)
const NR: u8 = 6;
const E: Rec = Rec(0);
const A: Rec = Rec(1);
const AB: Rec = Rec(2);
const ZZ: Rec = Rec(3);
const A64: Rec = Rec(4);
const C300: Rec = Rec(5);
/// 4000 bytes: two of them straddle a 4096-byte cache page (cached store only)
const P4000: Rec = Rec(6);

impl Rec {
    fn bytes(self) -> Vec<u8> {
        match self.0 {
            0 => Vec::new(),
            1 => b"a".to_vec(),
            2 => b"ab".to_vec(),
            3 => b"zz".to_vec(),
            4 => vec![b'a'; 64],
            5 => (0..300u32).map(|i| (i % 256) as u8).collect(),
            _ => (0..4000u32).map(|i| (i % 251) as u8).collect(),
        }
    }
}
impl fmt::Debug for Rec {
    fn fmt(&self, f: &mut fmt::Formatter<'_>) -> fmt::Result {
        f.write_str(REC_NAMES[self.0 as usize % REC_NAMES.len()])
    }
}

/// Training corpus for the trainable wrappers: every record of R twice (covers all 256 byte values).
fn training() -> Vec<u8> {
    let mut v = Vec::new();
    for _ in 0..2 {
        for r in 0..NR {
            v.extend_from_slice(&Rec(r).bytes());
        }
    }
    v
}

// ---------------------------------------------------------------------------------------------
// adapter

type R<T> = Result<T, String>;

/// Everything a store can say.  `None` = the store does not offer the operation.
pub trait StoreLike {
    fn get(&mut self, id: u32) -> R<Vec<u8>>;
    fn put(&mut self, d: &[u8]) -> R<u32>;
    fn remove(&mut self, id: u32) -> R<()>;
    fn contains(&mut self, id: u32) -> bool;
    fn size(&mut self, id: u32) -> R<Option<usize>>;
    fn len(&mut self) -> usize;
    fn is_empty(&mut self) -> bool;
    fn put_batch(&mut self, _v: Vec<Vec<u8>>) -> Option<R<Vec<u32>>> {
        None
    }
    fn get_batch(&mut self, _ids: &[u32]) -> Option<R<Vec<Option<Vec<u8>>>>> {
        None
    }
    fn remove_batch(&mut self, _ids: &[u32]) -> Option<R<usize>> {
        None
    }
    fn iter_ids(&mut self) -> Option<Vec<u32>> {
        None
    }
    fn put_with_key(&mut self, _k: &[u8], _d: &[u8]) -> Option<R<u32>> {
        None
    }
    fn get_by_key(&mut self, _k: &[u8]) -> Option<R<Vec<u8>>> {
        None
    }
    fn contains_key(&mut self, _k: &[u8]) -> Option<bool> {
        None
    }
    fn get_by_prefix(&mut self, _p: &[u8]) -> Option<R<Vec<(Vec<u8>, Vec<u8>)>>> {
        None
    }
    /// save → load (serialise and deserialise, or reopen the directory); `None` = not offered
    fn reopen(self: Box<Self>, _dir: &Path) -> Option<R<Box<dyn StoreLike>>> {
        None
    }
}

macro_rules! core_methods {
    () => {
        fn get(&mut self, id: u32) -> R<Vec<u8>> {
            BlobStore::get(&*self, id).map_err(|e| e.to_string())
        }
        fn put(&mut self, d: &[u8]) -> R<u32> {
            BlobStore::put(self, d).map_err(|e| e.to_string())
        }
        fn remove(&mut self, id: u32) -> R<()> {
            BlobStore::remove(self, id).map_err(|e| e.to_string())
        }
        fn contains(&mut self, id: u32) -> bool {
            BlobStore::contains(&*self, id)
        }
        fn size(&mut self, id: u32) -> R<Option<usize>> {
            BlobStore::size(&*self, id).map_err(|e| e.to_string())
        }
        fn len(&mut self) -> usize {
            BlobStore::len(&*self)
        }
        fn is_empty(&mut self) -> bool {
            BlobStore::is_empty(&*self)
        }
    };
}
macro_rules! batch_methods {
    () => {
        fn put_batch(&mut self, v: Vec<Vec<u8>>) -> Option<R<Vec<u32>>> {
            Some(BatchBlobStore::put_batch(self, v).map_err(|e| e.to_string()))
        }
        fn get_batch(&mut self, ids: &[u32]) -> Option<R<Vec<Option<Vec<u8>>>>> {
            Some(BatchBlobStore::get_batch(&*self, ids.to_vec()).map_err(|e| e.to_string()))
        }
        fn remove_batch(&mut self, ids: &[u32]) -> Option<R<usize>> {
            Some(BatchBlobStore::remove_batch(self, ids.to_vec()).map_err(|e| e.to_string()))
        }
    };
}
macro_rules! iter_methods {
    () => {
        fn iter_ids(&mut self) -> Option<Vec<u32>> {
            Some(IterableBlobStore::iter_ids(&*self).collect())
        }
    };
}
macro_rules! serde_reopen {
    ($ty:ty) => {
        fn reopen(self: Box<Self>, _dir: &Path) -> Option<R<Box<dyn StoreLike>>> {
            let r = (|| -> R<Box<dyn StoreLike>> {
                let bytes = serde_json::to_vec(&*self).map_err(|e| format!("serialize: {e}"))?;
                let s: $ty = serde_json::from_slice(&bytes).map_err(|e| format!("deserialize: {e}"))?;
                Ok(Box::new(s))
            })();
            Some(r)
        }
    };
}

impl StoreLike for MemoryBlobStore {
    core_methods!();
    batch_methods!();
    iter_methods!();
    serde_reopen!(MemoryBlobStore);
}
impl StoreLike for PlainBlobStore {
    core_methods!();
    batch_methods!();
    iter_methods!();
    fn reopen(self: Box<Self>, _dir: &Path) -> Option<R<Box<dyn StoreLike>>> {
        let dir: PathBuf = self.base_dir().to_path_buf();
        drop(self);
        Some(PlainBlobStore::new(&dir).map(|s| Box::new(s) as Box<dyn StoreLike>).map_err(|e| e.to_string()))
    }
}
impl StoreLike for ZstdBlobStore<MemoryBlobStore> {
    core_methods!();
    batch_methods!();
    iter_methods!();
    serde_reopen!(ZstdBlobStore<MemoryBlobStore>);
}
impl StoreLike for ZeroLengthBlobStore {
    core_methods!();
    batch_methods!();
    iter_methods!();
    serde_reopen!(ZeroLengthBlobStore);
}
impl StoreLike for HuffmanBlobStore<MemoryBlobStore> {
    core_methods!();
}
impl StoreLike for RansBlobStore<MemoryBlobStore> {
    core_methods!();
}
impl StoreLike for DictionaryBlobStore<MemoryBlobStore> {
    core_methods!();
}
impl StoreLike for CachedBlobStore<MemoryBlobStore> {
    core_methods!();
}
impl StoreLike for DictZipBlobStore {
    core_methods!();
    batch_methods!();
    fn iter_ids(&mut self) -> Option<Vec<u32>> {
        Some(self.iter_ids_vec())
    }
}
impl StoreLike for SimpleZipBlobStore {
    core_methods!();
    batch_methods!();
    iter_methods!();
}
impl StoreLike for MixedLenBlobStore {
    core_methods!();
    batch_methods!();
    iter_methods!();
}
impl StoreLike for ZipOffsetBlobStore {
    core_methods!();
}
impl StoreLike for Trie {
    core_methods!();
    batch_methods!();
    iter_methods!();
    fn put_with_key(&mut self, k: &[u8], d: &[u8]) -> Option<R<u32>> {
        Some(Trie::put_with_key(self, k, d).map_err(|e| e.to_string()))
    }
    fn get_by_key(&mut self, k: &[u8]) -> Option<R<Vec<u8>>> {
        Some(Trie::get_by_key(self, k).map_err(|e| e.to_string()))
    }
    fn contains_key(&mut self, k: &[u8]) -> Option<bool> {
        Some(Trie::contains_key(self, k))
    }
    fn get_by_prefix(&mut self, p: &[u8]) -> Option<R<Vec<(Vec<u8>, Vec<u8>)>>> {
        Some(Trie::get_by_prefix(self, p).map_err(|e| e.to_string()))
    }
}

// ---------------------------------------------------------------------------------------------
// judging observations (shared by E1 and E2)

fn failc(clause: &str, class: &str, detail: String) -> Fail {
    Fail::new(clause, detail).with_class(class)
}

/// outcome class of a successful read that returned other bytes than were stored
fn bytes_class(_want: &[u8], _got: &[u8]) -> &'static str {
    "wrong_record"
}

/// Compare every read-only query on `probes` with `live` (the set of live records).
fn observe_store(store: &mut dyn StoreLike, live: &BTreeMap<u32, Vec<u8>>, probes: &[u32], pfx: &str) -> Result<(), Fail> {
    let c = |s: &str| format!("{pfx}{s}");
    for &id in probes {
        match live.get(&id) {
            Some(want) => {
                match store.get(id) {
                    Ok(got) => {
                        if &got != want {
                            return Err(failc(&c("get"), bytes_class(want, &got), format!("get({id}) = {}, stored {}", brief(&got), brief(want))));
                        }
                    }
                    Err(e) => return Err(failc(&c("get"), "err", format!("get({id}) = Err({e}) for a live record {}", brief(want)))),
                }
                if !store.contains(id) {
                    return Err(failc(&c("contains"), "false_for_live", format!("contains({id}) = false for a live record")));
                }
                match store.size(id) {
                    Ok(Some(n)) if n == want.len() => {}
                    other => {
                        let class = match &other {
                            Ok(Some(_)) => "wrong_size",
                            Ok(None) => "none_for_live",
                            Err(_) => "err",
                        };
                        return Err(failc(&c("size"), class, format!("size({id}) = {:?}, record has {} bytes", other, want.len())));
                    }
                }
            }
            None => {
                if let Ok(got) = store.get(id) {
                    return Err(failc(&c("get_absent"), "served", format!("get({id}) = Ok({}) but the id is removed / never issued", brief(&got))));
                }
                if store.contains(id) {
                    return Err(failc(&c("contains_absent"), "true_for_absent", format!("contains({id}) = true but the id is removed / never issued")));
                }
                if let Ok(Some(n)) = store.size(id) {
                    return Err(failc(&c("size_absent"), "some_for_absent", format!("size({id}) = Some({n}) but the id is removed / never issued")));
                }
            }
        }
    }
    let l = store.len();
    if l != live.len() {
        let class = if l < live.len() { "short" } else { "long" };
        return Err(failc(&c("len"), class, format!("len() = {l}, {} records are live", live.len())));
    }
    let ie = store.is_empty();
    if ie != live.is_empty() {
        return Err(failc(&c("len"), "is_empty", format!("is_empty() = {ie}, {} records are live", live.len())));
    }
    if let Some(r) = store.get_batch(probes) {
        match r {
            Ok(v) => {
                let want: Vec<Option<Vec<u8>>> = probes.iter().map(|id| live.get(id).cloned()).collect();
                if v != want {
                    let at = v.iter().zip(want.iter()).position(|(a, b)| a != b).unwrap_or(usize::MAX);
                    return Err(failc(
                        &c("get_batch"),
                        if v.len() != want.len() { "wrong_count" } else { "wrong_entry" },
                        format!("get_batch({:?}) differs from the live records at position {at}: {} entries returned", probes, v.len()),
                    ));
                }
            }
            Err(e) => return Err(failc(&c("get_batch"), "err", format!("get_batch({:?}) = Err({e})", probes))),
        }
    }
    if let Some(mut ids) = store.iter_ids() {
        ids.sort_unstable();
        let want: Vec<u32> = live.keys().copied().collect();
        if ids != want {
            return Err(failc(&c("iter_ids"), "set_differs", format!("iter_ids() = {:?}, live ids {:?}", ids, want)));
        }
    }
    Ok(())
}

// ---------------------------------------------------------------------------------------------
// E1

#[derive(Clone, PartialEq, Eq)]
pub enum Op {
    Put(Rec),
    PutBatch(Vec<Rec>),
    /// `PutKey(key index, record)` — `put_with_key`
    PutKey(u8, Rec),
    /// remove the j-th most recently issued id (0 = newest); may name an id that is already removed
    Remove(usize),
    /// `remove_batch` of the j-th and k-th most recently issued ids
    RemoveBatch(usize, usize),
    /// save → load (serde round trip / reopen the directory), then continue on the loaded store
    Reopen,
}

const KEYS: [&[u8]; 3] = [b"k", b"kx", b"m"];
const KEY_PROBES: [&[u8]; 5] = [b"k", b"kx", b"m", b"", b"q"];
const PREFIX_PROBES: [&[u8]; 4] = [b"", b"k", b"kx", b"q"];

impl fmt::Debug for Op {
    fn fmt(&self, f: &mut fmt::Formatter<'_>) -> fmt::Result {
        match self {
            Op::Put(r) => write!(f, "Put({:?})", r),
            Op::PutBatch(v) => {
                write!(f, "PutBatch(")?;
                for (i, r) in v.iter().enumerate() {
                    if i > 0 {
                        write!(f, ",")?;
                    }
                    write!(f, "{:?}", r)?;
                }
                write!(f, ")")
            }
            Op::PutKey(k, r) => write!(f, "PutKey({},{:?})", String::from_utf8_lossy(KEYS[*k as usize]), r),
            Op::Remove(j) => write!(f, "Remove(#{j})"),
            Op::RemoveBatch(j, k) => write!(f, "RemoveBatch(#{j},#{k})"),
            Op::Reopen => write!(f, "Reopen"),
        }
    }
}

#[derive(Default)]
pub struct Model {
    live: BTreeMap<u32, Vec<u8>>,
    /// distinct issued ids, most recently issued last
    issued: Vec<u32>,
    /// key -> (ids put under that key in order, whether any of them was ever removed)
    keys: BTreeMap<Vec<u8>, (Vec<u32>, bool)>,
    key_of: BTreeMap<u32, Vec<u8>>,
}

impl Model {
    fn nth_recent(&self, j: usize) -> Option<u32> {
        if j < self.issued.len() {
            Some(self.issued[self.issued.len() - 1 - j])
        } else {
            None
        }
    }
    /// record a successful put; Err if the id is currently held by a live record
    fn issue(&mut self, id: u32, data: Vec<u8>, what: &str) -> Result<(), Fail> {
        if let Some(old) = self.live.get(&id) {
            return Err(failc(
                "id_reuse",
                "live_id_reissued",
                format!("{what} returned id {id}, which is still held by a live record {}", brief(old)),
            ));
        }
        self.issued.retain(|x| *x != id);
        self.issued.push(id);
        self.key_of.remove(&id);
        self.live.insert(id, data);
        Ok(())
    }
    fn removed(&mut self, id: u32) {
        self.live.remove(&id);
        if let Some(k) = self.key_of.get(&id) {
            if let Some(e) = self.keys.get_mut(k) {
                e.1 = true;
            }
        }
    }
    fn probes(&self) -> Vec<u32> {
        let max = self.issued.iter().copied().max();
        let mut v: Vec<u32> = match max {
            Some(m) => (0..=m.saturating_add(1)).collect(),
            None => vec![0, 1],
        };
        v.push(u32::MAX);
        v
    }
}

pub struct St {
    store: Option<Box<dyn StoreLike>>,
    model: Model,
    dir: PathBuf,
}

pub struct StoreSpec {
    pub name: String,
    pub make: Box<dyn Fn(&Path) -> R<Box<dyn StoreLike>>>,
    pub records: Vec<Rec>,
    pub batches: Vec<Vec<Rec>>,
    /// number of keys of `KEYS` used by `PutKey` (0 = no keyed puts)
    pub nkeys: u8,
    pub key_records: Vec<Rec>,
    pub removes: usize,
    pub remove_batch: bool,
    pub reopen: bool,
    pub depth_quick: usize,
    pub depth_thorough: usize,
}

impl StoreSpec {
    fn new(name: &str, make: impl Fn(&Path) -> R<Box<dyn StoreLike>> + 'static) -> StoreSpec {
        StoreSpec {
            name: name.to_string(),
            make: Box::new(make),
            records: vec![E, A, ZZ, A64, C300],
            batches: vec![vec![AB, A64]],
            nkeys: 0,
            key_records: vec![],
            removes: 3,
            remove_batch: false,
            reopen: false,
            depth_quick: 4,
            depth_thorough: 5,
        }
    }
    fn records(mut self, r: &[Rec]) -> Self {
        self.records = r.to_vec();
        self
    }
    fn batches(mut self, b: &[&[Rec]]) -> Self {
        self.batches = b.iter().map(|x| x.to_vec()).collect();
        self
    }
    fn depth(mut self, q: usize, t: usize) -> Self {
        self.depth_quick = q;
        self.depth_thorough = t;
        self
    }
    fn keyed(mut self, nkeys: u8, recs: &[Rec]) -> Self {
        self.nkeys = nkeys;
        self.key_records = recs.to_vec();
        self
    }
    fn remove_batch(mut self) -> Self {
        self.remove_batch = true;
        self
    }
    fn reopen(mut self) -> Self {
        self.reopen = true;
        self
    }
}

impl SeqSpec for StoreSpec {
    type Op = Op;
    type St = St;

    fn name(&self) -> String {
        self.name.clone()
    }
    fn depth(&self, tier: Tier) -> usize {
        tier.pick(self.depth_quick, self.depth_thorough)
    }
    fn bound(&self, tier: Tier) -> String {
        format!(
            "all histories of <= {} mutators from {{put(r) r in {:?}; put_batch(b) b in {:?}; put_with_key(k,r) k in first {} of [k,kx,m], r in {:?}; remove(j-th most recent id) j<{}{}{}}}; observers after every step on ids 0..=max_issued+1 and u32::MAX: get, contains, size, len, is_empty, get_batch, iter_ids (+ get_by_key/contains_key/get_by_prefix where offered)",
            self.depth(tier),
            self.records,
            self.batches,
            self.nkeys,
            self.key_records,
            self.removes,
            if self.remove_batch { "; remove_batch(#0,#1)" } else { "" },
            if self.reopen { "; save->load" } else { "" },
        )
    }
    fn init(&self, scratch: &Path) -> Result<St, Fail> {
        let dir = scratch.join(format!("c03-{:016x}", h64(&self.name)));
        let store = (self.make)(&dir).map_err(|e| Fail::new("construct", e))?;
        Ok(St { store: Some(store), model: Model::default(), dir })
    }
    fn ops(&self, st: &St) -> Vec<Op> {
        let mut v = Vec::new();
        for &r in &self.records {
            v.push(Op::Put(r));
        }
        for k in 0..self.nkeys {
            for &r in &self.key_records {
                v.push(Op::PutKey(k, r));
            }
        }
        for j in 0..self.removes.min(st.model.issued.len()) {
            v.push(Op::Remove(j));
        }
        for b in &self.batches {
            v.push(Op::PutBatch(b.clone()));
        }
        if self.remove_batch && st.model.issued.len() >= 2 {
            v.push(Op::RemoveBatch(0, 1));
        }
        if self.reopen {
            v.push(Op::Reopen);
        }
        v
    }
    fn apply(&self, st: &mut St, op: &Op) -> Result<(), Fail> {
        let store = st.store.as_mut().expect("store present");
        match op {
            Op::Put(r) => {
                let d = r.bytes();
                if let Ok(id) = store.put(&d) {
                    st.model.issue(id, d, "put")?;
                }
            }
            Op::PutKey(k, r) => {
                let d = r.bytes();
                let key = KEYS[*k as usize].to_vec();
                if let Some(Ok(id)) = store.put_with_key(&key, &d) {
                    st.model.issue(id, d, "put_with_key")?;
                    st.model.key_of.insert(id, key.clone());
                    st.model.keys.entry(key).or_default().0.push(id);
                }
            }
            Op::PutBatch(b) => {
                let data: Vec<Vec<u8>> = b.iter().map(|r| r.bytes()).collect();
                if let Some(Ok(ids)) = store.put_batch(data.clone()) {
                    if ids.len() != data.len() {
                        return Err(failc("put_batch_ids", "wrong_count", format!("put_batch of {} records returned {} ids", data.len(), ids.len())));
                    }
                    for (id, d) in ids.into_iter().zip(data) {
                        st.model.issue(id, d, "put_batch")?;
                    }
                }
            }
            Op::Remove(j) => {
                let id = st.model.nth_recent(*j).expect("enabled");
                if store.remove(id).is_ok() {
                    st.model.removed(id);
                }
            }
            Op::RemoveBatch(j, k) => {
                let ids = [st.model.nth_recent(*j).expect("enabled"), st.model.nth_recent(*k).expect("enabled")];
                let live_before = ids.iter().filter(|id| st.model.live.contains_key(id)).count();
                if let Some(Ok(n)) = store.remove_batch(&ids) {
                    // the count says how many were removed; the observers say which
                    if n > live_before {
                        return Err(failc("remove_batch_count", "too_many", format!("remove_batch({:?}) = {n}, only {live_before} of them were live", ids)));
                    }
                    if n == live_before {
                        for id in ids {
                            st.model.removed(id);
                        }
                    } else {
                        // partial removal: resynchronise on `contains` (the observers then check everything else)
                        for id in ids {
                            if !store.contains(id) {
                                st.model.removed(id);
                            }
                        }
                    }
                }
            }
            Op::Reopen => {
                let s = st.store.take().expect("store present");
                match s.reopen(&st.dir) {
                    None => {
                        // not offered: continue on a fresh store is not meaningful; rebuild is impossible, so refuse the history
                        return Err(Fail::new("harness", "Reopen enabled for a store that does not offer it"));
                    }
                    Some(Ok(s2)) => st.store = Some(s2),
                    Some(Err(e)) => return Err(failc("save_load", "load_err", format!("save->load of a store holding {} live records failed: {e}", st.model.live.len()))),
                }
            }
        }
        Ok(())
    }
    fn observe(&self, st: &mut St, h: &mut DefaultHasher) -> Result<(), Fail> {
        st.model.live.hash(h);
        st.model.issued.hash(h);
        let probes = st.model.probes();
        let store = st.store.as_mut().expect("store present");
        observe_store(store.as_mut(), &st.model.live, &probes, "")?;

        // keyed access paths, judged only where the expected answer is unambiguous:
        //   no record was ever put under k, or every record put under k is removed  -> absent
        //   records were put under k and none of them was ever removed             -> the latest one
        if self.nkeys > 0 {
            let mut unambiguous = true;
            let mut expect: BTreeMap<Vec<u8>, Option<Vec<u8>>> = BTreeMap::new();
            for k in KEY_PROBES {
                let e = match st.model.keys.get(k) {
                    None => Some(None),
                    Some((ids, any_removed)) => {
                        let live: Vec<u32> = ids.iter().copied().filter(|id| st.model.live.contains_key(id) && st.model.key_of.get(id).map(|x| x.as_slice()) == Some(k)).collect();
                        if live.is_empty() {
                            Some(None)
                        } else if !any_removed {
                            Some(Some(st.model.live[live.last().unwrap()].clone()))
                        } else {
                            None
                        }
                    }
                };
                match e {
                    Some(x) => {
                        expect.insert(k.to_vec(), x);
                    }
                    None => unambiguous = false,
                }
            }
            for (k, want) in &expect {
                if let Some(got) = store.get_by_key(k) {
                    match (want, got) {
                        (Some(w), Ok(g)) => {
                            if &g != w {
                                return Err(failc("get_by_key", bytes_class(w, &g), format!("get_by_key({}) = {}, last stored under that key {}", brief(k), brief(&g), brief(w))));
                            }
                        }
                        (Some(w), Err(e)) => {
                            return Err(failc("get_by_key", "err", format!("get_by_key({}) = Err({e}), a live record {} was stored under that key and none removed", brief(k), brief(w))))
                        }
                        (None, Ok(g)) => {
                            return Err(failc("get_by_key_absent", "served", format!("get_by_key({}) = Ok({}) but no live record has that key", brief(k), brief(&g))))
                        }
                        (None, Err(_)) => {}
                    }
                }
                if let Some(c) = store.contains_key(k) {
                    if c != want.is_some() {
                        return Err(failc("contains_key", if c { "true_for_absent" } else { "false_for_live" }, format!("contains_key({}) = {c}, model says {}", brief(k), want.is_some())));
                    }
                }
            }
            if unambiguous {
                for p in PREFIX_PROBES {
                    if let Some(r) = store.get_by_prefix(p) {
                        let want: Vec<(Vec<u8>, Vec<u8>)> =
                            expect.iter().filter(|(k, v)| k.starts_with(p) && v.is_some()).map(|(k, v)| (k.clone(), v.clone().unwrap())).collect();
                        match r {
                            Ok(got) => {
                                // keyless put() stores under a synthetic "__blob_<id>" key: those pairs are not judged here
                                let mut got: Vec<(Vec<u8>, Vec<u8>)> = got.into_iter().filter(|(k, _)| !k.starts_with(b"__blob_")).collect();
                                got.sort();
                                if got != want {
                                    return Err(failc(
                                        "get_by_prefix",
                                        if got.len() != want.len() { "wrong_count" } else { "wrong_entry" },
                                        format!("get_by_prefix({}) returned {} pairs {:?}, expected {:?}", brief(p), got.len(), got.iter().map(|(k, v)| (brief(k), brief(v))).collect::<Vec<_>>(), want.iter().map(|(k, v)| (brief(k), brief(v))).collect::<Vec<_>>()),
                                    ));
                                }
                            }
                            Err(e) => return Err(failc("get_by_prefix", "err", format!("get_by_prefix({}) = Err({e})", brief(p)))),
                        }
                    }
                }
            }
        }
        Ok(())
    }
    fn finish(&self, st: St) -> Result<(), Fail> {
        drop(st.store);
        let _ = std::fs::remove_dir_all(&st.dir);
        Ok(())
    }
}

// ---------------------------------------------------------------------------------------------
// constructors of the mutable stores

fn boxed<S: StoreLike + 'static>(s: S) -> Box<dyn StoreLike> {
    Box::new(s)
}

fn cached(strategy: CacheWriteStrategy, capacity: usize) -> R<Box<dyn StoreLike>> {
    let cfg = PageCacheConfig::balanced().with_capacity(capacity);
    CachedBlobStore::with_write_strategy(MemoryBlobStore::new(), cfg, strategy).map(boxed).map_err(|e| e.to_string())
}

fn dictzip(entropy: DzEntropy, interleave: u8, ratio: f32, cache_bytes: usize, min_compress: usize) -> R<Box<dyn StoreLike>> {
    let mut cfg = DictZipConfig::default();
    cfg.entropy_algorithm = entropy;
    cfg.entropy_interleaved = interleave;
    // ratio 1.0 = accept the entropy stage whenever it does not expand the blob, so that the decode path is driven
    cfg.entropy_zip_ratio_require = ratio;
    cfg.cache_size_bytes = cache_bytes;
    cfg.min_compression_size = min_compress;
    cfg.dict_builder_config.use_parallel = false;
    cfg.dict_builder_config.enable_progress = false;
    cfg.dict_builder_config.sample_ratio = 1.0;
    cfg.dict_builder_config.target_dict_size = 64 * 1024;
    cfg.dict_builder_config.max_dict_size = 128 * 1024;
    let mut b = DictZipBlobStoreBuilder::with_config(cfg).map_err(|e| e.to_string())?;
    b.add_training_sample(&training()).map_err(|e| e.to_string())?;
    b.finish().map(boxed).map_err(|e| e.to_string())
}

fn register_e1(reg: &mut zverif::Registry) {
    reg.add(Seq(StoreSpec::new("MemoryBlobStore", |_| Ok(boxed(MemoryBlobStore::new()))).remove_batch().reopen()));
    reg.add(Seq(
        StoreSpec::new("PlainBlobStore", |dir| PlainBlobStore::create_new(dir).map(boxed).map_err(|e| e.to_string()))
            .records(&[E, ZZ, A64])
            .batches(&[&[AB, C300]])
            .remove_batch()
            .reopen()
            .depth(4, 5),
    ));
    for level in [1, 9] {
        reg.add(Seq(
            StoreSpec::new(&format!("ZstdBlobStore<Memory>[level={level}]"), move |_| Ok(boxed(ZstdBlobStore::new(MemoryBlobStore::new(), level))))
                .remove_batch()
                .reopen()
                .depth(if level == 1 { 4 } else { 3 }, if level == 1 { 5 } else { 4 }),
        ));
    }
    reg.add(Seq(StoreSpec::new("HuffmanBlobStore<Memory>[untrained]", |_| Ok(boxed(HuffmanBlobStore::new(MemoryBlobStore::new()))))));
    // trained on all 256 byte values the encoder of this tree happens to emit 8-bit codes equal to the input;
    // trained on {a,b,z} it really compresses (records with other bytes take put's uncompressed fallback)
    for (tname, corpus) in [("all256", training()), ("abz", [A64.bytes(), AB.bytes(), ZZ.bytes()].concat())] {
        reg.add(Seq(StoreSpec::new(&format!("HuffmanBlobStore<Memory>[trained:{tname}]"), move |_| {
            let mut s = HuffmanBlobStore::new(MemoryBlobStore::new());
            s.add_training_data(&corpus);
            s.build_tree().map_err(|e| e.to_string())?;
            Ok(boxed(s))
        })));
    }
    reg.add(Seq(StoreSpec::new("RansBlobStore<Memory>[untrained]", |_| Ok(boxed(RansBlobStore::new(MemoryBlobStore::new())))).depth(4, 4)));
    reg.add(Seq(StoreSpec::new("RansBlobStore<Memory>[trained]", |_| {
        let mut s = RansBlobStore::new(MemoryBlobStore::new());
        s.train(&training()).map_err(|e| e.to_string())?;
        Ok(boxed(s))
    })));
    reg.add(Seq(
        StoreSpec::new("DictionaryBlobStore<Memory>[untrained]", |_| Ok(boxed(DictionaryBlobStore::new(MemoryBlobStore::new())))).depth(4, 4),
    ));
    reg.add(Seq(StoreSpec::new("DictionaryBlobStore<Memory>[trained]", |_| {
        let mut s = DictionaryBlobStore::new(MemoryBlobStore::new());
        s.train(&training()).map_err(|e| e.to_string())?;
        Ok(boxed(s))
    })));
    for (sname, strat) in
        [("WriteThrough", CacheWriteStrategy::WriteThrough), ("WriteBack", CacheWriteStrategy::WriteBack), ("WriteAround", CacheWriteStrategy::WriteAround)]
    {
        for cap in [4096usize, 8192] {
            reg.add(Seq(
                StoreSpec::new(&format!("CachedBlobStore<Memory>[{sname},cap={cap}]"), move |_| cached(strat, cap))
                    // two p4000 records straddle the first 4096-byte cache page
                    .records(&[E, ZZ, C300, P4000])
                    .batches(&[&[A64, P4000]])
                    .depth(4, if cap == 4096 { 5 } else { 4 }),
            ));
        }
    }
    reg.add(Seq(StoreSpec::new("ZeroLengthBlobStore", |_| Ok(boxed(ZeroLengthBlobStore::new())))
        .records(&[E, A])
        .batches(&[&[E, E], &[A, E]])
        .remove_batch()
        .reopen()
        .depth(5, 6)));
    for (cname, cfg) in [
        ("default", TrieBlobStoreConfig::default as fn() -> TrieBlobStoreConfig),
        ("memory_optimized", TrieBlobStoreConfig::memory_optimized),
        // the same preset with the statistics switched on (len() is read from them): the LOUDS-backed trie behind a working len()
        ("memory_optimized+statistics", || TrieBlobStoreConfig { enable_statistics: true, ..TrieBlobStoreConfig::memory_optimized() }),
        ("security_optimized", TrieBlobStoreConfig::security_optimized),
    ] {
        let q = if cname == "default" { (4, 5) } else { (3, 4) };
        reg.add(Seq(
            StoreSpec::new(&format!("NestLoudsTrieBlobStore[{cname}]"), move |_| Trie::new(cfg()).map(boxed).map_err(|e| e.to_string()))
                .records(&[E, A64])
                .batches(&[&[AB, ZZ]])
                .keyed(3, &[AB, ZZ])
                .remove_batch()
                .depth(q.0, q.1),
        ));
    }
    for (ename, e, il, ratio) in [
        ("None", DzEntropy::None, 0u8, 0.8f32),
        ("HuffmanO1,ratio=0.8,x1", DzEntropy::HuffmanO1, 1, 0.8),
        ("HuffmanO1,ratio=1.0,x1", DzEntropy::HuffmanO1, 1, 1.0),
        ("HuffmanO1,ratio=1.0,x4", DzEntropy::HuffmanO1, 4, 1.0),
        ("Fse,ratio=1.0", DzEntropy::Fse, 0, 1.0),
    ] {
        // cache of 1 KiB = one cached record (LruMap capacity 1), min_compression_size 2: "ab"/"zz" take the compress path
        let none = ename == "None";
        reg.add(Seq(
            StoreSpec::new(&format!("DictZipBlobStore[entropy={ename},cache=1]"), move |_| dictzip(e, il, ratio, 1024, 2))
                .records(&[E, ZZ, A64, C300])
                .batches(&[&[AB, A64]])
                .depth(if none { 3 } else { 2 }, if none { 4 } else { 3 }),
        ));
    }
    reg.add(Seq(
        StoreSpec::new("DictZipBlobStore[entropy=None,cache=2,min=64]", |_| dictzip(DzEntropy::None, 0, 0.8, 2048, 64))
            .records(&[A, A64, C300])
            .batches(&[&[E, A64]])
            .remove_batch()
            .depth(2, 3),
    ));
}

// ---------------------------------------------------------------------------------------------
// E2 — bulk builders

#[derive(Clone, Hash, Serialize, Deserialize, Debug)]
pub enum ListSpec {
    /// explicit list over R (record indices)
    Small(Vec<u8>),
    /// deterministic constructor, see `pattern_list`
    Pattern { kind: String, n: usize },
}

const PATTERN_KINDS: [&str; 5] = ["varlen", "fixed8", "mixed", "empty", "big"];
const PATTERN_LENGTHS: [usize; 10] = [63, 64, 65, 127, 128, 129, 255, 256, 257, 1000];

fn pattern_record(kind: &str, i: usize) -> Vec<u8> {
    let fill = |len: usize| -> Vec<u8> { (0..len).map(|j| ((i * 7 + j * 13) % 251) as u8).collect() };
    match kind {
        "varlen" => fill(i % 7),
        "fixed8" => fill(8),
        // mostly 4 bytes, every 5th record 0..2 bytes, every 11th 9 bytes
        "mixed" => fill(if i % 11 == 10 { 9 } else if i % 5 == 4 { i % 3 } else { 4 }),
        "empty" => Vec::new(),
        // small text-like records with delimiters, every 50th record 300 bytes, every 64th 70 x 'a'
        _ => {
            if i % 50 == 49 {
                (0..300usize).map(|j| ((i + j) % 256) as u8).collect()
            } else if i % 64 == 63 {
                vec![b'a'; 70]
            } else {
                format!("rec {} of the list\n", i % 17).into_bytes()
            }
        }
    }
}

impl ListSpec {
    fn expand(&self) -> Vec<Vec<u8>> {
        match self {
            ListSpec::Small(v) => v.iter().map(|r| Rec(*r % NR).bytes()).collect(),
            ListSpec::Pattern { kind, n } => (0..*n).map(|i| pattern_record(kind, i)).collect(),
        }
    }
    fn class(&self) -> String {
        match self {
            ListSpec::Small(v) => format!("small/n={}", v.len()),
            ListSpec::Pattern { kind, n } => format!("{kind}/n={}", if *n <= 65 { "<=65" } else if *n <= 129 { "<=129" } else if *n <= 257 { "<=257" } else { "1000" }),
        }
    }
}

#[derive(Clone, Hash, Serialize, Deserialize, Debug)]
pub struct BulkCase {
    pub variant: String,
    pub list: ListSpec,
}

fn for_lists(tier: Tier, small_max: usize, patterns: bool, f: &mut dyn FnMut(ListSpec) -> bool) -> bool {
    let alphabet: Vec<u8> = (0..NR).collect();
    if !zverif::util::all_strings(&alphabet, small_max, &mut |s| f(ListSpec::Small(s.to_vec()))) {
        return false;
    }
    if patterns {
        for kind in PATTERN_KINDS {
            for &n in &PATTERN_LENGTHS {
                if tier == Tier::Quick && n == 1000 && kind != "varlen" && kind != "big" {
                    continue;
                }
                if !f(ListSpec::Pattern { kind: kind.to_string(), n }) {
                    return false;
                }
            }
        }
    }
    true
}

pub struct Built {
    store: Box<dyn StoreLike>,
    /// ids handed out by the builder, where it hands out ids
    ids: Option<Vec<u32>>,
    /// keys under which the records were added, for keyed builders
    keys: Option<Vec<Vec<u8>>>,
    /// the builder documents that it may reorder records (ids are then judged as a multiset)
    may_reorder: bool,
}

pub struct BulkSpec {
    pub name: String,
    pub variants: Vec<String>,
    pub small_max: (usize, usize),
    pub patterns: bool,
    /// Err = the builder refused the input (skip)
    pub build: fn(&str, &[Vec<u8>]) -> R<Built>,
    pub space_note: &'static str,
}

fn judge_bulk(b: &mut Built, input: &[Vec<u8>], pass_class: String) -> Outcome {
    let n = input.len();
    let store = b.store.as_mut();
    let l = store.len();
    if l != n {
        let class = if l == 0 { "store_empty" } else if l < n { "short" } else { "long" };
        return enumr::fail("bulk_len", class, format!("built store has len() = {l}, {n} records were added"));
    }
    if let Some(ids) = &b.ids {
        let want: Vec<u32> = (0..n as u32).collect();
        if ids != &want {
            return enumr::fail("bulk_ids", "not_0_to_n", format!("builder handed out ids {:?}.. for records 0..{n}", &ids[..ids.len().min(8)]));
        }
    }
    let mut probes: Vec<u32> = (0..n as u32).collect();
    probes.push(n as u32);
    probes.push(n as u32 + 1);
    probes.push(u32::MAX);
    if b.may_reorder {
        // ids are a permutation of the inputs; the keyed path below pins record <-> input
        let mut got: Vec<Vec<u8>> = Vec::new();
        for i in 0..n as u32 {
            match store.get(i) {
                Ok(g) => got.push(g),
                Err(e) => return enumr::fail("bulk_get", "err", format!("get({i}) = Err({e}) in a store built from {n} records")),
            }
        }
        let mut want = input.to_vec();
        want.sort();
        got.sort();
        if got != want {
            return enumr::fail("bulk_get", "multiset_differs", format!("the records returned for ids 0..{n} are not a permutation of the inputs"));
        }
    } else {
        let live: BTreeMap<u32, Vec<u8>> = input.iter().enumerate().map(|(i, d)| (i as u32, d.clone())).collect();
        if let Err(f) = observe_store(store, &live, &probes, "bulk_") {
            return Outcome::Fail(f);
        }
    }
    if let Some(keys) = &b.keys {
        // last record added under each key
        let mut last: BTreeMap<&[u8], &[u8]> = BTreeMap::new();
        for (k, d) in keys.iter().zip(input.iter()) {
            last.insert(k, d);
        }
        for (k, d) in last {
            match store.get_by_key(k) {
                Some(Ok(g)) if g == d => {}
                Some(Ok(g)) => return enumr::fail("bulk_get_by_key", bytes_class(d, &g), format!("get_by_key({}) = {}, added {}", brief(k), brief(&g), brief(d))),
                Some(Err(e)) => return enumr::fail("bulk_get_by_key", "err", format!("get_by_key({}) = Err({e}), added {}", brief(k), brief(d))),
                None => {}
            }
        }
        if let Some(Ok(g)) = store.get_by_key(b"never-added") {
            return enumr::fail("bulk_get_by_key_absent", "served", format!("get_by_key(never-added) = Ok({})", brief(&g)));
        }
    }
    if n == 0 {
        Outcome::trivial(&pass_class)
    } else {
        Outcome::pass(&pass_class)
    }
}

impl EnumSpec for BulkSpec {
    type Case = BulkCase;
    fn name(&self) -> String {
        self.name.clone()
    }
    fn space(&self, tier: Tier) -> String {
        format!(
            "variants {:?} x (S: all record lists of length <= {} over R={:?}{}); {}",
            self.variants,
            tier.pick(self.small_max.0, self.small_max.1),
            REC_NAMES,
            if self.patterns { format!(" ∪ G: patterned lists {:?} x lengths {:?} (quick: n=1000 only for varlen/big)", PATTERN_KINDS, PATTERN_LENGTHS) } else { String::new() },
            self.space_note
        )
    }
    fn cases(&self, tier: Tier, f: &mut dyn FnMut(BulkCase) -> bool) {
        for v in &self.variants {
            if !for_lists(tier, tier.pick(self.small_max.0, self.small_max.1), self.patterns, &mut |l| f(BulkCase { variant: v.clone(), list: l })) {
                return;
            }
        }
    }
    fn run(&self, case: &BulkCase) -> Outcome {
        let input = case.list.expand();
        match (self.build)(&case.variant, &input) {
            Err(e) => Outcome::skip(&format!("builder_refused:{}", zverif::core::truncate(&e, 40))),
            Ok(mut b) => judge_bulk(&mut b, &input, case.list.class()),
        }
    }
}

fn zo_config(variant: &str) -> R<ZipOffsetBlobStoreConfig> {
    // "c<level>/k<checksum>/b<log2 block units>"
    let mut cfg = ZipOffsetBlobStoreConfig::default();
    for part in variant.split('/') {
        let (h, t) = part.split_at(1);
        let x: u8 = t.parse().map_err(|_| format!("bad variant {variant}"))?;
        match h {
            "c" => cfg.compress_level = x,
            "k" => cfg.checksum_level = x,
            "b" => cfg.offset_config = SortedUintVecConfig { log2_block_units: x, ..SortedUintVecConfig::default() },
            "n" => {}
            _ => return Err(format!("bad variant {variant}")),
        }
    }
    Ok(cfg)
}

fn build_zip_offset(variant: &str, data: &[Vec<u8>]) -> R<Built> {
    let mut b = ZipOffsetBlobStoreBuilder::with_config(zo_config(variant)?).map_err(|e| e.to_string())?;
    let mut ids = Vec::new();
    for d in data {
        ids.push(b.add_record(d).map_err(|e| e.to_string())?);
    }
    let s = b.finish().map_err(|e| e.to_string())?;
    Ok(Built { store: boxed(s), ids: Some(ids), keys: None, may_reorder: false })
}

fn build_zip_offset_batch(variant: &str, data: &[Vec<u8>]) -> R<Built> {
    // ".../n<batch size>"
    let batch: usize = variant.rsplit('/').next().and_then(|p| p.strip_prefix('n')).and_then(|x| x.parse().ok()).ok_or("bad variant")?;
    let mut b = BatchZipOffsetBlobStoreBuilder::with_config(zo_config(variant)?, batch).map_err(|e| e.to_string())?;
    for d in data {
        b.add_record(d).map_err(|e| e.to_string())?;
    }
    let s = b.finish().map_err(|e| e.to_string())?;
    // the ids returned by the batch builder's add_record are documented as "next record id": not judged
    Ok(Built { store: boxed(s), ids: None, keys: None, may_reorder: false })
}

fn build_simple_zip(variant: &str, data: &[Vec<u8>]) -> R<Built> {
    let cfg = match variant {
        "default" => SimpleZipConfig::default(),
        "frag1-2" => SimpleZipConfig { min_frag_len: 1, max_frag_len: 2, delimiters: vec![b'a'] },
        "frag2-4/delim=a,space" => SimpleZipConfig { min_frag_len: 2, max_frag_len: 4, delimiters: vec![b'a', b' '] },
        _ => return Err(format!("bad variant {variant}")),
    };
    let s = SimpleZipBlobStore::build_from(data, &cfg).map_err(|e| e.to_string())?;
    Ok(Built { store: boxed(s), ids: None, keys: None, may_reorder: false })
}

fn build_mixed_len(variant: &str, data: &[Vec<u8>]) -> R<Built> {
    let s = if variant == "auto" {
        MixedLenBlobStore::build_from(data)
    } else {
        let fl: usize = variant.strip_prefix("fixed_len=").and_then(|x| x.parse().ok()).ok_or("bad variant")?;
        MixedLenBlobStore::build_from_with_fixed_len(data, fl)
    }
    .map_err(|e| e.to_string())?;
    Ok(Built { store: boxed(s), ids: None, keys: None, may_reorder: false })
}

fn build_zero_length(_variant: &str, data: &[Vec<u8>]) -> R<Built> {
    if data.iter().any(|d| !d.is_empty()) {
        return Err("non-empty record".into());
    }
    Ok(Built { store: boxed(ZeroLengthBlobStore::finish(data.len())), ids: None, keys: None, may_reorder: false })
}

/// key of record i: unique, sharing prefixes; one key is a proper prefix of another ("r1" / "r10").
fn trie_key(i: usize, sorted: bool) -> Vec<u8> {
    if sorted {
        format!("r{:05}", i).into_bytes()
    } else {
        // a fixed permutation-ish order: not sorted by key
        format!("r{}", (i * 7 + 3) % 10007).into_bytes()
    }
}

fn build_trie(variant: &str, data: &[Vec<u8>]) -> R<Built> {
    let (how, keys_sorted) = match variant {
        "builder[default]/sorted_keys" => ("builder", true),
        "builder[default]/unsorted_keys" => ("builder", false),
        "builder[memory_optimized]/unsorted_keys" => ("builder_mem", false),
        "build_from_key_value_pairs[default]/unsorted_keys" => ("pairs", false),
        "build_from_key_value_pairs[enable_statistics]/unsorted_keys" => ("pairs_stats", false),
        _ => return Err(format!("bad variant {variant}")),
    };
    let keys: Vec<Vec<u8>> = (0..data.len()).map(|i| trie_key(i, keys_sorted)).collect();
    let (store, may_reorder) = match how {
        "pairs" | "pairs_stats" => {
            let pairs: Vec<(Vec<u8>, Vec<u8>)> = keys.iter().cloned().zip(data.iter().cloned()).collect();
            let mut cfg = zipora::config::nest_louds_trie::NestLoudsTrieConfig::default();
            if how == "pairs_stats" {
                cfg.enable_statistics = true;
            }
            (Trie::build_from_key_value_pairs(&pairs, &cfg).map_err(|e| e.to_string())?, false)
        }
        _ => {
            let cfg = if how == "builder_mem" { TrieBlobStoreConfig::memory_optimized() } else { TrieBlobStoreConfig::default() };
            // enable_batch_optimization sorts the entries by key before ids are assigned
            let reorders = cfg.enable_batch_optimization && !keys_sorted;
            let mut b = NestLoudsTrieBlobStoreBuilder::<RankSelectInterleaved256>::new(cfg).map_err(|e| e.to_string())?;
            for (k, d) in keys.iter().zip(data.iter()) {
                b.add(k, d).map_err(|e| e.to_string())?;
            }
            (b.finish().map_err(|e| e.to_string())?, reorders)
        }
    };
    Ok(Built { store: boxed(store), ids: None, keys: Some(keys), may_reorder })
}

// save → load of the only bulk store that offers it

pub struct ZipOffsetSaveLoad;

impl EnumSpec for ZipOffsetSaveLoad {
    type Case = BulkCase;
    fn name(&self) -> String {
        "ZipOffsetBlobStore/save_load".into()
    }
    fn space(&self, tier: Tier) -> String {
        format!(
            "variants c{{0,3}}/k{{0,2}}/b6 x (all record lists of length <= {} over R ∪ patterned lists); oracle: load_from_reader(save_to_writer(s)) answers get/contains/size/len like s on ids 0..=n+1 (s itself is judged by the builder subject)",
            tier.pick(2, 3)
        )
    }
    fn cases(&self, tier: Tier, f: &mut dyn FnMut(BulkCase) -> bool) {
        for v in ["c0/k0/b6", "c0/k2/b6", "c3/k0/b6", "c3/k2/b6"] {
            if !for_lists(tier, tier.pick(2, 3), true, &mut |l| f(BulkCase { variant: v.to_string(), list: l })) {
                return;
            }
        }
    }
    fn run(&self, case: &BulkCase) -> Outcome {
        let input = case.list.expand();
        let built = match build_zip_offset(&case.variant, &input) {
            Ok(b) => b,
            Err(e) => return Outcome::skip(&format!("builder_refused:{}", zverif::core::truncate(&e, 40))),
        };
        let _ = built;
        // build again as the concrete type (Built erases it)
        let s = (|| -> R<ZipOffsetBlobStore> {
            let mut b = ZipOffsetBlobStoreBuilder::with_config(zo_config(&case.variant)?).map_err(|e| e.to_string())?;
            for d in &input {
                b.add_record(d).map_err(|e| e.to_string())?;
            }
            b.finish().map_err(|e| e.to_string())
        })();
        let mut s = match s {
            Ok(s) => s,
            Err(e) => return Outcome::skip(&format!("builder_refused:{}", zverif::core::truncate(&e, 40))),
        };
        let mut bytes = Vec::new();
        if let Err(e) = s.save_to_writer(&mut bytes) {
            return Outcome::skip(&format!("save_refused:{}", zverif::core::truncate(&e.to_string(), 40)));
        }
        let mut loaded = match ZipOffsetBlobStore::load_from_reader(&mut std::io::Cursor::new(&bytes)) {
            Ok(l) => l,
            Err(e) => return enumr::fail("save_load", "load_err", format!("load_from_reader(save_to_writer(s)) = Err({e}) for a store with len() = {}", BlobStore::len(&s))),
        };
        let n = BlobStore::len(&s) as u32;
        let (ls, ll) = (StoreLike::len(&mut s), StoreLike::len(&mut loaded));
        if ls != ll {
            return enumr::fail("save_load", "len_differs", format!("saved store has len() = {ls}, loaded store {ll}"));
        }
        for id in (0..n.saturating_add(2)).chain([u32::MAX]) {
            let (a, b) = (StoreLike::get(&mut s, id), StoreLike::get(&mut loaded, id));
            if a.as_ref().ok() != b.as_ref().ok() {
                return enumr::fail("save_load", "get_differs", format!("get({id}): saved store {:?}, loaded store {:?}", a.map(|x| brief(&x)), b.map(|x| brief(&x))));
            }
            let (a, b) = (StoreLike::contains(&mut s, id), StoreLike::contains(&mut loaded, id));
            if a != b {
                return enumr::fail("save_load", "contains_differs", format!("contains({id}): saved {a}, loaded {b}"));
            }
            let (a, b) = (StoreLike::size(&mut s, id).ok().flatten(), StoreLike::size(&mut loaded, id).ok().flatten());
            if a != b {
                return enumr::fail("save_load", "size_differs", format!("size({id}): saved {:?}, loaded {:?}", a, b));
            }
        }
        if n == 0 {
            // nothing to compare: the builder produced an empty store (see the builder subject)
            Outcome::trivial(if input.is_empty() { "empty_input" } else { "empty_store_from_nonempty_input" })
        } else {
            Outcome::pass(&case.list.class())
        }
    }
}

fn register_e2(reg: &mut zverif::Registry) {
    let mut zo = Vec::new();
    for c in [0, 3] {
        for k in 0..=3 {
            for b in [6, 7] {
                zo.push(format!("c{c}/k{k}/b{b}"));
            }
        }
    }
    reg.add(Enum(BulkSpec {
        name: "ZipOffsetBlobStoreBuilder".into(),
        variants: zo,
        small_max: (2, 3),
        patterns: true,
        build: build_zip_offset,
        space_note: "variant = compress level / checksum level / log2 block units; record i == input i, ids >= n absent",
    }));
    reg.add(Enum(BulkSpec {
        name: "BatchZipOffsetBlobStoreBuilder".into(),
        variants: vec!["c0/k0/b6/n1".into(), "c0/k2/b6/n4".into(), "c3/k2/b7/n4".into()],
        small_max: (2, 3),
        patterns: true,
        build: build_zip_offset_batch,
        space_note: "variant = .../batch size",
    }));
    reg.add(Enum(BulkSpec {
        name: "SimpleZipBlobStore::build_from".into(),
        variants: vec!["default".into(), "frag1-2".into(), "frag2-4/delim=a,space".into()],
        small_max: (3, 4),
        patterns: true,
        build: build_simple_zip,
        space_note: "variant = fragmentation config",
    }));
    reg.add(Enum(BulkSpec {
        name: "MixedLenBlobStore::build_from".into(),
        variants: vec![
            "auto".into(),
            "fixed_len=0".into(),
            "fixed_len=1".into(),
            "fixed_len=2".into(),
            "fixed_len=4".into(),
            "fixed_len=8".into(),
            "fixed_len=64".into(),
            "fixed_len=5".into(),
        ],
        small_max: (3, 4),
        patterns: true,
        build: build_mixed_len,
        space_note: "auto = build_from (dominant length; ties broken by HashMap order), fixed_len=L = build_from_with_fixed_len (every length of R, the pattern lengths 4/8 and an unused one)",
    }));
    reg.add(Enum(BulkSpec {
        name: "ZeroLengthBlobStore::finish".into(),
        variants: vec!["finish".into()],
        small_max: (3, 4),
        patterns: true,
        build: build_zero_length,
        space_note: "only lists of empty records are accepted (others skipped)",
    }));
    for (name, variants) in [
        // the config decides whether len() works at all (it is read from the optional statistics): one subject per setting
        (
            "NestLoudsTrieBlobStore/bulk[statistics=on]",
            vec!["builder[default]/sorted_keys", "builder[default]/unsorted_keys", "build_from_key_value_pairs[enable_statistics]/unsorted_keys"],
        ),
        ("NestLoudsTrieBlobStore/bulk[statistics=off]", vec!["builder[memory_optimized]/unsorted_keys", "build_from_key_value_pairs[default]/unsorted_keys"]),
    ] {
        reg.add(Enum(BulkSpec {
            name: name.into(),
            variants: variants.into_iter().map(String::from).collect(),
            small_max: (2, 3),
            patterns: true,
            build: build_trie,
            space_note: "record i is added under a unique key; where the builder sorts by key the ids are judged as a permutation and get_by_key pins record <-> input",
        }));
    }
    reg.add(Enum(ZipOffsetSaveLoad));
}

fn main() {
    zverif::main_with("C03", |reg, _tier| {
        register_e1(reg);
        register_e2(reg);
    });
}
